"""_lowlevel functions under contract: pure sub-lemmas for C01 and the containment / mode-switch part of C20."""
from .common import *  # noqa
UNITS = []
