"""_lowlevel functions under contract: the containment / mode-switch part of C20, pure sub-lemmas for C01."""
from .common import *  # noqa
import ast

LL = "stackscope._lowlevel."
for c_ in ("Context", "ArgInfo", "frame"):
    register_class(c_)


# ------------------------------------------------------------------------------------------------ contexts_active_in_frame
def caf_setup(ex, p):
    frame = sym_ref(p, "frame", "frame")
    origin = sym_any(p, "origin")
    nxt = sym_any(p, "next_inner")
    p.pc.append(Or(Val.is_none(nxt.t), is_kind(nxt.t, "frame")))
    p.env.update(frame=frame, origin=origin, next_inner=nxt)
    p.ghost["warns"] = 0
    return dict(frame=frame, origin=origin, next_inner=nxt)


def ctx_list_post(pa, r, a):
    return And(is_exact_kind(r, "list"), pa.length(r) >= 0)


def with_context_elems(results):
    """the lists returned by the two analyses hold Context objects (is_exiting is a bool)"""
    for st, p1, v in results:
        if st == "ok":
            H = p1.snap()
            r = v.t
            p1.add_schema(r, lambda pth, j, H=H, r=r: Implies(And(j >= H.lo_(r), j < H.hi_(r)),
                                                              And(is_kind(H.raw(r, j), "Context"), Val.a(H.raw(r, j)) >= 0,
                                                                  Val.is_boolv(H.getf(H.raw(r, j), "is_exiting")))))
    return results


def m_trickery_available(ex, p, args, kwargs, node):
    b = fresh("trickery_available")
    p.pc.append(Val.is_boolv(b))
    p.ghost["mode"] = b
    return [("ok", p, SV(b, ty="bool"))]


def m_by_trickery(ex, p, args, kwargs, node):
    p.ghost["trickery_calls"] = p.ghost.get("trickery_calls", 0) + 1
    return with_context_elems(oracle("_contexts_active_by_trickery", post=[ctx_list_post], ret_ty="list")(ex, p, args, kwargs, node))


def m_by_referents(ex, p, args, kwargs, node):
    p.ghost["referents_calls"] = p.ghost.get("referents_calls", 0) + 1
    p.ghost["referents_args"] = (args[0].t, args[1].t)
    return with_context_elems(oracle("_contexts_active_by_referents", post=[ctx_list_post], ret_ty="list", may_raise=False)(ex, p, args, kwargs, node))


def m_warn(ex, p, args, kwargs, node):
    p.ghost["warns"] = p.ghost.get("warns", 0) + 1
    return [("ok", p, NONE_SV)]


def m_getargvalues(ex, p, args, kwargs, node):
    """inspect.getargvalues(frame) -> ArgInfo(args: list of names, ..., locals: dict); total on frame objects (assumed)"""
    ai = p.new_obj("ArgInfo")
    names = p.new_seq("list", length=fresh_int("nargs"), arr=fresh("argnames", AV))
    p.pc.append(p.length(names) >= 0)
    loc = p.new_dict()
    p.havoc_dict(loc)
    p.setf(ai, "args", names)
    p.setf(ai, "locals", loc)
    H = p.snap()
    # every argument name is bound in locals (CPython: arguments are locals)
    p.add_schema(names, lambda pth, j: Implies(And(j >= 0, j < H.length(names)), H.dhas(loc, H.raw(names, j))))
    p.ghost["arginfo"] = (ai, names, loc, args[0].t)
    return [("ok", p, SV(ai, ty="ArgInfo"))]


def caf_post(ctx):
    g = ctx.p.ghost
    r = ctx.result.t
    H = ctx.H
    tr = [t for t in ctx.p.trace if t[0] == "_contexts_active_by_trickery"]
    rf = [t for t in ctx.p.trace if t[0] == "_contexts_active_by_referents"]
    mode = g["mode"]
    failed = any(t[2][0] == "exc" for t in tr)
    conj = [is_exact_kind(r, "list")]
    if tr and not failed:
        conj += [Val.b(mode), r == tr[0][2][1], BoolVal(len(rf) == 0), BoolVal(g.get("warns", 0) == 0)]
    elif failed:
        # a failing trickery analysis produces exactly one warning, never an exception, and the fallback result is used
        conj += [Val.b(mode), BoolVal(len(rf) == 1 and g.get("warns", 0) == 1), r == rf[0][2][1] if rf else BoolVal(False),
                 rf[0][1][0] == ctx.args["frame"].t if rf else BoolVal(False)]
    else:
        conj += [Not(Val.b(mode)), BoolVal(len(rf) == 1 and len(tr) == 0 and g.get("warns", 0) == 0), r == rf[0][2][1] if rf else BoolVal(False)]
    # the exiting manager's obj is overwritten only if the last context is exiting, a next frame exists and it has arguments
    n = H.length(r)
    last = H.at(r, n - 1)
    nxt = ctx.args["next_inner"].t
    ai = g.get("arginfo")
    if ai is not None:
        _, names, loc, fr = ai
        conj += [n > 0, H.getf(last, "is_exiting") != mkbool(False), Not(Val.is_none(nxt)), fr == nxt,
                 Implies(H.length(names) > 0, H.getf(last, "obj") == H.dget(loc, H.at(names, 0)))]
    return And(conj)


def caf_frame_cond(ctx):
    """contexts other than the last one are not touched"""
    return BoolVal(True)


CAF_UNIT = Unit("C20.contexts_active_in_frame", LL + "contexts_active_in_frame", caf_setup,
                post=[Clause("C20.contain.trickery_failure_warns_and_falls_back", caf_post)],
                bindings=dict(STD_BINDINGS, _check_trickery_available=m_trickery_available, _contexts_active_by_trickery=m_by_trickery,
                              _contexts_active_by_referents=m_by_referents,
                              # the analysis steps themselves: any of them may raise (version-specific bytecode assumptions)
                              analyze_with_blocks=oracle("analyze_with_blocks"), inspect_frame=oracle("inspect_frame"),
                              currently_exiting_context=oracle("currently_exiting_context"),
                              **{"warnings.warn": m_warn, "traceback.print_exc": lambda ex, p, a, k, n: [("ok", p, NONE_SV)],
                                 "inspect.getargvalues": m_getargvalues, "InspectionWarning": cls("Exception")}),
                methods=dict(STD_METHODS), field_types={"args": "list", "locals": "dict"}, known_classes=["Context", "ArgInfo"],
                allowed_raise=lambda ctx: BoolVal(False),
                assumptions=["_contexts_active_by_trickery may raise any Exception (that is the point); _contexts_active_by_referents and "
                             "inspect.getargvalues are total on frame objects; warnings.warn / traceback.print_exc return normally",
                             "elements of the returned lists are Context objects with boolean is_exiting"])


# ------------------------------------------------------------------------------------------------ mode switch
def ste_setup(ex, p):
    mod = sym_ref(p, "module", "module")
    enabled = sym_any(p, "enabled")
    p.pc.append(Or(Val.is_none(enabled.t), Val.is_boolv(enabled.t)))
    lock = SV(z3.Const("_trickery_lock", Val), ty="lock", name="_trickery_lock")
    ex.unit.bindings.update({"$module": mod, "_trickery_lock": lock})
    p.env["enabled"] = enabled
    return dict(mod=mod, enabled=enabled)


STE_UNIT = Unit("C20.set_trickery_enabled", LL + "set_trickery_enabled", ste_setup,
                post=[Clause("C20.mode.set_takes_effect_globally",
                             lambda ctx: And(ctx.H.getf(ctx.args["mod"].t, "_can_use_trickery") == ctx.args["enabled"].t,
                                             BoolVal(ctx.p.ghost.get("locks_held", ()) == ())))],
                bindings=dict(STD_BINDINGS), methods=dict(STD_METHODS),
                assumptions=["_can_use_trickery is a module global: one cell shared by all threads; threading.Lock is a mutex"])

UNITS = [CAF_UNIT, STE_UNIT]
