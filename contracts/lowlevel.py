"""_lowlevel functions under contract: the containment / mode-switch part of C20, pure sub-lemmas for C01."""
from .common import *  # noqa
import ast

LL = "stackscope._lowlevel."
for c_ in ("Context", "ArgInfo", "frame"):
    register_class(c_)


# ------------------------------------------------------------------------------------------------ contexts_active_in_frame
def caf_setup(ex, p):
    frame = sym_ref(p, "frame", "frame")
    origin = sym_any(p, "origin")
    nxt = sym_any(p, "next_inner")
    p.pc.append(Or(Val.is_none(nxt.t), is_kind(nxt.t, "frame")))
    p.env.update(frame=frame, origin=origin, next_inner=nxt)
    p.ghost["warns"] = 0
    return dict(frame=frame, origin=origin, next_inner=nxt)


def ctx_list_post(pa, r, a):
    return And(is_exact_kind(r, "list"), pa.length(r) >= 0)


def with_context_elems(results):
    """the lists returned by the two analyses hold Context objects (is_exiting is a bool)"""
    for st, p1, v in results:
        if st == "ok":
            H = p1.snap()
            r = v.t
            p1.add_schema(r, lambda pth, j, H=H, r=r: Implies(And(j >= H.lo_(r), j < H.hi_(r)),
                                                              And(is_kind(H.raw(r, j), "Context"), Val.a(H.raw(r, j)) >= 0,
                                                                  Val.is_boolv(H.getf(H.raw(r, j), "is_exiting")))))
    return results


def m_trickery_available(ex, p, args, kwargs, node):
    b = fresh("trickery_available")
    p.pc.append(Val.is_boolv(b))
    p.ghost["mode"] = b
    return [("ok", p, SV(b, ty="bool"))]


def m_by_trickery(ex, p, args, kwargs, node):
    p.ghost["trickery_calls"] = p.ghost.get("trickery_calls", 0) + 1
    return with_context_elems(oracle("_contexts_active_by_trickery", post=[ctx_list_post], ret_ty="list")(ex, p, args, kwargs, node))


def m_by_referents(ex, p, args, kwargs, node):
    p.ghost["referents_calls"] = p.ghost.get("referents_calls", 0) + 1
    p.ghost["referents_args"] = (args[0].t, args[1].t)
    return with_context_elems(oracle("_contexts_active_by_referents", post=[ctx_list_post], ret_ty="list", may_raise=False)(ex, p, args, kwargs, node))


def m_warn(ex, p, args, kwargs, node):
    p.ghost["warns"] = p.ghost.get("warns", 0) + 1
    return [("ok", p, NONE_SV)]


def m_getargvalues(ex, p, args, kwargs, node):
    """inspect.getargvalues(frame) -> ArgInfo(args: list of names, ..., locals: dict); total on frame objects (assumed)"""
    ai = p.new_obj("ArgInfo")
    names = p.new_seq("list", length=fresh_int("nargs"), arr=fresh("argnames", AV))
    p.pc.append(p.length(names) >= 0)
    loc = p.new_dict()
    p.havoc_dict(loc)
    p.setf(ai, "args", names)
    p.setf(ai, "locals", loc)
    H = p.snap()
    # every argument name is bound in locals (CPython: arguments are locals)
    p.add_schema(names, lambda pth, j: Implies(And(j >= 0, j < H.length(names)), H.dhas(loc, H.raw(names, j))))
    p.ghost["arginfo"] = (ai, names, loc, args[0].t)
    return [("ok", p, SV(ai, ty="ArgInfo"))]


def caf_post(ctx):
    g = ctx.p.ghost
    r = ctx.result.t
    H = ctx.H
    tr = [t for t in ctx.p.trace if t[0] == "_contexts_active_by_trickery"]
    rf = [t for t in ctx.p.trace if t[0] == "_contexts_active_by_referents"]
    mode = g["mode"]
    failed = any(t[2][0] == "exc" for t in tr)
    conj = [is_exact_kind(r, "list")]
    if tr and not failed:
        conj += [Val.b(mode), r == tr[0][2][1], BoolVal(len(rf) == 0), BoolVal(g.get("warns", 0) == 0)]
    elif failed:
        # a failing trickery analysis produces exactly one warning, never an exception, and the fallback result is used
        conj += [Val.b(mode), BoolVal(len(rf) == 1 and g.get("warns", 0) == 1), r == rf[0][2][1] if rf else BoolVal(False),
                 rf[0][1][0] == ctx.args["frame"].t if rf else BoolVal(False)]
    else:
        conj += [Not(Val.b(mode)), BoolVal(len(rf) == 1 and len(tr) == 0 and g.get("warns", 0) == 0), r == rf[0][2][1] if rf else BoolVal(False)]
    # the exiting manager's obj is overwritten only if the last context is exiting, a next frame exists and it has arguments
    n = H.length(r)
    last = H.at(r, n - 1)
    nxt = ctx.args["next_inner"].t
    ai = g.get("arginfo")
    if ai is not None:
        _, names, loc, fr = ai
        conj += [n > 0, H.getf(last, "is_exiting") != mkbool(False), Not(Val.is_none(nxt)), fr == nxt,
                 Implies(H.length(names) > 0, H.getf(last, "obj") == H.dget(loc, H.at(names, 0)))]
    else:
        # ... and it IS looked up whenever there is an exiting context and a next frame - whatever that frame's function is called,
        # whoever implements it: no further condition (C01 / C02: the exiting manager is identified)
        conj += [Not(And(n > 0, H.getf(last, "is_exiting") == mkbool(True), Not(Val.is_none(nxt))))]
    return And(conj)


def caf_frame_cond(ctx):
    """contexts other than the last one are not touched"""
    return BoolVal(True)


CAF_UNIT = Unit("C20.contexts_active_in_frame", LL + "contexts_active_in_frame", caf_setup,
                post=[Clause("C20.contain.trickery_failure_warns_and_falls_back", caf_post)],
                bindings=dict(STD_BINDINGS, _check_trickery_available=m_trickery_available, _contexts_active_by_trickery=m_by_trickery,
                              _contexts_active_by_referents=m_by_referents,
                              # the analysis steps themselves: any of them may raise (version-specific bytecode assumptions)
                              analyze_with_blocks=oracle("analyze_with_blocks"), inspect_frame=oracle("inspect_frame"),
                              currently_exiting_context=oracle("currently_exiting_context"),
                              **{"warnings.warn": m_warn, "traceback.print_exc": lambda ex, p, a, k, n: [("ok", p, NONE_SV)],
                                 "inspect.getargvalues": m_getargvalues, "InspectionWarning": cls("Exception")}),
                methods=dict(STD_METHODS), field_types={"args": "list", "locals": "dict"}, known_classes=["Context", "ArgInfo"],
                allowed_raise=lambda ctx: BoolVal(False),
                assumptions=["_contexts_active_by_trickery may raise any Exception (that is the point); _contexts_active_by_referents and "
                             "inspect.getargvalues are total on frame objects; warnings.warn / traceback.print_exc return normally",
                             "elements of the returned lists are Context objects with boolean is_exiting"])


# ------------------------------------------------------------------------------------------------ mode switch
def ste_setup(ex, p):
    mod = sym_ref(p, "module", "module")
    enabled = sym_any(p, "enabled")
    p.pc.append(Or(Val.is_none(enabled.t), Val.is_boolv(enabled.t)))
    lock = SV(z3.Const("_trickery_lock", Val), ty="lock", name="_trickery_lock")
    ex.unit.bindings.update({"$module": mod, "_trickery_lock": lock})
    p.env["enabled"] = enabled
    return dict(mod=mod, enabled=enabled)


def ste_before_stmt(ex, n, p):
    if isinstance(n, ast.Assign) and any(isinstance(t, ast.Name) and t.id == "_can_use_trickery" for t in n.targets):
        ex.oblig("C20.mode.setting_stored_under_lock", "clause", p, BoolVal("_trickery_lock" in p.ghost.get("locks_held", ())))


STE_UNIT = Unit("C20.set_trickery_enabled", LL + "set_trickery_enabled", ste_setup, before_stmt=ste_before_stmt,
                post=[Clause("C20.mode.set_takes_effect_globally",
                             lambda ctx: And(ctx.H.getf(ctx.args["mod"].t, "_can_use_trickery") == ctx.args["enabled"].t,
                                             BoolVal(ctx.p.ghost.get("locks_held", ()) == ())))],
                bindings=dict(STD_BINDINGS), methods=dict(STD_METHODS),
                assumptions=["_can_use_trickery is a module global: one cell shared by all threads; threading.Lock is a mutex"])


# ------------------------------------------------------------------------------------------------ _contexts_active_by_referents
from pyvc.exec import str_contains  # noqa: E402
REF = LL + "_contexts_active_by_referents"
register_class("ExitingContext")
register_class("method")


def ref_setup(ex, p):
    frame = sym_ref(p, "frame", "frame")
    origin = sym_any(p, "origin")
    refs_of = {}
    def get_referents(ex_, p_, args, kw, node):
        r = sym_seq(p_, "referents", "list")
        p_.ghost["referents_root"] = args[0].t
        H0 = p_.snap()
        # a bound method object has a function with a str __name__
        p_.add_schema(r.t, lambda pth, j: Implies(And(j >= H0.lo_(r.t), j < H0.hi_(r.t), is_kind(H0.raw(r.t, j), "method")),
                                                  And(Val.is_ref(H0.getf(H0.raw(r.t, j), "__func__")), Val.a(H0.getf(H0.raw(r.t, j), "__func__")) >= 0,
                                                      is_exact_kind(H0.getf(H0.getf(H0.raw(r.t, j), "__func__"), "__name__"), "str"))))
        # a builtin (C-implemented) bound method has a str __name__ of its own
        p_.add_schema(r.t, lambda pth, j: Implies(And(j >= H0.lo_(r.t), j < H0.hi_(r.t), is_kind(H0.raw(r.t, j), "builtin_method")),
                                                  is_exact_kind(H0.getf(H0.raw(r.t, j), "__name__"), "str")))
        p_.ghost["referents"] = r.t
        return [("ok", p_, r)]
    def cec(ex_, p_, args, kw, node):
        x = fresh("exiting")
        p_.pc.append(Or(Val.is_none(x), And(is_kind(x, "ExitingContext"), Val.a(x) >= 0, Val.is_boolv(p_.getf(x, "is_async")))))
        p_.ghost["exiting"] = x
        p_.ghost["exiting_arg"] = args[0].t
        return [("ok", p_, SV(x))]
    ex.unit.bindings["gc.get_referents"] = get_referents
    ex.unit.bindings["currently_exiting_context"] = cec
    p.env.update(frame=frame, origin=origin)
    return dict(frame=frame, origin=origin)


def ref_inv():
    def ghost_havoc(ctx):
        ctx.p.ghost["ctx_made"] = ()
    def qf(ctx):
        return And(ctx.v("ret") == ctx.v0("ret"), ctx.H.length(ctx.v("ret")) >= 0, ctx.H.lo_(ctx.v("ret")) == 0)
    def step(ctx):
        g = ctx.p.ghost.get("head:for#1")
        Hh = g[0]
        ret = ctx.v("ret")
        r = ctx.v("referent")
        H = ctx.H
        # the name a bound method goes by: its function's for a Python method, its own for a C-implemented one (locks, files)
        name = If(is_kind(r, "method"), H.getf(H.getf(r, "__func__"), "__name__"), H.getf(r, "__name__"))
        ex = ctx.ex
        is_exit_method = And(Or(is_kind(r, "method"), is_kind(r, "builtin_method")),
                             Or(ex.eq(ctx.p, SV(name), ex.const(ctx.p, "__exit__")), ex.eq(ctx.p, SV(name), ex.const(ctx.p, "__aexit__"))))
        n0, n1 = Hh.length(ret), H.length(ret)
        new = H.at(ret, n1 - 1)
        # exactly the bound methods (Python or builtin) named __exit__ / __aexit__ contribute one Context each, in referent order
        return If(is_exit_method,
                  And(n1 == n0 + 1, is_kind(new, "Context"), H.getf(new, "obj") == H.getf(r, "__self__"),
                      H.getf(new, "is_async") == mkbool(str_contains(name, ex.const(ctx.p, "a").t)), H.getf(new, "is_exiting") == mkbool(False)),
                  n1 == n0)
    return Inv("C20.referents.scan", qf=qf, ghost_havoc=ghost_havoc, steps=[("C20.referents.one_context_per_exit_method", step)], conts=["ret"])


def ref_post(ctx):
    H = ctx.H
    a = ctx.args
    g = ctx.p.ghost
    ret = ctx.result.t
    x = g["exiting"]
    n = H.length(ret)
    last = H.at(ret, n - 1)
    owner = If(genlike(a["origin"].t), a["origin"].t, a["frame"].t) if tuple(ctx.ex.cfg["version"])[:2] >= (3, 11) else a["frame"].t
    root_ok = g["referents_root"] == owner      # 3.11+: the generator object, not the frame, owns the references
    n_scan = ctx.p.ghost["exit:for#1"][0].length(ret) if "exit:for#1" in ctx.p.ghost else None
    return And(root_ok, g["exiting_arg"] == a["frame"].t,
               If(Val.is_none(x), BoolVal(True),
                  And(n >= 1, is_kind(last, "Context"), H.getf(last, "is_exiting") == mkbool(True), H.getf(last, "obj") == NONE,
                      H.getf(last, "is_async") == H.getf(x, "is_async"))))


from .extract_env import CTORS as _CT, EXTRACT_BINDINGS as _EB  # noqa: E402
REF_UNIT = Unit("C20.contexts_active_by_referents", REF, ref_setup,
                post=[Clause("C20.referents.root_and_exiting_entry", ref_post)],
                bindings=dict(_EB), methods=dict(STD_METHODS), ctors=dict(_CT), known_classes=["Context", "ExitingContext"],
                invariants={(REF, "for#1"): ref_inv()}, options=dict(iter_any_seq=True), field_types={"__name__": "str"}, allowed_raise=lambda ctx: BoolVal(False),
                assumptions=["gc.get_referents(root) lists what the frame / generator refers to (interpreter behaviour: which references the "
                             "interpreter keeps during enter/exit is decided by the bounded leg only)",
                             "a bound method's __func__ is a function with a str __name__"])


# ------------------------------------------------------------------------------------------------ _contexts_active_by_trickery
# The join of C01/C08: the with-blocks of the live block stack (inspect_frame), in order, each paired with the static
# description of its `with` statement (analyze_with_blocks) and with the manager found in the stack slot below the block's
# level; plus the entry for a context whose __exit__ is running; plus the local-variable fallback for names.
TRK = LL + "_contexts_active_by_trickery"
CTX_FIELDS = ["obj", "is_async", "is_exiting", "varname", "start_line", "description", "inner_stack", "children", "hide"]
register_class("FrameDetails")
register_class("FinallyBlock")
items_key = z3.Function("items_key", Val, z3.IntSort(), Val)       # k-th key of dict d in iteration order
items_n = z3.Function("items_n", Val, z3.IntSort())


def dc_replace(ex, p, args, kwargs, node):
    """dataclasses.replace(ctx, **changes) (assumed library contract): a new Context, every field copied except the changed ones"""
    src = args[0]
    if len(args) != 1 or any(k not in CTX_FIELDS for k in kwargs):
        raise Unsupported("replace() shape")
    ex.oblig("C01.join.replace_on_context", "safety", p, is_kind(src.t, "Context"))
    vals = {f: (kwargs[f].t if f in kwargs else p.getf(src.t, f)) for f in CTX_FIELDS}
    o = p.new_obj("Context", **vals)
    p.ghost["replaced"] = p.ghost.get("replaced", ()) + ((o, src.t, tuple(sorted(kwargs))),)
    return [("ok", p, SV(o, ty="Context"))]


def info_entry_ok(H, v):
    """what analyze_with_blocks puts in its table (its own contract; the analysis itself is decided by the bounded legs)"""
    return And(is_kind(v, "Context"), Val.a(v) >= 0, H.getf(v, "obj") == NONE, H.getf(v, "is_exiting") == mkbool(False),
               Val.is_boolv(H.getf(v, "is_async")), Or(Val.is_none(H.getf(v, "varname")), is_exact_kind(H.getf(v, "varname"), "str")))


def trk_setup(ex, p):
    frame = sym_ref(p, "frame", "frame")
    G = p.ghost
    def awb(ex_, p_, args, kw, node):
        d = sym_ref(p_, "with_block_info", "dict")
        H0 = p_.snap()
        p_.add_dschema(d.t, lambda pth, kk: Implies(H0.dhas(d.t, kk), info_entry_ok(H0, H0.dget(d.t, kk))))
        p_.ghost["info"] = d.t
        p_.ghost["info_arg"] = args[0].t
        return [("ok", p_, SV(d.t, ty="dict"))]
    def insp(ex_, p_, args, kw, node):
        fd = sym_ref(p_, "frame_details", "FrameDetails")
        blocks = sym_seq(p_, "fd_blocks", "list")
        stack = sym_seq(p_, "fd_stack", "list")
        p_.setf(fd.t, "blocks", blocks.t)
        p_.setf(fd.t, "stack", stack.t)
        H0 = p_.snap()
        # inspect_frame's own postcondition (unit C02.trim / C01.chain): every block is a FinallyBlock with int handler and a
        # level inside the value stack
        p_.add_schema(blocks.t, lambda pth, j: Implies(And(j >= H0.lo_(blocks.t), j < H0.hi_(blocks.t)),
                                                       And(is_kind(H0.raw(blocks.t, j), "FinallyBlock"), Val.a(H0.raw(blocks.t, j)) >= 0,
                                                           Val.is_intv(H0.getf(H0.raw(blocks.t, j), "handler")),
                                                           Val.is_intv(H0.getf(H0.raw(blocks.t, j), "level")),
                                                           Val.i(H0.getf(H0.raw(blocks.t, j), "level")) >= 1,
                                                           Val.i(H0.getf(H0.raw(blocks.t, j), "level")) <= H0.length(stack.t))))
        p_.pc.append(H0.lo_(stack.t) == 0)
        p_.pc.append(H0.lo_(blocks.t) == 0)
        p_.ghost.update(blocks=blocks.t, stack=stack.t, insp_arg=args[0].t, H_insp=H0)
        return [("ok", p_, SV(fd.t, ty="FrameDetails"))]
    def cec(ex_, p_, args, kw, node):
        x = fresh("exiting")
        H0 = p_.snap()
        # currently_exiting_context's own contract: the cleanup offset it reports is a key of the with-block table
        p_.pc.append(Or(Val.is_none(x), And(is_kind(x, "ExitingContext"), Val.a(x) >= 0, Val.is_boolv(p_.getf(x, "is_async")),
                                            Val.is_intv(p_.getf(x, "cleanup_offset")))))
        p_.ghost["exiting"] = x
        p_.ghost["exiting_arg"] = args[0].t
        return [("ok", p_, SV(x))]
    def items(ex_, p_, args, kw, node):
        d = args[0]
        n = items_n(d.t)
        p_.pc.append(n >= 0)
        H0 = p_.snap()
        def elem(pth, k):
            key = items_key(d.t, k)
            pth.pc.append(Implies(And(k >= 0, k < n), And(H0.dhas(d.t, key), is_exact_kind(key, "str"), Val.a(key) >= 0)))
            return ex_.make_tuple(pth, [SV(key, ty="str"), SV(pth.dget(d.t, key, H0))])
        return [("ok", p_, SV(fresh("items"), special=("custom", n, elem)))]
    fl = p.getf(frame.t, "f_locals")
    p.pc += [is_exact_kind(fl, "dict"), Val.a(fl) >= 0]           # frame.f_locals is a dict (interpreter contract)
    ex.unit.bindings.update({"analyze_with_blocks": awb, "inspect_frame": insp, "currently_exiting_context": cec, "replace": dc_replace})
    ex.unit.methods[("dict", "items")] = items
    p.env.update(frame=frame)
    return dict(frame=frame)


def trk_locals_inv():
    """for name, value in frame.f_locals.items(): locals_by_id[id(value)] = name"""
    def qf(ctx):
        return ctx.v("locals_by_id") == ctx.v0("locals_by_id")
    def per_key(ctx, pth, kk):
        # every entry maps id(v) to the name of a local whose value IS v
        d = ctx.v("locals_by_id")
        fl = ctx.H0.getf(ctx.v0("frame"), "f_locals")
        name = ctx.H.dget(d, kk)
        return Implies(ctx.H.dhas(d, kk), And(is_exact_kind(name, "str"), ctx.H0.dhas(fl, name), Val.is_intv(kk),
                                              Val.i(kk) == id_term(ctx.H0.dget(fl, name)),
                                              obj_of_id(Val.i(kk)) == ctx.H0.dget(fl, name)))
    return Inv("C08.locals_by_id.scan", qf=qf, dforalls=[("locals_by_id", per_key)], dicts=["locals_by_id"])


def id_term(v):
    return If(Val.is_ref(v), Val.a(v), id_of(v))


def trk_fill_inv():
    """for idx, info in enumerate(ret): fill in varname from the locals"""
    def qf(ctx):
        ret = ctx.v("ret")
        return And(ret == ctx.v0("ret"), ctx.H.length(ret) == ctx.H0.length(ret), ctx.H.lo_(ret) == ctx.H0.lo_(ret), ctx.H.lo_(ret) == 0)
    def done(ctx, pth, j):
        ret = ctx.v("ret")
        H, H0 = ctx.H, ctx.H0
        old, new = H0.raw(ret, j), pth.read(ret, j, H)
        inr = And(j >= 0, j < H.length(ret))
        fl = H0.getf(ctx.v0("frame"), "f_locals")
        keep = And([H.getf(new, f) == H0.getf(old, f) for f in CTX_FIELDS if f != "varname"] + [is_kind(new, "Context")])
        vn, vo = H.getf(new, "varname"), H0.getf(old, "varname")
        filled = If(And(Not(Val.is_none(H0.getf(old, "obj"))), Val.is_none(vo)),
                    Or(Val.is_none(vn), And(is_exact_kind(vn, "str"), H0.dhas(fl, vn), H0.dget(fl, vn) == H0.getf(old, "obj"))),
                    vn == vo)
        return And(Implies(inr, And(Val.is_ref(new), Val.a(new) >= -H.alloc)),
                   Implies(And(inr, j < ctx.k), And(keep, filled)), Implies(And(inr, j >= ctx.k), new == old))
    return Inv("C08.varname_fill.scan", qf=qf, foralls=[("ret", done)], conts=["ret"])


def trk_post_with(ctx, pth, j):
    """entry j (j < number of with-blocks on the block stack): the j-th block whose handler is a with-cleanup handler"""
    G = ctx.p.ghost
    flt = [v for k, v in G.items() if k.startswith("filter:")]
    if len(flt) != 1:
        return BoolVal(False)
    F = flt[0]
    Hi = G["H_insp"]
    H = ctx.H
    ret = ctx.result.t
    src = F["src"]
    blk = Hi.raw(G["blocks"], src(j))
    info = Hi.dget(G["info"], Hi.getf(blk, "handler"))
    e = pth.read(ret, j, H)
    slot = Hi.raw(G["stack"], Val.i(Hi.getf(blk, "level")) - 1)
    return Implies(And(j >= 0, j < F["m"]),
                   And(src(j) >= 0, src(j) < Hi.length(G["blocks"]), Hi.dhas(G["info"], Hi.getf(blk, "handler")),
                       Implies(j + 1 < F["m"], src(j) < src(j + 1)),
                       is_kind(e, "Context"), H.getf(e, "obj") == Hi.getf(slot, "__self__"),
                       H.getf(e, "is_async") == Hi.getf(info, "is_async"), H.getf(e, "start_line") == Hi.getf(info, "start_line"),
                       H.getf(e, "is_exiting") == mkbool(False)))


def trk_post_complete(ctx, pth, i):
    """no with-block of the block stack is dropped: block i with a with-cleanup handler is entry pos(i)"""
    G = ctx.p.ghost
    F = [v for k, v in G.items() if k.startswith("filter:")][0]
    Hi = G["H_insp"]
    blk = Hi.raw(G["blocks"], i)
    pth.pc.append(F["complete"](i))        # semantics of the filter comprehension (pyvc model), stated over the CODE's test
    return Implies(And(i >= 0, i < Hi.length(G["blocks"]), Hi.dhas(G["info"], Hi.getf(blk, "handler"))),
                   And(F["pos"](i) >= 0, F["pos"](i) < F["m"], F["src"](F["pos"](i)) == i))


def trk_post(ctx):
    G = ctx.p.ghost
    F = [v for k, v in G.items() if k.startswith("filter:")][0]
    H = ctx.H
    Hi = G["H_insp"]
    ret = ctx.result.t
    x = G["exiting"]
    n = H.length(ret)
    last = ctx.p.read(ret, H.lo_(ret) + n - 1, H)
    info = Hi.dget(G["info"], Hi.getf(x, "cleanup_offset"))
    return And(G["info_arg"] == Hi.getf(ctx.args["frame"].t, "f_code"), G["insp_arg"] == ctx.args["frame"].t, G["exiting_arg"] == ctx.args["frame"].t,
               F["n"] == Hi.length(G["blocks"]),
               If(Val.is_none(x), n == F["m"],
                  And(n == F["m"] + 1, is_kind(last, "Context"), H.getf(last, "is_exiting") == mkbool(True), H.getf(last, "obj") == NONE,
                      H.getf(last, "is_async") == Hi.getf(info, "is_async"), H.getf(last, "start_line") == Hi.getf(info, "start_line"))))


def trk_post_varname(ctx, pth, j):
    """C08: a name is either the one the with statement binds or, failing that, a local whose value IS the manager; never a
    name for the placeholder of an exiting context"""
    G = ctx.p.ghost
    F = [v for k, v in G.items() if k.startswith("filter:")][0]
    Hi = G["H_insp"]
    H = ctx.H
    ret = ctx.result.t
    e = pth.read(ret, j, H)
    vn = H.getf(e, "varname")
    blk = Hi.raw(G["blocks"], F["src"](j))
    static = Hi.getf(Hi.dget(G["info"], Hi.getf(blk, "handler")), "varname")
    fl = Hi.getf(ctx.args["frame"].t, "f_locals")
    return Implies(And(j >= 0, j < F["m"]),
                   If(Not(Val.is_none(static)), vn == static,
                      Or(Val.is_none(vn), And(Not(Val.is_none(H.getf(e, "obj"))), Hi.dhas(fl, vn), Hi.dget(fl, vn) == H.getf(e, "obj")))))


TRK_UNIT = Unit("C01.contexts_active_by_trickery", TRK, trk_setup,
                post=[Clause("C01.join.wiring_and_exiting_entry", trk_post),
                      Clause("C01.join.entry_is_jth_with_block", lambda ctx: trk_post_with(ctx, ctx.p, fresh_int("jsk"))),
                      Clause("C01.join.no_with_block_dropped", lambda ctx: trk_post_complete(ctx, ctx.p, fresh_int("isk"))),
                      Clause("C08.join.varname_static_else_identical_local", lambda ctx: trk_post_varname(ctx, ctx.p, fresh_int("jsk")))],
                bindings=dict(_EB), methods=dict(STD_METHODS), ctors=dict(_CT), known_classes=["Context", "ExitingContext"],
                invariants={(TRK, "for#1"): trk_locals_inv(), (TRK, "for#2"): trk_fill_inv()},
                field_types={"f_locals": "dict", "varname": None}, options=dict(iter_any_seq=True),
                allowed_raise=lambda ctx: BoolVal(True),
                assumptions=["analyze_with_blocks / inspect_frame / currently_exiting_context stand for their own contracts here "
                             "(table of obj-less Context descriptions keyed by handler offset; blocks with level inside the stack); "
                             "the table shape is proved by unit C01.analyze_with_blocks and inspect_frame has its own unit; which with "
                             "statement an entry describes and currently_exiting_context are decided by the bounded G1 legs only",
                             "dataclasses.replace copies every field it is not given", "dict.items() iterates the (key, value) pairs of the dict",
                             "id() is injective on live objects"])


# ------------------------------------------------------------------------------------------------ _check_trickery_available
# Lock discipline of the auto-detection (C20: "set_trickery_enabled(True/False) takes effect ... on all threads"): the
# verdict of the one-time self-test may be stored only while holding _trickery_lock and only over a cell that was seen to be
# None under that same lock acquisition - otherwise it could overwrite a setting made by another thread in the meantime.
CTA = LL + "_check_trickery_available"


def cta_setup(ex, p):
    mod = sym_ref(p, "module", "module")
    v0 = p.getf(mod.t, "_can_use_trickery")
    p.pc.append(Or(Val.is_none(v0), Val.is_boolv(v0)))
    lock = SV(z3.Const("_trickery_lock", Val), ty="lock", name="_trickery_lock")
    def opaque(name, ty=None):
        return lambda ex_, p_, a, k, n: [("ok", p_, SV(fresh(name), **({"ty": ty} if ty else {})))]
    def deco_contextmanager(ex_, p_, fv, node):
        return [("ok", p_, SV(fresh("cm_factory"), model=opaque("cm_object")))]
    def gen_send(ex_, p_, args, kw, node):
        return oracle("gen.send", may_raise=True)(ex_, p_, args, kw, node)
    ex.unit.bindings.update({"$module": mod, "_trickery_lock": lock, "warnings.warn": m_warn,
                             "traceback.print_exc": opaque("print_exc"), "_contexts_active_by_trickery": m_by_trickery,
                             "InspectionWarning": cls("InspectionWarning")})
    ex.unit.decorators[CTA + ".noop"] = deco_contextmanager
    ex.unit.methods[("generator", "send")] = gen_send
    ex.unit.methods[("str", "format")] = lambda ex_, p_, a, k, n: [("ok", p_, ex_.new_str(p_))]
    p.ghost["$globals"] = ("_can_use_trickery",)
    return dict(mod=mod)


def cta_global_read(ex, p, name):
    if "_trickery_lock" not in p.ghost.get("locks_held", ()):
        v = fresh("racy_" + name)          # not holding the lock: another thread may have stored anything since the last look
        p.pc.append(Or(Val.is_none(v), Val.is_boolv(v)))
        p.setf(ex.unit.bindings["$module"].t, name, v)
        p.ghost["cs_own_write"] = False


def cta_before_stmt(ex, n, p):
    if isinstance(n, ast.Assign) and len(n.targets) == 1 and isinstance(n.targets[0], ast.Name) and n.targets[0].id == "_can_use_trickery":
        held = "_trickery_lock" in p.ghost.get("locks_held", ())
        cur = p.getf(ex.unit.bindings["$module"].t, "_can_use_trickery")
        own = bool(p.ghost.get("cs_own_write")) and held
        ex.oblig("C20.mode.verdict_stored_only_under_lock_over_unset_cell", "clause", p,
                 And(BoolVal(held), Or(Val.is_none(cur), BoolVal(own))))
        p.ghost["cs_own_write"] = held
    if isinstance(n, ast.With):
        # about to take the lock: whatever was seen before is stale by the time the lock is held
        cta_global_read(ex, p, "_can_use_trickery")
        p.ghost["cs_own_write"] = False


def cta_post(ctx):
    # no lock is left held, and the answer is a bool
    return And(BoolVal(ctx.p.ghost.get("locks_held", ()) == ()), Or(Val.is_boolv(ctx.result.t), Val.is_none(ctx.result.t)))


CTA_UNIT = Unit("C20.check_trickery_available", CTA, cta_setup,
                post=[Clause("C20.mode.autodetect_releases_lock", cta_post)],
                bindings=dict(STD_BINDINGS), methods=dict(STD_METHODS), before_stmt=cta_before_stmt,
                options=dict(global_read=cta_global_read, opaque_generators=True, iter_any_seq=True),
                allowed_raise=lambda ctx: BoolVal(False),
                assumptions=["_can_use_trickery is a module global: one cell shared by all threads, read as VOLATILE whenever "
                             "_trickery_lock is not held (any None/bool value may appear); threading.Lock is a mutex and every other "
                             "writer (set_trickery_enabled, own unit) holds it",
                             "the self-test itself (generator, contextmanager, warnings) is opaque here: only the lock discipline of the "
                             "verdict is decided"])


# ------------------------------------------------------------------------------------------------ analyze_with_blocks
# The table that _contexts_active_by_trickery joins with the block stack: a FRESH dict of FRESH obj-less, non-exiting Context
# templates keyed by handler offsets (this discharges the callee contract assumed by the join unit, and states the ownership
# condition behind C06: nothing of the table is shared between calls).  Which with statement an entry describes - the bytecode
# layout knowledge - is NOT decided here (bounded G1 legs).
AWB = LL + "analyze_with_blocks"
register_class("Instruction")


def awb_setup(ex, p):
    code = sym_ref(p, "code", "code")
    p.env["code"] = code
    def bytecode(ex_, p_, args, kw, node):
        insns = sym_seq(p_, "insns", "list")
        H0 = p_.snap()
        p_.pc.append(H0.lo_(insns.t) == 0)
        p_.add_schema(insns.t, lambda pth, j: Implies(And(j >= 0, j < H0.length(insns.t)),
                                                      And(is_kind(H0.raw(insns.t, j), "Instruction"), Val.a(H0.raw(insns.t, j)) >= 0,
                                                          is_exact_kind(H0.getf(H0.raw(insns.t, j), "opname"), "str"),
                                                          Or(Val.is_none(H0.getf(H0.raw(insns.t, j), "starts_line")), Val.is_intv(H0.getf(H0.raw(insns.t, j), "starts_line"))),
                                                          Val.is_intv(H0.getf(H0.raw(insns.t, j), "offset")))))
        return [("ok", p_, SV(insns.t, ty="list"))]
    def dat(ex_, p_, args, kw, node):
        v = fresh("store_to")
        p_.pc.append(Or(Val.is_none(v), And(is_exact_kind(v, "str"), Val.a(v) >= 0)))
        return [("ok", p_, SV(v))]
    def pet(ex_, p_, args, kw, node):
        t = sym_seq(p_, "exc_table", "list")
        H0 = p_.snap()
        p_.pc.append(H0.lo_(t.t) == 0)
        p_.add_schema(t.t, lambda pth, j: Implies(And(j >= 0, j < H0.length(t.t)),
                                                  And(is_exact_kind(H0.raw(t.t, j), "tuple"), Val.a(H0.raw(t.t, j)) >= 0, H0.length(H0.raw(t.t, j)) == 5,
                                                      H0.lo_(H0.raw(t.t, j)) == 0)))
        return [("ok", p_, SV(t.t, ty="list"))]
    ex.unit.bindings.update({"dis.Bytecode": bytecode, "describe_assignment_target": dat, "_parse_exception_table": pet})
    p.pc.append(last_line(0) == Val.intv(-1))
    return dict(code=code)


# ghost: the line in force after the first i instructions = starts_line of the latest of them that starts a line, -1 if none
last_line = Function("C08.line_in_force_after", IntSort(), Val)


def awb_entry_ok(H, v):
    """a table entry: a Context allocated by THIS call, obj-less and not exiting"""
    return And(is_kind(v, "Context"), Val.a(v) < 0, Val.a(v) >= -H.alloc, H.getf(v, "obj") == NONE, H.getf(v, "is_exiting") == mkbool(False),
               Val.is_boolv(H.getf(v, "is_async")), Or(Val.is_none(H.getf(v, "varname")), is_exact_kind(H.getf(v, "varname"), "str")),
               Val.is_intv(H.getf(v, "start_line")))


def awb_inv():
    def sl(ctx, i):
        ins = ctx.v("insns")
        return ctx.H.getf(ctx.p.read(ins, ctx.H.lo_(ins) + i, ctx.H), "starts_line")
    def qf(ctx):
        d = ctx.v("with_block_info")
        # C08: the line a new entry would get is the line in force at this instruction - EVERY instruction that starts a line
        # counts, whatever its opcode (argument prefixes included)
        return And(d == ctx.v0("with_block_info"), Val.is_intv(ctx.v("current_line")), Val.a(d) < 0, is_exact_kind(d, "dict"),
                   ctx.v("current_line") == last_line(ctx.k), ctx.v("insns") == ctx.v0("insns"))
    def defs(ctx):
        s_ = sl(ctx, ctx.k)
        return last_line(ctx.k + 1) == If(Val.is_none(s_), last_line(ctx.k), s_)
    def per_key(ctx, pth, kk):
        d = ctx.v("with_block_info")
        w = z3.Int("w_line")
        e = ctx.H.dget(d, kk)
        # ... and every entry made so far carries the line that was in force at the instruction that made it
        return Implies(ctx.H.dhas(d, kk), And(awb_entry_ok(ctx.H, e),
                                              z3.Exists([w], And(w >= 0, w < ctx.k, ctx.H.getf(e, "start_line") == last_line(w + 1)))))
    return Inv("C01.table.scan", qf=qf, defs=defs, dforalls=[("with_block_info", per_key)], dicts=["with_block_info"], header="enumerate(insns)",
               fields=[(f, None) for f in CTX_FIELDS])


def awb_skip_inv():
    def qf(ctx):
        return And(Val.is_intv(ctx.v("skip_insns")), Val.i(ctx.v("skip_insns")) >= 1, ctx.v("with_block_info") == ctx.v0("with_block_info"))
    return Inv("C01.table.extended_arg_skip", qf=qf, header="EXTENDED_ARG")


def awb_post(ctx):
    r = ctx.result.t
    kk = fresh("ksk")
    ctx.p.dinst(r, kk)
    return And(is_exact_kind(r, "dict"), Val.a(r) < 0, Implies(ctx.H.dhas(r, kk), awb_entry_ok(ctx.H, ctx.H.dget(r, kk))))


AWB_UNIT = Unit("C01.analyze_with_blocks", AWB, awb_setup,
                post=[Clause("C01.table.fresh_table_of_fresh_objless_nonexiting_templates", awb_post)],
                bindings=dict(_EB), methods=dict(STD_METHODS), ctors=dict(_CT), known_classes=["Context"],
                invariants={(AWB, "for#1"): awb_inv(), (AWB, "while#1"): awb_skip_inv()},
                field_types={"opname": "str"}, options=dict(iter_any_seq=True),
                allowed_raise=lambda ctx: is_kind(ctx.exc.t, "Exception"),
                assumptions=["dis.Bytecode yields Instruction objects (opname str, starts_line None/int, offset int); describe_assignment_target "
                             "returns None or a str; _parse_exception_table yields 5-tuples (own lemma C01.parse_exception_table)",
                             "WHICH with statement each entry describes (bytecode layout) is not decided by this unit"])


# the same two units under the 3.10 configuration (the version tests of the real source select the other branches: SETUP_WITH
# opcodes instead of BEFORE_WITH + exception table; referents taken from the frame instead of the generator object)
PY310_CFG = dict(version=(3, 10, 13, "final", 0))
AWB_UNIT_310 = Unit("C01.analyze_with_blocks@py310", AWB, awb_setup,
                    post=[Clause("C01.table.fresh_table_of_fresh_objless_nonexiting_templates@py310", awb_post)], cfg=PY310_CFG,
                    bindings=dict(_EB), methods=dict(STD_METHODS), ctors=dict(_CT), known_classes=["Context"],
                    invariants={(AWB, "for#1"): awb_inv()}, field_types={"opname": "str"}, options=dict(iter_any_seq=True),
                    allowed_raise=lambda ctx: is_kind(ctx.exc.t, "Exception"), assumptions=list(AWB_UNIT.assumptions))
REF_UNIT_310 = Unit("C20.contexts_active_by_referents@py310", REF, ref_setup,
                    post=[Clause("C20.referents.root_and_exiting_entry@py310", ref_post)], cfg=PY310_CFG,
                    bindings=dict(_EB), methods=dict(STD_METHODS), ctors=dict(_CT), known_classes=["Context", "ExitingContext"],
                    invariants={(REF, "for#1"): ref_inv()}, options=dict(iter_any_seq=True), field_types={"__name__": "str"},
                    allowed_raise=lambda ctx: BoolVal(False), assumptions=list(REF_UNIT.assumptions))

UNITS = [CAF_UNIT, STE_UNIT, REF_UNIT, TRK_UNIT, CTA_UNIT, AWB_UNIT, AWB_UNIT_310, REF_UNIT_310]
