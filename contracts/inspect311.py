"""inspect_frame (CPython 3.11+, stackscope/_lowlevel_cpython_311.py) under contract.
Serves C07 (snapshot-validation protocol of the retry loop), C02 (stack trimming of running frames), C01 (handler-chain walk)
and C06 (no read above the validated extent).  Every read of frame.f_lasti, of a raw struct field and of a value-stack slot is
a VOLATILE read: it returns an arbitrary value and is appended to a ghost event log (another thread may be running the
frame).  Memory safety of the ctypes reads themselves is NOT modelled (assumption)."""
from .common import *  # noqa
import ast

IF = "stackscope._lowlevel_cpython_311.inspect_frame"
for c_ in ("FrameDetails", "FinallyBlock", "craw_frame", "cptr", "craw_iframe", "ctypes_type", "ctypes_array_type", "ctypes_array", "frame"):
    register_class(c_)

cov = Function("covering_entry", IntSort(), IntSort())     # ghost: index of THE table entry covering an offset, or -1


def log(p, ev):
    p.ghost["log"] = p.ghost.get("log", ()) + (ev,)


def volatile_int(kind_, name):
    def prop(ex, p, obj):
        v = fresh_int(f"vol_{name}")
        log(p, (kind_, name, v))
        return [("ok", p, sv_int(v))]
    return prop


def prop_f_frame(ex, p, obj):
    log(p, ("raw", "f_frame", None))
    return [("ok", p, SV(fresh("ptr"), ty="cptr"))]


def prop_contents(ex, p, obj):
    return [("ok", p, SV(fresh("iframe"), ty="craw_iframe"))]


def m_from_address(ex, p, args, kwargs, node):
    return [("ok", p, SV(fresh("frame_raw"), ty="craw_frame"))]


def m_array_type(ex, p, args, kwargs, node):
    return [("ok", p, SV(fresh("arrtype"), ty="ctypes_array_type", n=args[1]))]


def m_array_from_address(ex, p, args, kwargs, node):
    recv = args[0]
    p.ghost["array_len"] = recv.get("n").t
    return [("ok", p, SV(fresh("stack_ptr"), ty="ctypes_array", n=recv.get("n")))]


def m_slot_read(ex, p, args, kwargs, node):
    """stack_ptr[i]: reads a PyObject* and takes a reference (assumed atomic); NULL raises ValueError"""
    arr, i = args
    log(p, ("slot", "stack_ptr", Val.i(i.t)))
    n = Val.i(arr.get("n").t)
    # C06 / memory safety precondition of the read: the index is inside the extent the snapshot validated
    ex.oblig("C06.slot_read_within_validated_extent", "clause", p, And(Val.i(i.t) >= 0, Val.i(i.t) < n))
    ok, bad = p.clone(), p.clone()
    o = fresh("slot_obj")
    ok.pc.append(Implies(Val.is_ref(o), Val.a(o) >= 0))
    e = bad.new_obj("ValueError")
    return [("ok", ok, SV(o)), ("raise", bad, SV(e, ty="ValueError", site="NULL slot"))]


def const_int(n):
    return lambda ex, p, args, kwargs, node: [("ok", p, sv_int(n))]


def fresh_nonneg(name):
    def m(ex, p, args, kwargs, node):
        v = fresh_int(name)
        p.pc.append(v >= 0)
        return [("ok", p, sv_int(v))]
    return m


def ctor_details(ex, p, args, kwargs, node):
    d = p.new_obj("FrameDetails")
    p.setf(d, "blocks", p.new_seq("list", []))
    p.setf(d, "stack", p.new_seq("list", []))
    return [("ok", p, SV(d, ty="FrameDetails"))]


def ctor_block(ex, p, args, kwargs, node):
    b = p.new_obj("FinallyBlock", handler=kwargs["handler"].t, level=kwargs["level"].t)
    return [("ok", p, SV(b, ty="FinallyBlock"))]


def covers(H, T, j, x):
    e = H.at(T, j)
    return And(Val.i(H.at(e, 0)) <= x, x <= Val.i(H.at(e, 1)))


def setup(ex, p):
    frame = sym_ref(p, "frame", "frame")
    co = sym_ref(p, "code_object", "code")
    p.setf(frame.t, "f_code", co.t)
    for f in ("co_varnames", "co_cellvars", "co_freevars"):
        t = sym_seq(p, "co_" + f, "tuple")
        p.setf(co.t, f, t.t)
    p.pc += [Val.is_intv(p.getf(co.t, "co_stacksize")), Val.i(p.getf(co.t, "co_stacksize")) >= 0]
    T = sym_seq(p, "exception_table", "list")
    H0 = p.snap()
    n = H0.length(T.t)
    # the decoded exception table: 5-tuples (start, end, target, depth, lasti) of non-negative ints with start <= end
    def entry(pth, j):
        e = H0.raw(T.t, j)
        return Implies(And(j >= H0.lo_(T.t), j < H0.hi_(T.t)),
                       And(is_exact_kind(e, "tuple"), H0.length(e) == 5, Val.a(e) >= 0,
                           *[Val.is_intv(H0.at(e, i)) for i in range(4)], Val.i(H0.at(e, 0)) >= 0, Val.i(H0.at(e, 0)) <= Val.i(H0.at(e, 1)),
                           Val.i(H0.at(e, 2)) >= 0, Val.i(H0.at(e, 3)) >= 0))
    p.add_schema(T.t, entry)
    p.pc.append(H0.lo_(T.t) == 0)
    ex.unit.bindings["_parse_exception_table"] = lambda ex_, p_, a, k, nd: [("ok", p_, SV(T.t, ty="list"))]
    p.env["frame"] = frame
    p.ghost["log"] = ()
    ex.unit_args = dict(frame=frame, co=co, T=T, H0=H0)
    return ex.unit_args


def sorted_disjoint_pair(H, T, i, j):
    """named precondition sorted_disjoint(handlers), instantiated for one pair: entries are ordered by start and do not
       overlap (CPython's exception table; checked on every code object of the stdlib corpus by legs/corpus.py)"""
    ei, ej = H.at(T, i), H.at(T, j)
    return Implies(And(i >= 0, j >= 0, i < j, j < H.length(T)), Val.i(H.at(ei, 1)) < Val.i(H.at(ej, 0)))


# ------------------------------------------------------------------------------------------------ invariants
def attempts_inv():
    def ghost_havoc(ctx):
        ctx.p.ghost["log"] = ()
        ctx.p.ghost.pop("array_len", None)
    def qf(ctx):
        d = ctx.v("details")
        return And(ctx.k <= 10, d == ctx.v0("details"), ctx.v("co") == ctx.v0("co"),
                   ctx.v("stack_start_offset") == ctx.v0("stack_start_offset"), ctx.v("end_offset") == ctx.v0("end_offset"),
                   ctx.v("localsplus_offset") == ctx.v0("localsplus_offset"),
                   ctx.H.getf(d, "blocks") == ctx.H0.getf(d, "blocks"), ctx.H.length(ctx.H0.getf(d, "blocks")) == 0)
    return Inv("C07.attempts", qf=qf, ghost_havoc=ghost_havoc, fields=[("stack", "details")], header="_ in range(")


def scan_inv():
    def none_before(ctx, pth, j):
        T = ctx.ex.unit_args["T"].t
        lb = Val.i(ctx.v("lasti_before"))
        H0 = ctx.ex.unit_args["H0"]
        pth.read(T, H0.lo_(T) + j, H0)
        return Implies(And(j >= 0, j < ctx.k), Not(covers(H0, T, j, lb)))
    return Inv("C02.first_covering_entry_scan", qf=lambda ctx: ctx.v("lasti_before") == ctx.v0("lasti_before"), header="_parse_exception_table(co)",
               foralls=[(lambda p_: p_.env["$T"].t, none_before)])


def slots_inv():
    def ghost_havoc(ctx):
        ctx.p.ghost["log_before_slots"] = ctx.p.ghost.get("log", ())
        ctx.p.ghost["log"] = ()
    def qf(ctx):
        d = ctx.v("details")
        st = ctx.H.getf(d, "stack")
        return And(ctx.H.length(st) == ctx.k, st == ctx.H0.getf(d, "stack"), d == ctx.v0("details"),
                   ctx.v("lasti_before") == ctx.v0("lasti_before"), ctx.v("stack_ptr") == ctx.v0("stack_ptr"))
    def step(ctx):
        # every slot read is immediately preceded by a check that f_lasti still has the snapshot's value
        lg = ctx.p.ghost.get("log", ())
        if [e[0] for e in lg] != ["lasti", "slot"]:
            return BoolVal(False)
        return And(lg[0][2] == Val.i(ctx.v("lasti_before")), lg[1][2] == ctx.k - 1)
    return Inv("C07.slot_reads", qf=qf, ghost_havoc=ghost_havoc, header="i in range(stack_len)", steps=[("C07.snapshot.every_slot_read_is_bracketed", step)],
               conts=[lambda p_: p_.getf(p_.env["details"].t, "stack")])


def chain_inv():
    def qf(ctx):
        d = ctx.v("details")
        bl = ctx.H.getf(d, "blocks")
        n = ctx.H.length(bl)
        cur = Val.i(ctx.v("current"))
        lasti = Val.i(ctx.v("lasti"))
        last = ctx.H.at(bl, n - 1)
        return And(d == ctx.v0("details"), bl == ctx.H0.getf(d, "blocks"), ctx.H.lo_(bl) == 0, n >= 0, Val.is_intv(ctx.v("current")),
                   ctx.v("handlers") == ctx.v0("handlers"), ctx.v("lasti") == ctx.v0("lasti"),
                   cur == If(n == 0, lasti, Val.i(ctx.H.getf(last, "handler"))))
    def blocks_chain(ctx, pth, j):
        d = ctx.v("details")
        bl = ctx.H.getf(d, "blocks")
        T = ctx.ex.unit_args["T"].t
        H0 = ctx.ex.unit_args["H0"]
        b = pth.read(bl, j, ctx.H)
        prev = pth.read(bl, j - 1, ctx.H)
        cj = If(j == 0, Val.i(ctx.v("lasti")), Val.i(ctx.H.getf(prev, "handler")))
        c = cov(cj)
        e = H0.at(T, c)
        return Implies(And(j >= 0, j < ctx.H.length(bl)),
                       And(is_kind(b, "FinallyBlock"), Val.a(b) >= -ctx.H.alloc, c >= 0, c < H0.length(T), covers(H0, T, c, cj),
                           ctx.H.getf(b, "handler") == H0.at(e, 2), ctx.H.getf(b, "level") == H0.at(e, 3)))
    def defs(ctx):
        # definition of the ghost `covering_entry` at the current offset: the (unique, by sorted_disjoint) covering entry or -1
        T = ctx.ex.unit_args["T"].t
        H0 = ctx.ex.unit_args["H0"]
        cur = Val.i(ctx.v("current"))
        c = cov(cur)
        ctx.p.add_schema(T, lambda pth, j: Implies(And(c == -1, j >= 0, j < H0.length(T)), Not(covers(H0, T, j, cur))))
        return And(Or(c == -1, And(c >= 0, c < H0.length(T), covers(H0, T, c, cur))))
    return Inv("C01.chain", qf=qf, foralls=[(lambda p_: p_.getf(p_.env["details"].t, "blocks"), blocks_chain)], defs=defs,
               conts=[lambda p_: p_.getf(p_.env["details"].t, "blocks")])


def m_bisect_left(ex, p, args, kwargs, node):
    """bisect.bisect_left(handlers, (x, 0)) on a list sorted by start: r with handlers[j].start < x for j < r and >= x for j >= r"""
    hs, keyv = args
    x = Val.i(p.elem(keyv.t, 0))
    H = p.snap()
    n = H.length(hs.t)
    r = fresh_int("bisect")
    p.pc += [r >= 0, r <= n]
    ht = hs.t
    p.add_schema(ht, lambda pth, j: And(Implies(And(j >= H.lo_(ht), j < H.lo_(ht) + r), Val.i(H.at(H.raw(ht, j), 0)) < x),
                                        Implies(And(j >= H.lo_(ht) + r, j < H.hi_(ht)), Val.i(H.at(H.raw(ht, j), 0)) >= x)))
    p.ghost["bisect"] = (r, x)
    return [("ok", p, sv_int(r))]


def before_stmt(ex, n, p):
    src = ast.unparse(n)[:60] if isinstance(n, (ast.Assign, ast.For)) else ""
    if isinstance(n, ast.For) and "_parse_exception_table" in ast.unparse(n.iter):
        p.env["$T"] = ex.unit_args["T"]
    if src.startswith("start, end, target, depth, *_ = handlers[idx - 1]"):
        # sorted_disjoint(handlers), instantiated for the pair (covering_entry(current), idx - 1) in both orders
        T, H0 = ex.unit_args["T"].t, ex.unit_args["H0"]
        c = cov(Val.i(p.env["current"].t))
        i = Val.i(p.env["idx"].t) - 1
        hs = p.env["handlers"].t
        p.read(hs, p.lo(hs) + i)      # the list(...) copy equals the table element-wise
        p.read(hs, p.lo(hs) + c)
        p.pc += [sorted_disjoint_pair(H0, T, c, i), sorted_disjoint_pair(H0, T, i, c)]
    if isinstance(n, ast.Expr) and ast.unparse(n).startswith("details.blocks.reverse()"):
        p.ghost["pre_reverse"] = p.snap()


# ------------------------------------------------------------------------------------------------ clauses
def on_break_snapshot(ex, p):
    """called when the retry loop is left by `break`: the attempt's log must show a consistent snapshot"""


def post_return(ctx):
    p = ctx.p
    g = p.ghost
    d = ctx.result.t
    H = ctx.H
    T, H0 = ctx.ex.unit_args["T"].t, ctx.ex.unit_args["H0"]
    lb = Val.i(ctx.env["lasti_before"].t)
    lg_pre = g.get("log_before_slots")
    lg = g.get("log", ())
    conj = []
    # --- C07.snapshot: the accepted attempt saw ONE instruction position: every f_lasti observation of the attempt equals
    # lasti_before, and the attempt ends with such a check
    all_events = (lg_pre or ()) + lg if lg_pre is not None else lg
    lasti_reads = [e for e in all_events if e[0] == "lasti"]
    conj.append(BoolVal(len(lasti_reads) >= 3))        # the initial read, the check before the slot reads, the final check
    for e in lasti_reads:
        conj.append(e[2] == lb)
    conj.append(BoolVal(bool(all_events) and all_events[-1][0] == "lasti"))
    conj.append(Val.i(ctx.env["lasti"].t) == lb)
    # --- C02.trim: a running frame (stacktop == -1) is cut to the depth of the FIRST table entry covering lasti_before
    # (0 if none), computed in the SAME attempt; a suspended one to its saved stack top
    hd = Val.i(ctx.env["handler_depth"].t)
    kscan = g.get("exit_k:for#2")
    j = fresh_int("jt")
    p.read(T, H0.lo_(T) + j, H0)
    first_cov = And(kscan >= 0, Implies(And(j >= 0, j < kscan), Not(covers(H0, T, j, lb))),
                    If(kscan < H0.length(T), And(covers(H0, T, kscan, lb), hd == Val.i(H0.at(H0.at(T, kscan), 3))), hd == 0))
    conj.append(first_cov)
    stacktop = [e for e in all_events if e[0] == "raw" and e[1] == "stacktop"]
    conj.append(BoolVal(len(stacktop) == 1))
    if stacktop:
        stv = stacktop[0][2]
        n_slots = Val.i(ctx.env["stack_len"].t)
        start, lp = Val.i(ctx.env["stack_start_offset"].t), Val.i(ctx.env["localsplus_offset"].t)
        conj.append(If(stv == -1, n_slots == hd, And(n_slots == (lp + 8 * stv - start) / 8, n_slots >= 0,
                                                     n_slots <= Val.i(H0.getf(ctx.ex.unit_args["co"].t, "co_stacksize")))))
        owner = [e for e in all_events if e[0] == "raw" and e[1] == "owner"]
        if owner:
            conj.append(H.length(H.getf(d, "stack")) == If(owner[0][2] != 2, n_slots, 0))
    return And(conj)


def post_chain(ctx):
    """C01.chain: blocks, after the final reverse(), is the outside-in handler chain of lasti and ends where no entry covers"""
    H = ctx.H
    d = ctx.result.t
    bl = H.getf(d, "blocks")
    cur = Val.i(ctx.env["current"].t)
    T, H0 = ctx.ex.unit_args["T"].t, ctx.ex.unit_args["H0"]
    j = fresh_int("jc")
    ctx.p.read(T, H0.lo_(T) + j, H0)
    hs = ctx.env["handlers"].t
    ctx.p.read(hs, H.lo_(hs) + j, H)                 # bisect's ordering facts and the copy's element facts at j
    idx = Val.i(ctx.env["idx"].t)
    ctx.p.read(hs, H.lo_(hs) + idx - 1, H)
    ctx.p.pc.append(sorted_disjoint_pair(H0, T, j, idx - 1))      # sorted_disjoint(handlers) for the pair (j, idx - 1)
    pre = ctx.p.ghost.get("pre_reverse")
    if pre is None:
        return BoolVal(False)              # the inside-out list built by the walk must be reversed to outside-in
    kb = fresh_int("kb")
    nb = pre.length(bl)
    ctx.p.read(bl, H.lo_(bl) + kb, H)
    order = And(H.length(bl) == nb, Implies(And(kb >= 0, kb < nb), H.at(bl, kb) == pre.at(bl, nb - 1 - kb)))
    return And(is_exact_kind(bl, "list"), order, Implies(And(j >= 0, j < H0.length(T)), Not(covers(H0, T, j, cur))))


def raise_ok(ctx):
    g = ctx.p.ghost
    e = ctx.exc.t
    lg = (g.get("log_before_slots") or ()) + g.get("log", ())
    lasti_reads = [x for x in lg if x[0] == "lasti"]
    k = g.get("exit_k:for#1")
    if "lasti_before" not in ctx.env:
        # the sanity asserts before the retry loop
        return is_kind(e, "AssertionError")
    lb = Val.i(ctx.env["lasti_before"].t)
    # an AssertionError propagates only if f_lasti was re-read and is UNCHANGED (a genuine inconsistency, not a race);
    # RuntimeError only after ten failed attempts
    return Or(And(is_kind(e, "AssertionError"), BoolVal(bool(lasti_reads)), lasti_reads[-1][2] == lb if lasti_reads else BoolVal(False)),
              And(is_kind(e, "RuntimeError"), k == 10 if k is not None else BoolVal(False)))


UNIT = Unit("C07.inspect_frame_311", IF, setup,
            post=[Clause("C07.snapshot_consistent_with_one_instruction_position", post_return),
                  Clause("C01.chain.handler_chain_of_lasti", post_chain)],
            bindings=dict(STD_BINDINGS, **{
                "FrameDetails": ctor_details, "FrameDetails.FinallyBlock": ctor_block, "FrameObject.from_address": m_from_address,
                "sys.getrefcount": fresh_nonneg("refcnt"), "ctypes.sizeof": fresh_nonneg("sizeof"), "ctypes.addressof": fresh_nonneg("addr"),
                "wordsize": sv_int(8), "ctypes.py_object": SV(z3.Const("py_object", Val), ty="ctypes_type"),
                "InterpreterFrame": SV(z3.Const("InterpreterFrame", Val), ty="ctypes_type"),
                "FRAME_OWNED_BY_FRAME_OBJECT": sv_int(2), "bisect.bisect_left": m_bisect_left}),
            methods={**STD_METHODS, ("ctypes_type", "__binop__"): m_array_type, ("ctypes_array_type", "from_address"): m_array_from_address,
                     ("ctypes_array", "__getitem__"): m_slot_read},
            props={("frame", "f_lasti"): volatile_int("lasti", "f_lasti"), ("craw_frame", "ob_refcnt"): volatile_int("raw", "ob_refcnt"),
                   ("craw_frame", "ob_type"): volatile_int("raw", "ob_type"), ("craw_frame", "f_frame"): prop_f_frame,
                   ("cptr", "contents"): prop_contents,
                   **{("craw_iframe", f): volatile_int("raw", f) for f in ("f_globals", "f_builtins", "f_code", "frame_obj", "stacktop", "owner")}},
            invariants={(IF, "for#1"): attempts_inv(), (IF, "for#2"): scan_inv(), (IF, "for#3"): slots_inv(), (IF, "while#1"): chain_inv()},
            field_types={"co_varnames": "tuple", "co_cellvars": "tuple", "co_freevars": "tuple"},
            before_stmt=before_stmt, allowed_raise=raise_ok, known_classes=["FrameDetails", "FinallyBlock"],
            options=dict(iter_any_seq=True, expect_loops=["for#1", "for#2", "for#3", "while#1"]),
            assumptions=["ctypes reads return SOME value and take references correctly; the interpreter does not crash (memory safety under "
                         "races is NOT modelled); ABA (f_lasti returning to the same value) is acknowledged by the code and not excluded",
                         "sorted_disjoint(handlers): exception-table entries are ordered by start and do not overlap",
                         "the two calls of _parse_exception_table(co) decode the same immutable co_exceptiontable"])
UNITS = [UNIT]
