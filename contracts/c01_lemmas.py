"""C01 pure sub-lemmas (CPython 3.11+ exception-table decoding in stackscope/_lowlevel.py):
   _parse_varint computes the big-endian base-64 value of a run of bytes whose continuation bit (64) is set on all but the
   last; _parse_exception_table yields (2*start, 2*start + 2*length - 2, 2*target, dl >> 1, bool(dl & 1)) per four varints."""
from .common import *  # noqa

LL = "stackscope._lowlevel."
register_class("byteiter")
V = Function("varint_value", IntSort(), IntSort(), IntSort())     # ghost: value of bytes[s..e] read as one varint prefix
byte_at = Function("table_byte", IntSort(), IntSort())            # the immutable co_exceptiontable bytes
NBYTES = z3.Int("table_len")


def it_next(ex, p, args, kwargs, node):
    """next(it) on the bytes iterator: the byte at the ghost position (0..255), or StopIteration at the end"""
    it = args[0]
    pos = Val.i(p.getf(it.t, "pos"))
    ok, bad = ex.fork(p, pos < NBYTES)
    res = []
    if ok is not None:
        b = byte_at(pos)
        ok.pc += [b >= 0, b <= 255]
        ok.setf(it.t, "pos", mkint(pos + 1))
        res.append(("ok", ok, sv_int(b)))
    if bad is not None:
        e = bad.new_obj("StopIteration")
        bad.ghost["stop"] = True
        res.append(("raise", bad, SV(e, ty="StopIteration", site="iterator exhausted")))
    return res


def vi_setup(ex, p):
    it = sym_ref(p, "it", "byteiter")
    p.pc += [Val.is_intv(p.getf(it.t, "pos")), Val.i(p.getf(it.t, "pos")) >= 0, Val.i(p.getf(it.t, "pos")) <= NBYTES, NBYTES >= 0]
    p.env["it"] = it
    return dict(it=it)


def vi_inv():
    def qf(ctx):
        it = ctx.v("it")
        s0 = Val.i(ctx.H0.getf(it, "pos")) - 1          # the first byte of this number was consumed before the loop
        pos = Val.i(ctx.H.getf(it, "pos"))
        return And(it == ctx.v0("it"), pos - 1 >= s0, pos <= NBYTES, Val.is_intv(ctx.v("val")), Val.is_intv(ctx.v("b")),
                   Val.i(ctx.v("b")) == byte_at(pos - 1), Val.i(ctx.v("val")) == V(s0, pos - 1), Val.i(ctx.v("val")) >= 0,
                   Val.i(ctx.v("b")) >= 0, Val.i(ctx.v("b")) <= 255)
    def defs(ctx):
        it = ctx.v("it")
        s0 = Val.i(ctx.H0.getf(it, "pos")) - 1
        pos = Val.i(ctx.H.getf(it, "pos"))
        # defining equation of the ghost value function at the next byte
        return V(s0, pos) == V(s0, pos - 1) * 64 + byte_at(pos) % 64
    return Inv("C01.varint.loop", qf=qf, defs=defs, fields=[("pos", "it")], var_types={"val": "int", "b": "int"})


def vi_post(ctx):
    it = ctx.args["it"].t
    s0 = Val.i(ctx.H0.getf(it, "pos"))
    e = Val.i(ctx.H.getf(it, "pos")) - 1
    return And(e >= s0, Val.i(ctx.result.t) == V(s0, e), (byte_at(e) / 64) % 2 == 0, V(s0, s0) == byte_at(s0) % 64)


def vi_raise_ok(ctx):
    # StopIteration escapes iff the iterator ends in the middle of a number
    return And(is_kind(ctx.exc.t, "StopIteration"), Val.i(ctx.H.getf(ctx.args["it"].t, "pos")) == NBYTES)


def vi_base(ex, n, p):
    import ast
    if isinstance(n, ast.While):
        it = p.env["it"].t
        s0 = Val.i(p.getf(it, "pos")) - 1
        p.pc.append(V(s0, s0) == byte_at(s0) % 64)       # base case of the definition


VARINT = Unit("C01.parse_varint", LL + "_parse_varint", vi_setup, post=[Clause("C01.varint.value_and_position", vi_post)],
              bindings=dict(STD_BINDINGS), methods={**STD_METHODS, ("byteiter", "__next__"): it_next},
              invariants={(LL + "_parse_varint", "while#1"): vi_inv()}, allowed_raise=vi_raise_ok, before_stmt=vi_base,
              cfg=dict(version=(3, 12, 1, "final", 0)),
              assumptions=["Python ints are mathematical integers; x & 63 == x mod 64, x & 64 tests bit 6, x << 6 == 64*x, and x | y == x + y when "
                           "x is a multiple of 64 and 0 <= y < 64 (true facts about bitwise operators on non-negative ints, instantiated)",
                           "ghost varint_value is introduced by its defining recursion"])

# --- the table decoder, modular over the varint contract
vval = Function("varint_at", IntSort(), IntSort())      # value of the varint starting at byte position p
vnext = Function("varint_next", IntSort(), IntSort())   # position after it
vcut = Function("varint_truncated", IntSort(), BoolSort())   # the bytes end in the middle of the varint starting at p


def contract_parse_varint(ex, p, args, kwargs, node):
    it = args[0]
    pos = Val.i(p.getf(it.t, "pos"))
    ok, bad = ex.fork(p, Not(vcut(pos)))
    res = []
    if ok is not None:
        ok.pc += [vnext(pos) > pos, vnext(pos) <= NBYTES, vval(pos) >= 0]
        ok.setf(it.t, "pos", mkint(vnext(pos)))
        res.append(("ok", ok, sv_int(vval(pos))))
    if bad is not None:
        e = bad.new_obj("StopIteration")
        res.append(("raise", bad, SV(e, ty="StopIteration", site="_parse_varint")))
    return res


def pt_setup(ex, p):
    code = sym_ref(p, "code", "code")
    p.env["code"] = code
    p.pc.append(NBYTES >= 0)
    return dict(code=code)


def m_iter_bytes(ex, p, args, kwargs, node):
    it = p.new_obj("byteiter", pos=mkint(0))
    return [("ok", p, SV(it, ty="byteiter"))]


def pt_inv():
    def ghost_havoc(ctx):
        ctx.p.yielded = []
    def qf(ctx):
        it = ctx.v("it")
        pos = Val.i(ctx.H.getf(it, "pos"))
        return And(it == ctx.v0("it"), Val.is_intv(ctx.H.getf(it, "pos")), pos >= 0, pos <= NBYTES)
    def step(ctx):
        g = ctx.p.ghost["head:while#1"]
        p0 = Val.i(g[0].getf(ctx.v("it"), "pos"))
        p1, p2, p3 = vnext(p0), vnext(vnext(p0)), vnext(vnext(vnext(p0)))
        ys = ctx.p.yielded
        if len(ys) != 1:
            return BoolVal(False)
        t = ys[0].t
        H = ctx.H
        s_, ln, tg, dl = vval(p0), vval(p1), vval(p2), vval(p3)
        return And(is_exact_kind(t, "tuple"), H.length(t) == 5, Val.i(H.at(t, 0)) == 2 * s_, Val.i(H.at(t, 1)) == 2 * s_ + 2 * ln - 2,
                   Val.i(H.at(t, 2)) == 2 * tg, Val.i(H.at(t, 3)) == dl / 2, H.at(t, 4) == mkbool(dl % 2 != 0),
                   Val.i(H.getf(ctx.v("it"), "pos")) == vnext(p3))
    return Inv("C01.table.loop", qf=qf, ghost_havoc=ghost_havoc, steps=[("C01.table.entry_decoding", step)], fields=[("pos", "it")])


TABLE = Unit("C01.parse_exception_table", LL + "_parse_exception_table", pt_setup, post=[],
             bindings=dict(STD_BINDINGS, _parse_varint=contract_parse_varint), methods={**STD_METHODS, ("bytes", "__iter__"): m_iter_bytes},
             invariants={(LL + "_parse_exception_table", "while#1"): pt_inv()}, field_types={"co_exceptiontable": "bytes"},
             allowed_raise=lambda ctx: BoolVal(False), cfg=dict(version=(3, 12, 1, "final", 0)),
             assumptions=["callee contract of _parse_varint (unit C01.parse_varint): value and next position are functions of the start "
                          "position over the immutable table bytes; StopIteration iff the bytes end mid-number",
                          "the encoding is CPython's Objects/exception_handling_notes.txt; that the compiler emits sorted disjoint entries is "
                          "checked on the stdlib corpus by legs/corpus.py, not proved"])
UNITS = [VARINT, TABLE]
