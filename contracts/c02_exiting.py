"""C02 / C01 sub-lemmas inside stackscope._lowlevel.currently_exiting_context (CPython 3.11+ branch): the two closures that the
   repair of finding F2 introduced.

   innermost_with_handler(at): follows the exception table's handler chain from bytecode offset `at` - at every hop the FIRST
   table entry covering the current offset - and returns (depth, target) of the first entry on that chain whose handler starts
   with PUSH_EXC_INFO; WITH_EXCEPT_START (a with statement's cleanup handler), None when the chain leaves the table first.

   What is NOT decided here: that the instruction sequence recognised before this point is an __exit__ call sequence, and that
   the compiler's exception table has the shape the comments of the real function describe (bounded legs g1 / corpus)."""
from .common import *  # noqa
from .inspect311 import covers
from pyvc.exec import num, is_num

LL = "stackscope._lowlevel."
IWH = LL + "currently_exiting_context.innermost_with_handler"

code_at = Function("co_code_byte", IntSort(), IntSort())          # the immutable co_code bytes
cov = Function("C02.first_covering_entry", IntSort(), IntSort())  # ghost: index of the FIRST table entry covering an offset, -1 if none
hop = Function("C02.handler_chain", IntSort(), IntSort())         # ghost: hop(0) = at, hop(k+1) = target of entry cov(hop(k))
nw = Function("C02.no_with_handler_before", IntSort(), BoolSort())  # ghost: every hop i < k is covered by an entry that is NOT a with handler
OPC = {n: z3.Int("opcode_" + n) for n in ("PUSH_EXC_INFO", "WITH_EXCEPT_START")}


def is_with_handler(H, T, j):
    t = Val.i(H.at(H.at(T, j), 2))
    return And(code_at(t) == OPC["PUSH_EXC_INFO"], code_at(t + 2) == OPC["WITH_EXCEPT_START"])


def table_setup(p, name="table"):
    T = sym_seq(p, name, "list")
    H0 = p.snap()
    def entry(pth, j):
        e = H0.raw(T.t, j)
        return Implies(And(j >= H0.lo_(T.t), j < H0.hi_(T.t)),
                       And(is_exact_kind(e, "tuple"), H0.length(e) == 5, H0.lo_(e) == 0, Val.a(e) >= 0,
                           *[Val.is_intv(H0.at(e, i)) for i in range(4)]))
    p.add_schema(T.t, entry)
    p.pc.append(H0.lo_(T.t) == 0)
    return T, H0


def iwh_setup(ex, p):
    T, H0 = table_setup(p)
    at = sym_int(p, "at")
    p.env.update(table=T, at=at, code=SV(fresh("co_code"), ty="codebytes"), op=SV(fresh("opmap"), ty="opmap"))
    def m_code_getitem(ex_, p_, args, kw, node):
        return [("ok", p_, sv_int(code_at(Val.i(args[1].t))))]
    def m_op_getitem(ex_, p_, args, kw, node):
        n = args[1].get("pyconst")
        if n not in OPC:
            raise Unsupported(f"dis.opmap key {n!r}")
        return [("ok", p_, sv_int(OPC[n]))]
    ex.unit.methods[("codebytes", "__getitem__")] = m_code_getitem
    ex.unit.methods[("opmap", "__getitem__")] = m_op_getitem
    p.pc += [hop(0) == Val.i(at.t), nw(0)]
    ex.unit_args = dict(T=T, H0=H0, at0=at)
    return ex.unit_args


def cov_def(ctx_or_p, ex, a):
    """defining instance of the ghost `first covering entry` at offset a: -1 and nothing covers, or a covering index with no
       covering entry before it"""
    T, H0 = ex.unit_args["T"].t, ex.unit_args["H0"]
    c = cov(a)
    ctx_or_p.add_schema(T, lambda pth, j: And(Implies(And(c == -1, j >= 0, j < H0.length(T)), Not(covers(H0, T, j, a))),
                                             Implies(And(j >= 0, j < c), Not(covers(H0, T, j, a)))))
    return Or(c == -1, And(c >= 0, c < H0.length(T), covers(H0, T, c, a)))


def iwh_outer_inv():
    def qf(ctx):
        return And(ctx.v("table") == ctx.v0("table"), Val.is_intv(ctx.v("at")), Val.i(ctx.v("at")) == hop(ctx.k), nw(ctx.k))
    def defs(ctx):
        T, H0 = ctx.ex.unit_args["T"].t, ctx.ex.unit_args["H0"]
        a = hop(ctx.k)
        c = cov(a)
        d = cov_def(ctx.p, ctx.ex, a)
        ctx.p.read(T, c, H0)
        return And(d, hop(ctx.k + 1) == Val.i(H0.at(H0.at(T, c), 2)),
                   nw(ctx.k + 1) == And(nw(ctx.k), c >= 0, Not(is_with_handler(H0, T, c))))
    return Inv("C02.handler_chain.hops", qf=qf, defs=defs, header="range(len(table) + 1)", var_types={"at": "int"})


def iwh_scan_inv():
    def none_before(ctx, pth, j):
        T, H0 = ctx.ex.unit_args["T"].t, ctx.ex.unit_args["H0"]
        a = Val.i(ctx.v("at"))
        pth.read(T, j, H0)
        return Implies(And(j >= 0, j < ctx.k), Not(covers(H0, T, j, a)))
    return Inv("C02.handler_chain.first_covering_entry_scan", qf=lambda ctx: And(ctx.v("at") == ctx.v0("at"), ctx.v("table") == ctx.v0("table")),
               header="in table", foralls=[("table", none_before)])


def iwh_before_stmt(ex, n, p):
    # instantiate the index-quantified facts in force (definition of first_covering_entry, scan invariant) at the ghost index
    if "at" in p.env and hasattr(ex, "unit_args"):
        p.read(ex.unit_args["T"].t, cov(Val.i(p.env["at"].t)), ex.unit_args["H0"])


def iwh_post(ctx):
    T, H0 = ctx.ex.unit_args["T"].t, ctx.ex.unit_args["H0"]
    k = ctx.p.ghost.get("exit_k:for#1")
    if k is None:
        return BoolVal(False)
    a = hop(k)
    c = cov(a)
    ctx.p.read(T, c, H0)
    r = ctx.result.t
    n = H0.length(T)
    e = H0.at(T, c)
    none_case = And(nw(k), Or(c == -1, k == n + 1))
    pair_case = And(is_exact_kind(r, "tuple"), ctx.H.length(r) == 2, nw(k), c >= 0, c < n, is_with_handler(H0, T, c),
                    ctx.H.at(r, 0) == H0.at(e, 3), ctx.H.at(r, 1) == H0.at(e, 2))
    return If(Val.is_none(r), none_case, pair_case)


IWH_UNIT = Unit("C02.innermost_with_handler", IWH, iwh_setup,
                post=[Clause("C02.handler_chain.result_is_first_with_handler_on_the_chain", iwh_post)],
                bindings=dict(STD_BINDINGS), methods=dict(STD_METHODS),
                invariants={(IWH, "for#1"): iwh_outer_inv(), (IWH, "for#2"): iwh_scan_inv()},
                allowed_raise=lambda ctx: BoolVal(False), cfg=dict(version=(3, 12, 1, "final", 0)), before_stmt=iwh_before_stmt,
                assumptions=["closure variables: `table` is the decoded exception table (5-tuples of ints, unit C01.parse_exception_table), `code` the "
                             "immutable co_code bytes (indexing in range: offsets come from the table of the same code object - not checked), `op` = dis.opmap",
                             "ghosts first_covering_entry / handler_chain / no_with_handler_before are introduced by their defining equations",
                             "that a handler starting with PUSH_EXC_INFO; WITH_EXCEPT_START is a with statement's cleanup handler is compiler "
                             "knowledge (bounded legs g1 / corpus)"])

UNITS = [IWH_UNIT]


# ------------------------------------------------------------------------------------------------ predecessors
# predecessors(of): the control-flow predecessors of bytecode offset `of` = every instruction that falls through to `of`
# (the next instruction, inline CACHE entries skipped, sits at `of`, and the instruction is not one that never falls through)
# or that is a jump whose target is `of`; in instruction order, nothing else, nothing twice.
PRED = LL + "currently_exiting_context.predecessors"
register_class("Instruction")
skip = Function("C02.skip_cache_entries", IntSort(), IntSort())       # ghost: first offset x, x+2, ... whose byte is not CACHE
never_falls_through = Function("C02.in_no_fallthrough", Val, BoolSort())   # membership in the closure's no_fallthrough set
is_jump = Function("C02.in_hasjrel_or_hasjabs", IntSort(), BoolSort())     # membership in dis.hasjrel + dis.hasjabs
cnt = Function("C02.predecessors_among_first", IntSort(), IntSort())  # ghost: number of predecessors among the first k instructions
src = Function("C02.predecessor_source_index", IntSort(), IntSort())  # ghost: instruction index of the j-th predecessor
OPC["CACHE"] = z3.Int("opcode_CACHE")


def insn_at(H, I, i):
    return H.at(I, i)


def is_pred(H, I, i, of):
    x = insn_at(H, I, i)
    nxt = insn_at(H, I, i + 1)
    n = H.length(I)
    falls = And(Val.i(H.getf(x, "offset")) < of, i + 1 < n, skip(Val.i(H.getf(nxt, "offset"))) == of)
    av = H.getf(x, "argval")
    # Python's `argval == of` for an int `of`: numeric equality on numbers, False on None, the type's own __eq__ otherwise
    same = If(is_num(av), num(av) == of, If(Val.is_none(av), False, py_eq(av, mkint(of))))
    jumps = And(is_jump(Val.i(H.getf(x, "opcode"))), same)
    return Or(And(falls, Not(never_falls_through(H.getf(x, "opname")))), jumps)


def pred_setup(ex, p):
    # anchors: the contract's spec predicates are tied to these two membership tests; if the code states them differently (a
    # harmless rewrite, or a real change) the unit is UNDECIDED, not refuted - the bounded legs decide then
    import ast as _ast
    from pyvc import source as _source
    txt = _ast.unparse(_source.get_func(PRED).node)
    for anchor in ("insn.opname not in no_fallthrough", "insn.opcode in dis.hasjrel + dis.hasjabs"):
        if anchor not in txt:
            raise KeyError(f"contract anchor lost: predecessors no longer tests `{anchor}`")
    I = sym_seq(p, "insns", "list")
    H0 = p.snap()
    def entry(pth, j):
        e = H0.raw(I.t, j)
        return Implies(And(j >= H0.lo_(I.t), j < H0.hi_(I.t)),
                       And(is_kind(e, "Instruction"), Val.a(e) >= 0, Val.is_intv(H0.getf(e, "offset")), Val.is_intv(H0.getf(e, "opcode")),
                           is_exact_kind(H0.getf(e, "opname"), "str"),
                           # dis argval of a jump is its int target; other instructions carry ints, strings, None, constants
                           input_ok(H0.getf(e, "argval"))))
    p.add_schema(I.t, entry)
    p.pc.append(H0.lo_(I.t) == 0)
    of = sym_int(p, "of")
    p.env.update(insns=I, of=of, code=SV(fresh("co_code"), ty="codebytes"), op=SV(fresh("opmap"), ty="opmap"),
                 no_fallthrough=SV(fresh("no_fallthrough"), ty="opnameset"))
    def m_code_getitem(ex_, p_, args, kw, node):
        return [("ok", p_, sv_int(code_at(Val.i(args[1].t))))]
    def m_op_getitem(ex_, p_, args, kw, node):
        n = args[1].get("pyconst")
        if n not in OPC:
            raise Unsupported(f"dis.opmap key {n!r}")
        return [("ok", p_, sv_int(OPC[n]))]
    def m_nf_contains(ex_, p_, container, item):
        return never_falls_through(item.t)
    def m_oplist_binop(ex_, p_, args, kw, node):
        if kw["op"] != "Add" or args[1].get("ty") != "oplist":
            raise Unsupported("operation on dis.hasjrel / dis.hasjabs other than their concatenation")
        return [("ok", p_, SV(fresh("hasj"), ty="oplist", both=True))]
    def m_oplist_contains(ex_, p_, container, item):
        if not container.get("both"):
            raise Unsupported("membership in only one of dis.hasjrel / dis.hasjabs")
        return is_jump(Val.i(item.t))
    ex.unit.methods.update({("codebytes", "__getitem__"): m_code_getitem, ("opmap", "__getitem__"): m_op_getitem,
                            ("opnameset", "__contains__"): m_nf_contains, ("oplist", "__binop__"): m_oplist_binop,
                            ("oplist", "__contains__"): m_oplist_contains})
    ex.unit.bindings["dis.hasjrel"] = SV(fresh("hasjrel"), ty="oplist")
    ex.unit.bindings["dis.hasjabs"] = SV(fresh("hasjabs"), ty="oplist")
    p.pc.append(cnt(0) == 0)
    ex.unit_args = dict(I=I, H0=H0, of=of)
    return ex.unit_args


def pred_inv():
    def qf(ctx):
        r = ctx.v("ret")
        return And(ctx.v("insns") == ctx.v0("insns"), ctx.v("of") == ctx.v0("of"), r == ctx.v0("ret"), is_exact_kind(r, "list"), Val.a(r) < 0,
                   ctx.H.lo_(r) == 0, ctx.H.length(r) == cnt(ctx.k))
    def defs(ctx):
        I, H0 = ctx.ex.unit_args["I"].t, ctx.ex.unit_args["H0"]
        of = Val.i(ctx.ex.unit_args["of"].t)
        ctx.p.read(I, ctx.k, H0)
        ctx.p.read(I, ctx.k + 1, H0)
        P = is_pred(H0, I, ctx.k, of)
        return And(cnt(ctx.k + 1) == cnt(ctx.k) + If(P, 1, 0), Implies(P, src(cnt(ctx.k)) == ctx.k), cnt(ctx.k) >= 0)
    def elems(ctx, pth, j):
        I, H0 = ctx.ex.unit_args["I"].t, ctx.ex.unit_args["H0"]
        of = Val.i(ctx.ex.unit_args["of"].t)
        r = ctx.v("ret")
        e = pth.read(r, j, ctx.H)
        pth.read(r, j - 1, ctx.H)
        pth.read(I, src(j), H0)
        pth.read(I, src(j) + 1, H0)
        return Implies(And(j >= 0, j < ctx.H.length(r)),
                       And(src(j) >= 0, src(j) < ctx.k, e == H0.at(I, src(j)), is_pred(H0, I, src(j), of),
                           Implies(j >= 1, src(j - 1) < src(j))))
    return Inv("C02.predecessors.scan", qf=qf, defs=defs, foralls=[("ret", elems)], conts=["ret"], header="enumerate(insns)")


def pred_skip_inv():
    def qf(ctx):
        n0, n1 = ctx.v0("nxt"), ctx.v("nxt")
        return And(Val.is_none(n1) == Val.is_none(n0), Implies(Not(Val.is_none(n1)), And(Val.is_intv(n1), Val.is_intv(n0), skip(Val.i(n1)) == skip(Val.i(n0)))),
                   ctx.v("ret") == ctx.v0("ret"), ctx.v("insn") == ctx.v0("insn"), ctx.v("of") == ctx.v0("of"), ctx.v("insns") == ctx.v0("insns"))
    def defs(ctx):
        x = Val.i(ctx.v("nxt"))
        return skip(x) == If(code_at(x) == OPC["CACHE"], skip(x + 2), x)
    return Inv("C02.predecessors.skip_cache", qf=qf, defs=defs, header="CACHE")


def pred_post(ctx):
    I, H0 = ctx.ex.unit_args["I"].t, ctx.ex.unit_args["H0"]
    of = Val.i(ctx.ex.unit_args["of"].t)
    r = ctx.result.t
    j = fresh_int("jq")
    e = ctx.p.read(r, j, ctx.H)
    ctx.p.read(r, j - 1, ctx.H)
    n = H0.length(I)
    return And(is_exact_kind(r, "list"), Val.a(r) < 0, ctx.H.length(r) == cnt(n),
               Implies(And(j >= 0, j < ctx.H.length(r)),
                       And(src(j) >= 0, src(j) < n, e == H0.at(I, src(j)), is_pred(H0, I, src(j), of), Implies(j >= 1, src(j - 1) < src(j)))))


PRED_UNIT = Unit("C02.predecessors", PRED, pred_setup,
                 post=[Clause("C02.predecessors.exactly_the_fallthrough_and_jump_predecessors_in_order", pred_post)],
                 bindings=dict(STD_BINDINGS), methods=dict(STD_METHODS),
                 invariants={(PRED, "for#1"): pred_inv(), (PRED, "while#1"): pred_skip_inv()},
                 field_types={"opname": "str", "offset": "int", "opcode": "int"},
                 allowed_raise=lambda ctx: BoolVal(False), cfg=dict(version=(3, 12, 1, "final", 0)),
                 assumptions=["closure variables: `insns` = list(dis.get_instructions(code)) (Instruction objects: int offset / opcode, str opname), `code` the "
                              "co_code bytes (indexing in range - not checked), `no_fallthrough` a set of opnames, dis.hasjrel / dis.hasjabs lists of opcodes; "
                              "membership tests are pure",
                              "`insn.argval == of` is value equality of ints for jump instructions (dis gives jumps an int argval)",
                              "ghosts skip_cache_entries / predecessors_among_first / predecessor_source_index are introduced by their defining equations",
                              "WHICH opnames never fall through and that dis' jump targets are right is interpreter knowledge (bounded legs g1 / corpus)"])

UNITS = [IWH_UNIT, PRED_UNIT]


# ------------------------------------------------------------------------------------------------ backtrack_over_load_none
# backtrack_over_load_none(): `offs` (a variable of the enclosing function) points at an instruction; if that is not LOAD_CONST the
# answer is False and offs stays; otherwise offs moves back over the instruction and over EVERY directly preceding EXTENDED_ARG
# (stopping at offset 0), the operand is assembled from the LOAD_CONST byte and the prefix bytes (byte j shifted by 8*j), and
# the answer is `co_consts[operand] is None`.
BLN = LL + "currently_exiting_context.backtrack_over_load_none"
shl = Function("C02.shift_left", IntSort(), IntSort(), IntSort())     # x << n   (uninterpreted: the code's own operator, named)
bor = Function("C02.bit_or", IntSort(), IntSort(), IntSort())         # x | y
OPER = Function("C02.operand_after_prefixes", IntSort(), IntSort(), IntSort())   # ghost: (start offset, number of prefixes used) -> operand
for _n in ("LOAD_CONST", "EXTENDED_ARG"):
    OPC[_n] = z3.Int("opcode_" + _n)


def bln_setup(ex, p):
    offs = sym_int(p, "offs")
    frame = sym_ref(p, "frame", "frame")
    co = sym_ref(p, "code_object", "code")
    consts = sym_seq(p, "co_consts", "tuple")
    p.setf(frame.t, "f_code", co.t)
    p.setf(co.t, "co_consts", consts.t)
    p.pc += [Val.i(offs.t) >= 0, p.lo(consts.t) == 0]
    p.env.update(offs=offs, frame=frame, code=SV(fresh("co_code"), ty="codebytes"), op=SV(fresh("opmap"), ty="opmap"))
    def m_code_getitem(ex_, p_, args, kw, node):
        return [("ok", p_, SV(mkint(code_at(Val.i(args[1].t))), ty="codeint"))]
    def m_op_getitem(ex_, p_, args, kw, node):
        n = args[1].get("pyconst")
        if n not in OPC:
            raise Unsupported(f"dis.opmap key {n!r}")
        return [("ok", p_, sv_int(OPC[n]))]
    def m_codeint_binop(ex_, p_, args, kw, node):
        x, y = Val.i(args[0].t), Val.i(args[1].t)
        if kw["op"] == "LShift":
            return [("ok", p_, SV(mkint(shl(x, y)), ty="codeint"))]
        if kw["op"] == "BitOr":
            return [("ok", p_, SV(mkint(bor(x, y)), ty="codeint"))]
        raise Unsupported(f"operator {kw['op']} on a code byte")
    ex.unit.methods.update({("codebytes", "__getitem__"): m_code_getitem, ("opmap", "__getitem__"): m_op_getitem,
                            ("codeint", "__binop__"): m_codeint_binop})
    o0 = Val.i(offs.t)
    p.pc.append(OPER(o0, 0) == code_at(o0 + 1))
    ex.unit_args = dict(offs0=offs, consts=consts, H0=p.snap())
    return ex.unit_args


def bln_inv():
    def j_of(ctx):
        return Val.i(ctx.v("shift")) / 8 - 1
    def qf(ctx):
        o0 = Val.i(ctx.ex.unit_args["offs0"].t)
        sh, offs, arg = Val.i(ctx.v("shift")), Val.i(ctx.v("offs")), Val.i(ctx.v("arg"))
        j = j_of(ctx)
        return And(Val.is_intv(ctx.v("shift")), Val.is_intv(ctx.v("offs")), Val.is_intv(ctx.v("arg")), sh >= 8, sh % 8 == 0,
                   offs == o0 - 2 - 2 * j, arg == OPER(o0, j), ctx.v("frame") == ctx.v0("frame"))
    def defs(ctx):
        o0 = Val.i(ctx.ex.unit_args["offs0"].t)
        j = j_of(ctx)
        # defining recursion of the ghost operand: prefix number j+1 sits at o0 - 2(j+1), its byte is shifted by 8(j+1)
        return OPER(o0, j + 1) == bor(OPER(o0, j), shl(code_at(o0 - 2 * (j + 1) + 1), 8 * (j + 1)))
    return Inv("C02.load_none.extended_arg_prefixes", qf=qf, defs=defs, header="EXTENDED_ARG", var_types={"shift": "int", "offs": "int", "arg": "codeint"})


def bln_post(ctx):
    o0 = Val.i(ctx.ex.unit_args["offs0"].t)
    consts, H0 = ctx.ex.unit_args["consts"].t, ctx.ex.unit_args["H0"]
    offs = Val.i(ctx.env["offs"].t)
    r = ctx.result.t
    not_load = code_at(o0) != OPC["LOAD_CONST"]
    j = (o0 - 2 - offs) / 2
    operand = OPER(o0, j)
    idx = If(operand >= 0, operand, H0.length(consts) + operand)       # Python's co_consts[operand]
    ctx.p.read(consts, idx, H0)
    return And(Implies(not_load, And(r == mkbool(False), offs == o0)), Implies(Not(not_load),
              And(offs <= o0 - 2, (o0 - 2 - offs) % 2 == 0,
                  # stopped at the first instruction that is not an EXTENDED_ARG prefix (or at offset 0)
                  Or(offs == 0, code_at(offs) != OPC["EXTENDED_ARG"]),
                  r == mkbool(Val.is_none(H0.at(consts, idx))))))


BLN_UNIT = Unit("C02.backtrack_over_load_none", BLN, bln_setup,
                post=[Clause("C02.load_none.operand_from_prefix_bytes_and_none_test", bln_post)],
                bindings=dict(STD_BINDINGS), methods=dict(STD_METHODS),
                invariants={(BLN, "while#1"): bln_inv()}, field_types={"f_code": "code", "co_consts": "tuple"},
                allowed_raise=lambda ctx: is_kind(ctx.exc.t, "IndexError"), cfg=dict(version=(3, 12, 1, "final", 0)),
                assumptions=["closure variables: `offs` (an int >= 0, written through `nonlocal`), `code` = co_code bytes (indexing in range - not checked), "
                             "`frame.f_code.co_consts` a tuple; IndexError when the assembled operand is out of range is allowed (cannot happen for compiler output)",
                             "`<<` and `|` on code bytes are named, not interpreted: the clause says the operand is assembled by exactly these operators from "
                             "exactly these bytes (ghost operand_after_prefixes introduced by its defining recursion); that every visited prefix IS an "
                             "EXTENDED_ARG follows from the loop test and is not restated as a quantified clause"])

UNITS = [IWH_UNIT, PRED_UNIT, BLN_UNIT]


# ------------------------------------------------------------------------------------------------ inspect_frame (dispatcher)
# stackscope._lowlevel.inspect_frame picks the frame reader for the running interpreter on first use: CPython < 3.11 -> the
# block-stack reader (_lowlevel_cpython_310), CPython >= 3.11 -> the exception-table reader (_lowlevel_cpython_311), and hands the
# frame to it unchanged, returning its result.  (Both readers are under contract: contracts/inspect310.py, inspect311.py.)
DISP = LL + "inspect_frame"


def disp_setup(ex, p):
    frame = sym_ref(p, "frame", "frame")
    p.env["frame"] = frame
    p.ghost["imports"] = ()
    def reader(ex_, p_, args, kw, node):
        r = fresh("details")
        p_.ghost["reader_calls"] = p_.ghost.get("reader_calls", ()) + ((p_.ghost.get("imports", ()), tuple(a.t for a in args), r),)
        return [("ok", p_, SV(r))]
    ex.unit.bindings["inspect_frame"] = reader
    ex.unit_args = dict(frame=frame)
    return ex.unit_args


def disp_before_stmt(ex, n, p):
    import ast as _ast
    if isinstance(n, _ast.ImportFrom):
        p.ghost["imports"] = p.ghost.get("imports", ()) + ((n.module, n.level, tuple(a.name for a in n.names)),)


def disp_post(expected_module):
    def post(ctx):
        calls = ctx.p.ghost.get("reader_calls", ())
        if len(calls) != 1:
            return BoolVal(False)
        imports, args, r = calls[0]
        return And(BoolVal(imports == ((expected_module, 1, ("inspect_frame",)),)), BoolVal(len(args) == 1),
                   args[0] == ctx.args["frame"].t, ctx.result.t == r)
    return post


def disp_unit(tag, version, module):
    return Unit("C01.inspect_frame_dispatch" + tag, DISP, disp_setup,
                post=[Clause("C01.dispatch.reader_of_the_running_interpreter_gets_the_frame" + tag, disp_post(module))],
                bindings=dict(STD_BINDINGS), methods=dict(STD_METHODS), before_stmt=disp_before_stmt,
                allowed_raise=lambda ctx: BoolVal(False), cfg=dict(version=version, impl="cpython"),
                assumptions=["`from ._lowlevel_cpython_3xx import inspect_frame` binds the name to that module's function (import system); "
                             "the rebinding of the module global is what makes later calls go straight to the reader"])


DISP_UNITS = [disp_unit("", (3, 12, 1, "final", 0), "_lowlevel_cpython_311"), disp_unit("@py311", (3, 11, 7, "final", 0), "_lowlevel_cpython_311"),
              disp_unit("@py310", (3, 10, 13, "final", 0), "_lowlevel_cpython_310"), disp_unit("@py39", (3, 9, 18, "final", 0), "_lowlevel_cpython_310")]
UNITS = [IWH_UNIT, PRED_UNIT, BLN_UNIT] + DISP_UNITS
