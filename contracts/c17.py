"""C17 — library glue is installed exactly once, in time, module-provided beats built-in.
   Units: add_glue_as_needed (scan loop with invariant, fast path), builtin_glue.decorate."""
from .common import *  # noqa
import ast

G = "stackscope._glue."
AG = G + "add_glue_as_needed"
for c_ in ("module",):
    register_class(c_)

scanned = Function("glue_scanned", Val, BoolSort())        # ghost: module name was visited by the last full scan
name_idx = Function("snapshot_index", Val, IntSort())      # ghost: position of a module name in the snapshot tuple


GLUE_KEY = []


def ag_setup(ex, p):
    SM = sym_ref(p, "sys_modules", "dict")
    pending = sym_ref(p, "builtin_glue_pending", "dict")
    cache = sym_seq(p, "_sys_modules_len_cache", "list")
    p.pc += [p.length(cache.t) == 1, Val.is_intv(p.elem(cache.t, 0)), p.dlen(SM.t) >= 0, p.dlen(pending.t) >= 0, SM.t != pending.t]
    lock = SV(z3.Const("glue_lock", Val), ty="lock", name="glue_lock")
    p.env["_sys_modules_len_cache"] = cache
    ex.unit.bindings.update({"sys.modules": SM, "builtin_glue_pending": pending, "glue_lock": lock})
    GLUE_KEY[:] = [ex.const(p, "_stackscope_install_glue_").t]
    H0 = p.snap()
    # well-formed inputs: values of sys.modules are module objects whose __dict__ is a dict; stored glue entries are callables
    def sm_entry(pth, k):
        m = H0.dget(SM.t, k)
        d = H0.getf(m, "__dict__")
        return Implies(H0.dhas(SM.t, k), And(Val.is_ref(m), Val.a(m) >= 0, Val.a(k) >= 0,
                                             Or(Val.is_none(d), And(is_exact_kind(d, "dict"), Val.a(d) >= 0, d != SM.t, d != pending.t)),
                                             # a module-provided glue entry, if present, is a callable object (not None)
                                             Implies(And(Val.is_ref(d), H0.dhas(d, GLUE_KEY[0])), And(Val.is_ref(H0.dget(d, GLUE_KEY[0])), Val.a(H0.dget(d, GLUE_KEY[0])) >= 0))))
    p.add_dschema(SM.t, sm_entry)
    p.add_dschema(pending.t, lambda pth, k: Implies(H0.dhas(pending.t, k), And(Val.is_ref(H0.dget(pending.t, k)), Val.a(H0.dget(pending.t, k)) >= 0)))
    p.ghost["calls"] = ()
    p.ghost["warns"] = 0
    return dict(SM=SM, pending=pending, cache=cache)


def tuple_of_modules(ex, p, args, kwargs, node):
    """tuple(sys.modules): a snapshot of the keys (dict iteration): every element is a present key, the keys are pairwise
       distinct, and the length is len(sys.modules)"""
    SM = args[0]
    H = p.snap()
    n = H.dlen(SM.t)
    arr = fresh("names_el", AV)
    names = p.new_seq("tuple", length=n, arr=arr)
    p.add_schema(names, lambda pth, j: Implies(And(j >= 0, j < n), And(H.dhas(SM.t, Select(arr, j)), Val.is_ref(Select(arr, j)),
                                                                        Val.a(Select(arr, j)) >= 0, name_idx(Select(arr, j)) == j)))
    p.ghost["snapshot"] = (names, p.snap())
    return [("ok", p, SV(names, ty="tuple"))]


def glue_call(ex, p, f, args, kwargs, node):
    """a glue function: arbitrary effect on stackscope's registries, may raise any Exception; it does not touch
       sys.modules, the pending table or the length cache"""
    p.ghost["calls"] = p.ghost["calls"] + ((f.t, p.snap(), dict(p.env)),)
    res = oracle("glue_fn", record=False)(ex, p, [], {}, node)
    sm = ex.unit.bindings["sys.modules"]
    for st, p1, v in res:
        # glue functions typically import modules: sys.modules may have changed arbitrarily when they return
        ex.write_barrier(p1, ("dict", sm.t), node)
        p1.havoc_dict(sm.t)
    return res


def ext_warn(ex, p, args, kwargs, node):
    p.ghost["warns"] = p.ghost.get("warns", 0) + 1
    return [("ok", p, NONE_SV)]


def ext_format_exception_only(ex, p, args, kwargs, node):
    return [("ok", p, SV(p.new_seq("list", length=fresh_int("n"), arr=fresh("fe", AV)), ty="list"))]


def scan_inv():
    def ghost_havoc(ctx):
        ctx.p.ghost["calls"] = ()
        ctx.p.ghost["warns"] = 0
        ctx.p.ghost["raised"] = ()

    def qf(ctx):
        cache, names = ctx.ex.unit_args["cache"].t, ctx.v("module_names")
        H, H0 = ctx.H, ctx.H0
        # the cache is not written inside the loop; the snapshot is not modified
        SM = ctx.ex.unit_args["SM"].t
        a = Val.a(SM)
        # the cache is not written inside the loop; the snapshot and sys.modules itself are not modified by the scan
        # ... and until the scan is complete it still holds the value it had on entry (it is written only AFTER the loop,
        # so a concurrent extraction cannot take the fast path while glue is still being installed)
        return And(Select(H.el, Val.a(cache)) == Select(H0.el, Val.a(cache)), names == ctx.v0("module_names"), H.dlen(SM) >= 0,
                   H.at(cache, 0) == ctx.ex.unit_args["cache0"])

    def step_iteration(ctx):
        """one module name: the built-in entry is popped BEFORE any call, the module's function is popped from the module
           dict, at most one of the two is called (the module's preferred), an Exception becomes exactly one warning"""
        p = ctx.p
        g = p.ghost.get("head:for#1")
        Hh, envh = g
        pending, SM = ctx.ex.unit_args["pending"].t, ctx.ex.unit_args["SM"].t
        name = ctx.v("module_name")
        calls = p.ghost["calls"]
        bfn = If(Hh.dhas(pending, name), Hh.dget(pending, name), NONE)
        mod = Hh.dget(SM, name)
        md = Hh.getf(mod, "__dict__")
        key = ctx.ex.const(p, "_stackscope_install_glue_").t
        has_mod_fn = And(Hh.dhas(SM, name), Val.is_ref(mod), Val.is_ref(md), Hh.dhas(md, key))
        mfn = If(has_mod_fn, Hh.dget(md, key), NONE)
        conj = [Not(ctx.H.dhas(pending, name)),                                   # popped from the single place that held it
                Implies(has_mod_fn, Not(ctx.H.dhas(md, key))),
                BoolVal(len(calls) <= 1),
                BoolVal(p.ghost.get("warns", 0) == len(p.ghost.get("raised", ())))]   # every Exception -> exactly one warning
        if len(calls) == 1:
            f, Hc, envc = calls[0]
            conj += [If(mfn != NONE, f == mfn, And(bfn != NONE, f == bfn)),
                     Not(Hc.dhas(pending, name)), Implies(has_mod_fn, Not(Hc.dhas(md, key)))]     # pop-before-call
        else:
            conj += [mfn == NONE, bfn == NONE]
        return And(conj)
    return Inv("C17.scan", qf=qf, ghost_havoc=ghost_havoc, steps=[("C17.scan.iteration", step_iteration)],
               dicts=[lambda p_: p_.ghost["$pending"], ], fields=[])


def ag_post(ctx):
    cache, SM = ctx.args["cache"].t, ctx.args["SM"].t
    H0, H = ctx.H0, ctx.H
    fast = H0.dlen(SM) == Val.i(H0.at(cache, 0))
    snap = ctx.p.ghost.get("snapshot")
    if snap is None:
        # fast path: nothing is touched, no glue runs
        return And(fast, BoolVal(len(ctx.p.ghost["calls"]) == 0), H.at(cache, 0) == H0.at(cache, 0),
                   BoolVal(not ctx.p.ghost.get("locks_log")))
    names, Hs = snap
    # full scan under the lock; the cache gets the length of the SCANNED snapshot, after the loop
    return And(Not(fast), H.at(cache, 0) == mkint(Hs.length(names)), Hs.length(names) == H0.dlen(SM),
               BoolVal(ctx.p.ghost.get("exit_k:for#1") is not None), ctx.p.ghost["exit_k:for#1"] == Hs.length(names))


def ag_fast_path_sound(ctx):
    """KNOWN FINDING F4: equal cardinality does not give set inclusion"""
    if ctx.p.ghost.get("snapshot") is not None:
        return None
    SM = ctx.args["SM"].t
    k = fresh("some_module")
    return Implies(ctx.H0.dhas(SM, k), scanned(k))


def lock_enter_logged(ex, p, args, kwargs, node):
    p.ghost["locks_log"] = p.ghost.get("locks_log", ()) + ("acquire",)
    p.ghost["lock_held"] = True
    return [("ok", p, NONE_SV)]


def lock_exit_logged(ex, p, args, kwargs, node):
    p.ghost["lock_held"] = False
    return [("ok", p, sv_bool(False))]


def module_wf(ex, p):
    """type invariant of the environment, instantiated for the module currently looked at: a module's __dict__ is a dict of
       its own (never sys.modules or the pending table); a glue entry found there is a callable object"""
    SM, pending = ex.unit.bindings["sys.modules"].t, ex.unit.bindings["builtin_glue_pending"].t
    name = p.env["module_name"].t
    m = p.h.dget(SM, name)
    d = p.h.getf(m, "__dict__")
    key = GLUE_KEY[0]
    p.pc.append(Implies(p.h.dhas(SM, name), And(
        Or(Not(Val.is_ref(m)), Val.a(m) >= 0),
        Or(Val.is_none(d), And(is_exact_kind(d, "dict"), Val.a(d) >= 0, d != SM, d != pending)),
        Implies(And(Val.is_ref(d), p.h.dhas(d, key)), And(Val.is_ref(p.h.dget(d, key)), Val.a(p.h.dget(d, key)) >= 0)))))


def before_stmt(ex, n, p):
    if isinstance(n, ast.Assign) and ast.unparse(n.targets[0]) == "builtin_fn" and "module_name" in p.env:
        module_wf(ex, p)
    # every write to the pending table / module dicts / cache happens while glue_lock is held
    if isinstance(n, ast.For) and not p.ghost.get("lock_held"):
        ex.oblig("C17.scan_under_lock", "clause", p, BoolVal(False))
    if isinstance(n, ast.For):
        ex.oblig("C17.scan_under_lock", "clause", p, BoolVal(bool(p.ghost.get("lock_held"))))


class AGUnit(Unit):
    pass


def mk_ag_unit():
    def setup(ex, p):
        a = ag_setup(ex, p)
        a["cache0"] = p.elem(a["cache"].t, 0)
        ex.unit_args = a
        p.ghost["$pending"] = a["pending"].t
        return a
    inv = scan_inv()
    # the loop mutates: the pending table, and the __dict__ of whichever module is visited (any dict other than sys.modules)
    inv.dicts = [None]
    return Unit("C17.add_glue_as_needed", AG, setup,
                post=[Clause("C17.cache_is_snapshot_length_written_after_scan", ag_post),
                      Clause("C17.fast_path_sound", ag_fast_path_sound)],
                bindings=dict(STD_BINDINGS, **{"warnings.warn": ext_warn, "traceback.format_exception_only": ext_format_exception_only,
                                               "RuntimeWarning": cls("Exception")}),
                methods={("lock", "__enter__"): lock_enter_logged, ("lock", "__exit__"): lock_exit_logged,
                         ("dict", "__tolist__"): lambda ex, p, args, kw, node: tuple_of_modules(ex, p, args, kw, node)},
                invariants={(AG, "for#1"): inv}, opaque_call=glue_call, before_stmt=before_stmt,
                field_types={"__dict__": "dict"}, options=dict(iter_any_seq=True),
                assumptions=["warnings.warn returns normally (no -W error)", "threading.Lock is a mutex",
                             "glue functions may change sys.modules arbitrarily (imports) but do not touch builtin_glue_pending, module glue entries of other modules or the length cache",
                             "module names are atoms (equality = identity); tuple(sys.modules) is a duplicate-free snapshot of the keys",
                             "schedules: a second thread either takes the fast path or blocks on glue_lock; argued in DESIGN.md, not explored"])


# ------------------------------------------------------------------------------------------------ builtin_glue.decorate
def deco_setup(ex, p):
    SM = sym_ref(p, "sys_modules", "dict")
    pending = sym_ref(p, "builtin_glue_pending", "dict")
    needs = sym_ref(p, "needs_module", "str")
    fn = sym_ref(p, "fn", "function")
    ex.unit.bindings.update({"sys.modules": SM, "builtin_glue_pending": pending})
    p.env.update(needs_module=needs, fn=fn)
    p.ghost["calls"] = ()
    return dict(SM=SM, pending=pending, needs=needs, fn=fn)


def deco_post(ctx):
    SM, pending, needs, fn = (ctx.args[k].t for k in ("SM", "pending", "needs", "fn"))
    sphinx = ctx.ex.const(ctx.p, "sphinx").t
    now = And(ctx.H0.dhas(SM, needs), Not(ctx.H0.dhas(SM, sphinx)))
    calls = ctx.p.ghost["calls"]
    called = BoolVal(len(calls) == 1 and calls[0][0].eq(fn))
    registered = And(ctx.H.dhas(pending, needs), ctx.H.dget(pending, needs) == fn)
    return And(ctx.result.t == fn, Not(ctx.H0.dhas(pending, needs)),
               If(now, And(called, Not(ctx.H.dhas(pending, needs))), And(BoolVal(len(calls) == 0), registered)))


DECO_UNIT = Unit("C17.builtin_glue.decorate", G + "builtin_glue.decorate", deco_setup,
                 post=[Clause("C17.decorate.run_now_xor_register", deco_post)],
                 bindings=dict(STD_BINDINGS), methods=dict(STD_METHODS), opaque_call=glue_call,
                 allowed_raise=lambda ctx: Or(BoolVal(bool(ctx.p.ghost.get("raised"))),
                                              And(is_kind(ctx.exc.t, "AssertionError"), ctx.H0.dhas(ctx.args["pending"].t, ctx.args["needs"].t))))

UNITS = [mk_ag_unit(), DECO_UNIT]
