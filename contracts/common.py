"""Shared prelude for sidecar contracts: symbolic inputs, externals catalogue entries, small model helpers."""
from __future__ import annotations
import z3
from z3 import And, Or, Not, Implies, If, IntVal, BoolVal, Function, BoolSort, IntSort, Select, Store
from pyvc.values import *  # noqa
from pyvc.state import SV, Path
from pyvc.exec import NONE_SV, sv_int, sv_bool, Unsupported
from pyvc.unit import Unit, Clause, run_unit
from pyvc.stmts import Inv

GENLIKE = ["coroutine", "generator", "async_generator"]
CONST_BASE = 10_000_000

weakrefable = Function("weakrefable", Val, BoolSort())


def genlike(v):
    return is_kind(v, GENLIKE)


def input_ok(v):
    """well-formedness of an input value: refs live at non-negative addresses below the constant pool"""
    return Implies(Val.is_ref(v), Val.a(v) >= 0)


def sym_any(p: Path, name, **st):
    v = z3.Const(name, Val)
    p.pc.append(input_ok(v))
    return SV(v, **st)


def sym_ref(p: Path, name, kindname=None, ty=None, **st):
    v = z3.Const(name, Val)
    p.pc += [Val.is_ref(v), Val.a(v) >= 0]
    if kindname is not None:
        p.pc.append(kind(Val.a(v)) == K(kindname))
    return SV(v, ty=ty or kindname, **st)


def sym_bool(p: Path, name):
    v = z3.Const(name, Val)
    p.pc.append(Val.is_boolv(v))
    return SV(v, ty="bool")


def sym_int(p: Path, name):
    v = z3.Const(name, Val)
    p.pc.append(Val.is_intv(v))
    return SV(v, ty="int")


def sym_seq(p: Path, name, kindname="list", **st):
    sv = sym_ref(p, name, kindname, **st)
    p.pc.append(p.length(sv.t) >= 0)
    return sv


def cls(name):
    return SV(z3.Const("cls_" + name, Val), cls=name)


# ---------------------------------------------------------------------------------------------------------------
# externals catalogue (DESIGN.md section 3.4): each entry is an ASSUMED contract of a library function
def ext_weakref_ref(ex, p, args, kwargs, node):
    """weakref.ref(o): raises TypeError iff type(o) is not weak-referenceable, nothing else; no other effect"""
    o = args[0]
    t, f = ex.fork(p, weakrefable(o.t))
    res = []
    if t is not None:
        res.append(("ok", t, SV(t.new_obj("weakref"), ty="weakref")))
    if f is not None:
        res.append(ex.raise_new(f, "TypeError", site="weakref.ref"))
    return res


def ext_deque(ex, p, args, kwargs, node):
    if args:
        raise Unsupported("deque(iterable)")
    return [("ok", p, SV(p.new_seq("deque", []), ty="deque"))]


def lock_enter(ex, p, args, kwargs, node):
    held = p.ghost.get("locks_held", ())
    p.ghost["locks_held"] = held + (args[0].get("name") or "lock",)
    return [("ok", p, NONE_SV)]


def lock_exit(ex, p, args, kwargs, node):
    held = p.ghost.get("locks_held", ())
    p.ghost["locks_held"] = held[:-1]
    return [("ok", p, sv_bool(False))]


STD_BINDINGS = {
    "weakref.ref": ext_weakref_ref,
    "collections.deque": ext_deque,
    "types.CoroutineType": cls("coroutine"), "types.GeneratorType": cls("generator"),
    "types.AsyncGeneratorType": cls("async_generator"), "types.FrameType": cls("frame"),
    "types.MethodType": cls("method"), "types.BuiltinMethodType": cls("builtin_method"), "types.FunctionType": cls("function"), "types.CodeType": cls("code"),
    "functools.partial": cls("partial"), "classmethod": cls("classmethod"), "staticmethod": cls("staticmethod"),
    "collections.abc.Sequence": cls("Sequence"),
    "Exception": cls("Exception"), "RuntimeError": cls("RuntimeError"), "TypeError": cls("TypeError"),
    "ValueError": cls("ValueError"), "KeyError": cls("KeyError"), "IndexError": cls("IndexError"),
    "StopIteration": cls("StopIteration"), "AssertionError": cls("AssertionError"),
    "AttributeError": cls("AttributeError"), "ExceptionGroup": cls("ExceptionGroup"),
}
STD_METHODS = {
    ("lock", "__enter__"): lock_enter,
    ("lock", "__exit__"): lock_exit,
}

STD_ASSUMPTIONS = [
    "pyvc (executor + encoding) is trusted; mitigated by mutation self-test, CPython differential and native legs",
    "z3 5.1 / cvc5 / z3 4.8 soundness",
    "Python semantics assumed: left-to-right evaluation; repr/str/f-string formatting total and side-effect free; "
    "isinstance/hasattr/getattr-with-default total; dataclass/deque/dict/list methods behave as documented",
    "attribute accesses are type-correct (the repo is mypy-clean): AttributeError is modelled only for non-object receivers",
    "partial correctness only: termination is not proved",
]


def oracle(name, havoc_fields=(), post=(), may_raise=True, ret_ty=None, record=True, havoc_arg=0):
    """A user hook / external callable: arbitrary result constrained by `post`, may raise any Exception,
       may modify the listed fields of its first argument (and nothing else)."""
    def model(ex, p, args, kwargs, node):
        argv = [a for a in args]
        for fld in havoc_fields:
            ex.write_barrier(p, ("field", fld, argv[havoc_arg].t), node)
            nv = p.havoc_field(argv[havoc_arg].t, fld)
            p.pc.append(input_ok_or_fresh(p, nv))
        ok = p.clone()
        r = fresh("ret_" + name)
        ok.pc.append(input_ok_or_fresh(ok, r))
        for c in post:
            ok.pc.append(c(ok, r, argv))
        rsv = SV(r, **({"ty": ret_ty} if ret_ty else {}))
        if record:
            ok.trace = ok.trace + [(name, tuple(a.t for a in argv if isinstance(a, SV)), ("ret", r))]
        res = [("ok", ok, rsv)]
        if may_raise:
            bad = p.clone()
            e = bad.new_obj(None)
            a = Val.a(e)
            # the raised object may be of ANY Exception subclass (BaseException-only ones are documented pass-throughs)
            bad.pc.append(Or([kind(a) == K(s_) for s_ in subkinds("Exception")]))
            if record:
                bad.trace = bad.trace + [(name, tuple(x.t for x in argv if isinstance(x, SV)), ("exc", e))]
            bad.ghost["raised"] = bad.ghost.get("raised", ()) + (e,)
            bad.note(f"hook {name} raises")
            res.append(("raise", bad, SV(e, site=f"hook:{name}")))
        return res
    return model


def input_ok_or_fresh(p, r):
    """values produced by hooks are pre-existing objects or objects the hook allocated: we model them as input-region
       objects (address >= 0), distinct from anything the function under verification allocates"""
    return Implies(Val.is_ref(r), Val.a(r) >= 0)
