"""C12 — customisations bind to exactly the code that runs; every customize option works.
   Units: IdentityDict methods (abstract view + representation invariant), get_code (unwrapping loop),
   code_dispatch.decorate.{dispatch,register}, customize / customize.customize_it."""
from .common import *  # noqa
from pyvc.calls import hasattr_fn, Star

M = "stackscope._code_dispatch."
register_class("IdentityDict")


# ------------------------------------------------------------------------------------------------ IdentityDict
def tuple2(H, t):
    return And(is_exact_kind(t, "tuple"), H.length(t) == 2)


def ri_at(H, D, kk):
    """representation invariant at key kk: the entry stored under kk is (k, v) with id(k) == kk"""
    t = H.dget(D, kk)
    return Implies(H.dhas(D, kk), And(Val.is_intv(kk), tuple2(H, t), Val.a(t) >= -H.alloc, obj_of_id(Val.i(kk)) == H.at(t, 0)))


def idict_setup(extra=None):
    def setup(ex, p):
        self = sym_ref(p, "self", "IdentityDict")
        D = sym_ref(p, "D", "dict")
        p.setf(self.t, "_data", D.t)      # pre-states are built by stores so that reads simplify syntactically
        p.pc.append(p.dlen(D.t) >= 0)
        H0 = p.snap()
        p.add_dschema(D.t, lambda pth, kk: ri_at(H0, D.t, kk))
        marker = sym_ref(p, "MARKER", "other")
        p.setf(self.t, "_marker", marker.t)
        ex.unit.bindings["_marker"] = marker
        key = sym_any(p, "key")
        p.env.update(self=self, key=key)
        args = dict(self=self, D=D, key=key, marker=marker)
        if extra:
            args.update(extra(ex, p, args))
        return args
    return setup


def idk(ctx):
    k = ctx.args["key"].t
    return mkint(If(Val.is_ref(k), Val.a(k), id_of(k)))


def ri_preserved(ctx):
    D = ctx.args["D"].t
    kk = fresh("kk")
    ctx.p.dinst(D, kk)
    return ri_at(ctx.H, D, kk)


def unchanged(ctx):
    D = ctx.args["D"].t
    a = Val.a(D)
    return And(Select(ctx.H.dk, a) == Select(ctx.H0.dk, a), Select(ctx.H.dv, a) == Select(ctx.H0.dv, a),
               Select(ctx.H.dn, a) == Select(ctx.H0.dn, a))


def others_kept(ctx, removed_or_set):
    """whole-view frame: every key other than the touched one keeps presence and value"""
    D = ctx.args["D"].t
    kk = fresh("kk2")
    return Implies(kk != removed_or_set, And(ctx.H.dhas(D, kk) == ctx.H0.dhas(D, kk), ctx.H.dget(D, kk) == ctx.H0.dget(D, kk)))


def getitem_post(ctx):
    D = ctx.args["D"].t
    k = idk(ctx)
    ctx.p.dinst(D, k)
    return And(ctx.H0.dhas(D, k), ctx.result.t == ctx.H0.at(ctx.H0.dget(D, k), 1), unchanged(ctx))


def keyerror_iff_absent(ctx):
    D = ctx.args["D"].t
    return And(is_kind(ctx.exc.t, "KeyError"), Not(ctx.H0.dhas(D, idk(ctx))), unchanged(ctx))


def setitem_post(ctx):
    D = ctx.args["D"].t
    k = idk(ctx)
    t = ctx.H.dget(D, k)
    return And(ctx.H.dhas(D, k), tuple2(ctx.H, t), ctx.H.at(t, 0) == ctx.args["key"].t, ctx.H.at(t, 1) == ctx.args["value"].t,
               others_kept(ctx, k), ctx.H.dlen(D) == ctx.H0.dlen(D) + If(ctx.H0.dhas(D, k), 0, 1))


def delitem_post(ctx):
    D = ctx.args["D"].t
    k = idk(ctx)
    return And(ctx.H0.dhas(D, k), Not(ctx.H.dhas(D, k)), others_kept(ctx, k), ctx.H.dlen(D) == ctx.H0.dlen(D) - 1)


def pop_post(ctx):
    D = ctx.args["D"].t
    k = idk(ctx)
    ctx.p.dinst(D, k)
    present = ctx.H0.dhas(D, k)
    return And(
        Implies(present, And(ctx.result.t == ctx.H0.at(ctx.H0.dget(D, k), 1), Not(ctx.H.dhas(D, k)), others_kept(ctx, k),
                             ctx.H.dlen(D) == ctx.H0.dlen(D) - 1)),
        Implies(Not(present), And(ctx.args["given"], ctx.result.t == ctx.args["default"].t, unchanged(ctx))),
        ctx.result.t != ctx.args["marker"].t)      # the private marker never leaks


def pop_raise(ctx):
    D = ctx.args["D"].t
    return And(is_kind(ctx.exc.t, "KeyError"), Not(ctx.H0.dhas(D, idk(ctx))), Not(ctx.args["given"]), unchanged(ctx),
               ctx.H.getf(ctx.exc.t, "arg0") == ctx.args["key"].t)


def pop_extra(ex, p, args):
    given = z3.Bool("default_given")
    dflt = sym_any(p, "dflt")
    p.pc.append(dflt.t != args["marker"].t)
    # values stored in the dictionary are never the private marker (callers cannot name it)
    H0 = p.snap()
    D = args["D"].t
    p.add_dschema(D, lambda pth, kk: Implies(H0.dhas(D, kk), H0.at(H0.dget(D, kk), 1) != args["marker"].t))
    default = SV(If(given, dflt.t, args["marker"].t))
    p.env["default"] = default
    return dict(given=given, default=default)


def value_extra(name):
    def extra(ex, p, args):
        v = sym_any(p, name)
        p.env[name] = v
        return {name: v}
    return extra


def setdefault_post(ctx):
    D = ctx.args["D"].t
    k = idk(ctx)
    ctx.p.dinst(D, k)
    present = ctx.H0.dhas(D, k)
    t = ctx.H.dget(D, k)
    return And(ctx.H.dhas(D, k), others_kept(ctx, k),
               Implies(present, And(ctx.result.t == ctx.H0.at(ctx.H0.dget(D, k), 1), t == ctx.H0.dget(D, k),
                                    ctx.H.dlen(D) == ctx.H0.dlen(D))),
               Implies(Not(present), And(ctx.result.t == ctx.args["default"].t, tuple2(ctx.H, t),
                                         ctx.H.at(t, 0) == ctx.args["key"].t, ctx.H.at(t, 1) == ctx.args["default"].t,
                                         ctx.H.dlen(D) == ctx.H0.dlen(D) + 1)))


def popitem_post(ctx):
    D = ctx.args["D"].t
    r = ctx.result.t
    kq = fresh("kq")
    k0 = ctx.H.at(r, 0)
    kid = mkint(If(Val.is_ref(k0), Val.a(k0), id_of(k0)))
    return And(tuple2(ctx.H, r), ctx.H.dlen(D) == ctx.H0.dlen(D) - 1,
               # the returned pair was an entry, stored under the id of its own key, and exactly that entry is gone
               Implies(And(ctx.H0.dhas(D, kq), Not(ctx.H.dhas(D, kq))), ctx.H0.dget(D, kq) == r),
               Implies(ctx.H.dhas(D, kq), And(ctx.H0.dhas(D, kq), ctx.H.dget(D, kq) == ctx.H0.dget(D, kq))))


def clear_post(ctx):
    D = ctx.args["D"].t
    kq = fresh("kq")
    return And(Not(ctx.H.dhas(D, kq)), ctx.H.dlen(D) == 0)


def len_post(ctx):
    return And(ctx.result.t == mkint(ctx.H0.dlen(ctx.args["D"].t)), unchanged(ctx))


def mk_idict(method, post, raise_ok=None, extra=None):
    name = f"C12.IdentityDict.{method}"
    clauses = [Clause(name + ".view", post), Clause(name + ".RI", ri_preserved, on=("return", "raise"))]
    return Unit(name, M + "IdentityDict." + method, idict_setup(extra), post=clauses,
                bindings=dict(STD_BINDINGS), methods=dict(STD_METHODS), field_types={"_data": "dict"},
                allowed_raise=raise_ok,
                assumptions=["id(o) is injective on live objects (object identity)",
                             "dict insertion order is not modelled: popitem() returns some entry (LIFO choice assumed)",
                             "callers cannot name IdentityDict._marker: stored values and explicit defaults differ from it"])


IDICT_UNITS = [
    mk_idict("__getitem__", getitem_post, keyerror_iff_absent),
    mk_idict("__setitem__", setitem_post, None, value_extra("value")),
    mk_idict("__delitem__", delitem_post, keyerror_iff_absent),
    mk_idict("pop", pop_post, pop_raise, pop_extra),
    mk_idict("setdefault", setdefault_post, None, value_extra("default")),
    mk_idict("popitem", popitem_post, lambda ctx: And(is_kind(ctx.exc.t, "KeyError"), ctx.H0.dlen(ctx.args["D"].t) == 0)),
    mk_idict("clear", clear_post),
    mk_idict("__len__", len_post),
]


# ------------------------------------------------------------------------------------------------ customize
def customize_setup(ex, p):
    target = sym_any(p, "target")
    p.pc.append(Not(Val.is_none(target.t)))
    hide, hide_line, prune = sym_bool(p, "hide"), sym_bool(p, "hide_line"), sym_bool(p, "prune")
    elaborate = sym_any(p, "elaborate")       # None or a callable
    inner_names = sym_seq(p, "inner_names", "tuple")
    p.env.update(target=target, hide=hide, hide_line=hide_line, prune=prune, elaborate=elaborate, inner_names=inner_names)
    p.env["PRUNE"] = ex.make_tuple(p, [])
    return dict(target=target, hide=hide, hide_line=hide_line, prune=prune, elaborate=elaborate, inner_names=inner_names)


def register_decorator(ex, p, fv, node):
    """@elaborate_frame.register(target, *inner_names): the decorated function is stored for get_code(target, *names)
       and returned unchanged (contract of code_dispatch.register, unit C12.register)."""
    p.ghost["registered"] = p.ghost.get("registered", ()) + (fv,)
    return [("ok", p, fv)]


def customize_post(ctx):
    """the direct form registers exactly one hook, for (target, *inner_names), and returns target"""
    return And(ctx.result.t == ctx.args["target"].t, BoolVal(len(ctx.ghost.get("registered", ())) == 1))


def customize_it_setup(ex, p):
    args = customize_setup(ex, p)
    frame = sym_ref(p, "frame", "Frame")
    nxt = sym_any(p, "next_inner")
    p.pc += [Val.is_boolv(p.getf(frame.t, "hide")), Val.is_boolv(p.getf(frame.t, "hide_line"))]
    p.env.update(frame=frame, next_inner=nxt)
    args.update(frame=frame, next_inner=nxt)
    return args


def elaborate_oracle(ex, p, f, args, kwargs, node):
    if not f.t.eq(p.env["elaborate"].t):
        raise Unsupported(f"opaque call {ast.unparse(node.func)}")
    return oracle("elaborate", havoc_fields=("hide", "hide_line", "contexts"), may_raise=True)(ex, p, args, kwargs, node)


def ci_flags(ctx):
    fr = ctx.args["frame"].t
    elab_called = any(t[0] == "elaborate" for t in ctx.p.trace)
    conj = []
    # hide / hide_line take effect (they are set before the user's elaborate hook runs, which may then do anything)
    if not elab_called:
        conj.append(Implies(Val.b(ctx.args["hide"].t), ctx.H.getf(fr, "hide") == mkbool(True)))
        conj.append(Implies(Not(Val.b(ctx.args["hide"].t)), ctx.H.getf(fr, "hide") == ctx.H0.getf(fr, "hide")))
    return And(conj) if conj else BoolVal(True)


def ci_hide_line(ctx):
    fr = ctx.args["frame"].t
    elab_called = any(t[0] == "elaborate" for t in ctx.p.trace)
    if elab_called:
        return None
    return And(Implies(Val.b(ctx.args["hide_line"].t), ctx.H.getf(fr, "hide_line") == mkbool(True)),
               Implies(Not(Val.b(ctx.args["hide_line"].t)), ctx.H.getf(fr, "hide_line") == ctx.H0.getf(fr, "hide_line")))


def ci_before_elaborate(ctx):
    """when the user hook is called, hide/hide_line have already been applied to the frame it receives"""
    return None


def ci_result(ctx):
    elab = ctx.args["elaborate"]
    calls = [t for t in ctx.p.trace if t[0] == "elaborate"]
    given = ex_truthy(ctx, elab)
    prune_or_none = If(Val.b(ctx.args["prune"].t), ctx.env["PRUNE"].t, NONE)
    if not calls:
        return And(Not(given), ctx.result.t == prune_or_none)
    r = calls[0][2][1]
    return And(given, BoolVal(len(calls) == 1), calls[0][1][0] == ctx.args["frame"].t, calls[0][1][1] == ctx.args["next_inner"].t,
               ctx.result.t == If(Val.is_none(r), prune_or_none, r))


def ex_truthy(ctx, sv):
    return ctx.ex.truthy(ctx.p, sv)


def ci_raises(ctx):
    # only an exception of the user's elaborate hook may escape (extract_iter contains it)
    return BoolVal(bool(ctx.p.ghost.get("raised")))


def pre_elab_flags(ex, n, p):
    pass


class _HookedOracle:
    """elaborate hook oracle that also checks, at call time, that the flags were applied before the hook runs"""
    def __call__(s, ex, p, f, args, kwargs, node):
        if not f.t.eq(p.env["elaborate"].t):
            raise Unsupported(f"opaque call {ast.unparse(node.func)}")
        fr = p.env["frame"].t
        hide, hl = p.env["hide"].t, p.env["hide_line"].t
        ex.oblig("C12.customize_it.hide", "clause", p, Implies(Val.b(hide), p.getf(fr, "hide") == mkbool(True)))
        ex.oblig("C12.customize_it.hide_line", "clause", p, Implies(Val.b(hl), p.getf(fr, "hide_line") == mkbool(True)))
        return oracle("elaborate", havoc_fields=("hide", "hide_line", "contexts"))(ex, p, args, kwargs, node)


import ast  # noqa: E402

CUSTOMIZE_UNITS = [
    Unit("C12.customize_it", "stackscope._customization.customize.customize_it", customize_it_setup,
         post=[Clause("C12.customize_it.hide", ci_flags), Clause("C12.customize_it.hide_line", ci_hide_line),
               Clause("C12.customize_it.result", ci_result)],
         bindings=dict(STD_BINDINGS), methods=dict(STD_METHODS), opaque_call=_HookedOracle(), known_classes=["Frame"],
         allowed_raise=ci_raises,
         assumptions=["the user's elaborate hook may modify frame.hide/hide_line/contexts and raise any Exception"]),
]



def customize_full_setup(ex, p):
    target = sym_any(p, "target")
    hide, hide_line, prune = sym_bool(p, "hide"), sym_bool(p, "hide_line"), sym_bool(p, "prune")
    elaborate = sym_any(p, "elaborate")
    inner_names = sym_seq(p, "inner_names", "tuple")
    p.env.update(target=target, hide=hide, hide_line=hide_line, prune=prune, elaborate=elaborate, inner_names=inner_names)
    p.env["customize"] = SV(z3.Const("fn_customize", Val), fnref="customize")
    return dict(target=target, hide=hide, hide_line=hide_line, prune=prune, elaborate=elaborate, inner_names=inner_names)


def ext_partial(ex, p, args, kwargs, node):
    """functools.partial(f, **kw): calling the result with (t) calls f(t, **kw)  [assumed library contract];
       the keyword set is recorded as ghost state so the clause below can compare it with customize's own options"""
    r = p.new_obj("partial")
    p.ghost["partial"] = (args[0], dict(kwargs), len(args))
    return [("ok", p, SV(r, ty="partial"))]


def register_deco(ex, p, fv, node):
    """decorator expression `elaborate_frame.register(target, *inner_names)`: contract of code_dispatch.register
       (unit C12.register): stores fv under get_code(target, *inner_names), returns fv"""
    p.ghost["registered"] = p.ghost.get("registered", ()) + ((p.env["target"].t, p.env["inner_names"].t, fv),)
    src = ast.unparse(node.decorator_list[0])
    ok = src.replace(" ", "") == "elaborate_frame.register(target,*inner_names)" and len(node.decorator_list) == 1
    ex.oblig("C12.customize.registers_for_target", "clause", p, BoolVal(ok))
    return [("ok", p, fv)]


def customize_direct(ctx):
    tgt = ctx.args["target"].t
    reg = ctx.ghost.get("registered", ())
    if "partial" in ctx.ghost:
        return None
    return And(tgt != NONE, ctx.result.t == tgt, BoolVal(len(reg) == 1 and reg[0][2].get("fn") is not None
                                                      and reg[0][2].get("fn").qualname == "customize.customize_it"))


def customize_decorator_form(ctx):
    """target is None  ==>  result(t) behaves as customize(t, hide=h, hide_line=hl, prune=p, elaborate=e)"""
    if "partial" not in ctx.ghost:
        return And(ctx.args["target"].t != NONE)
    f, kw, npos = ctx.ghost["partial"]
    conj = [ctx.args["target"].t == NONE, BoolVal(f.get("fnref") == "customize" and npos == 1),
            BoolVal(sorted(kw) == ["elaborate", "hide", "hide_line", "prune"])]
    for k in ("hide", "hide_line", "prune", "elaborate"):
        if k in kw:
            conj.append(kw[k].t == ctx.args[k].t)
    return And(conj)


CUSTOMIZE_UNITS.append(
    Unit("C12.customize", "stackscope._customization.customize", customize_full_setup,
         post=[Clause("C12.customize.direct_form", customize_direct),
               Clause("C12.customize.decorator_form", customize_decorator_form)],
         bindings=dict(STD_BINDINGS, **{"functools.partial": ext_partial}), methods=dict(STD_METHODS),
         decorators={"stackscope._customization.customize.customize_it": register_deco},
         assumptions=["functools.partial(f, **kw)(t) == f(t, **kw)"]))


# ------------------------------------------------------------------------------------------------ code_dispatch closures
# View-level contract of IdentityDict used by its clients (instance of the representation-level contracts above under
# the abstraction V(k) = _data[id(k)][1], id injective): lookup/assignment by object identity.
def idv_getitem(ex, p, args, kwargs, node):
    reg, key = args[0], args[1]
    t, f = ex.fork(p, p.dhas(reg.t, key.t))
    res = []
    if t is not None:
        res.append(("ok", t, SV(t.dget(reg.t, key.t))))
    if f is not None:
        res.append(ex.raise_new(f, "KeyError", site="IdentityDict.__getitem__"))
    return res


def idv_setitem(ex, p, args, kwargs, node):
    reg, key, val = args
    ex.write_barrier(p, ("dict", reg.t), node)
    p.dset(reg.t, key.t, val.t)
    return [("ok", p, NONE_SV)]


def idv_contains(ex, p, container, item):
    return p.dhas(container.t, item.t)


IDV_METHODS = {("IdentityDict", "__getitem__"): idv_getitem, ("IdentityDict", "__setitem__"): idv_setitem,
               ("IdentityDict", "__contains__"): idv_contains}

gc_code = Function("get_code_result", Val, Val, Val)          # get_code(thing, names) when it returns
gc_fails = Function("get_code_fails", Val, Val, BoolSort())


def contract_get_code(ex, p, args, kwargs, node):
    """callee contract of get_code (verified by units C12.get_code.*): returns the code object determined by
       (thing, names) or raises TypeError / ValueError; no heap effect"""
    thing = args[0]
    rest = args[1:]
    if len(rest) == 1 and isinstance(rest[0], Star):
        names = rest[0].sv
    elif not rest:
        names = ex.make_tuple(p, [])
    else:
        raise Unsupported("get_code call shape")
    t, f = ex.fork(p, Not(gc_fails(thing.t, names.t)))
    res = []
    if t is not None:
        r = gc_code(thing.t, names.t)
        t.pc.append(is_exact_kind(r, "code"))
        t.pc.append(input_ok(r))
        res.append(("ok", t, SV(r, ty="code")))
    if f is not None:
        e = f.new_obj(None)
        f.pc.append(Or(kind(Val.a(e)) == K("TypeError"), kind(Val.a(e)) == K("ValueError")))
        f.ghost["raised"] = f.ghost.get("raised", ()) + (e,)
        res.append(("raise", f, SV(e, site="get_code")))
    return res


def closure_setup(ex, p):
    code_from_arg = sym_ref(p, "code_from_arg", "function")
    default_impl = sym_ref(p, "default_impl", "function")
    registry = sym_ref(p, "registry", "IdentityDict")
    p.pc.append(p.dlen(registry.t) >= 0)
    p.env.update(code_from_arg=code_from_arg, default_impl=default_impl, registry=registry)
    return dict(code_from_arg=code_from_arg, default_impl=default_impl, registry=registry)


def dispatch_setup(ex, p):
    a = closure_setup(ex, p)
    arg = sym_any(p, "arg")
    p.env["arg"] = arg
    a["arg"] = arg
    return a


def cfa_oracle(ex, p, f, args, kwargs, node):
    if f.t.eq(p.env["code_from_arg"].t):
        return oracle("code_from_arg")(ex, p, args, kwargs, node)
    raise Unsupported(f"opaque call {ast.unparse(node.func)}")


def dispatch_post(ctx):
    calls = [t for t in ctx.p.trace if t[0] == "code_from_arg"]
    if len(calls) != 1:
        return BoolVal(False)
    code = calls[0][2][1]
    reg = ctx.args["registry"].t
    return And(calls[0][1][0] == ctx.args["arg"].t,
               ctx.result.t == If(ctx.H0.dhas(reg, code), ctx.H0.dget(reg, code), ctx.args["default_impl"].t),
               Select(ctx.H.dk, Val.a(reg)) == Select(ctx.H0.dk, Val.a(reg)), Select(ctx.H.dv, Val.a(reg)) == Select(ctx.H0.dv, Val.a(reg)))


def registry_is_identity_keyed(fi):
    """syntactic obligation on decorate(): the registry is constructed from IdentityDict (identity-keyed), nothing else"""
    for st in fi.node.body:
        if isinstance(st, ast.Assign) and any(isinstance(t, ast.Name) and t.id == "registry" for t in st.targets):
            v = st.value
            root = v.func if isinstance(v, ast.Call) else None
            while isinstance(root, ast.Subscript):
                root = root.value
            return isinstance(root, ast.Name) and root.id == "IdentityDict"
    return False


def dispatch_registry_clause(ctx):
    from pyvc import source
    fi = source.get_func(M + "code_dispatch.decorate")
    return BoolVal(registry_is_identity_keyed(fi))


def register_setup(ex, p):
    a = closure_setup(ex, p)
    code = sym_any(p, "code")
    names = sym_seq(p, "nested_names", "tuple", ty_key="names")
    func = sym_any(p, "func")          # None (decorator / trailing-positional form) or the function
    p.env.update(code=code, nested_names=names, func=func)
    p.env["register"] = SV(z3.Const("fn_register", Val), fnref="register")
    a.update(code=code, nested_names=names, func=func)
    return a


def register_post(ctx):
    reg = ctx.args["registry"].t
    a = Val.a(reg)
    names0, func0, code = ctx.args["nested_names"].t, ctx.args["func"].t, ctx.args["code"].t
    r = ctx.result
    H0, H = ctx.H0, ctx.H
    n0 = H0.length(names0)
    last = H0.at(names0, n0 - 1)
    trailing = And(Val.is_none(func0), n0 > 0, Val.is_ref(last), callable_fn(last))
    if r.get("lam") is not None:
        lam = r.get("lam")
        shape = ast.unparse(lam.body).replace(" ", "") == "register(code,*nested_names,func=fn)" and \
            [x.arg for x in lam.args.args] == ["fn"]
        cl = r.get("closure")
        return And(BoolVal(shape), Val.is_none(func0), Not(trailing), cl["code"].t == code, cl["nested_names"].t == names0,
                   Select(H.dk, a) == Select(H0.dk, a), Select(H.dv, a) == Select(H0.dv, a))
    names_used = ctx.env["nested_names"].t
    func_used = If(trailing, last, func0)
    key = gc_code(code, names_used)
    kq = fresh("kq")
    return And(Not(Val.is_none(func_used)), r.t == func_used, Not(gc_fails(code, names_used)),
               # names actually passed to get_code: all of them, or all but the trailing callable
               If(trailing, And(H.length(names_used) == n0 - 1,
                                Implies(And(kq_i() >= 0, kq_i() < n0 - 1), H.at(names_used, kq_i()) == H0.at(names0, kq_i()))),
                  names_used == names0),
               H.dhas(reg, key), H.dget(reg, key) == func_used,
               Implies(kq != key, And(H.dhas(reg, kq) == H0.dhas(reg, kq), H.dget(reg, kq) == H0.dget(reg, kq))))


_KQI = []


def kq_i():
    if not _KQI:
        _KQI.append(fresh_int("kqi"))
    return _KQI[0]


def register_post_wrapped(ctx):
    # the slice names_used = nested_names[:-1] is described by a schema: instantiate it at the skolem index
    names_used = ctx.env["nested_names"]
    if names_used.get("slice_of") is not None:
        ctx.p.read(names_used.t, ctx.H.lo_(names_used.t) + kq_i(), ctx.H)
    return register_post(ctx)


DISPATCH_UNITS = [
    Unit("C12.dispatch", M + "code_dispatch.decorate.dispatch", dispatch_setup,
         post=[Clause("C12.dispatch_identity", dispatch_post),
               Clause("C12.registry_is_identity_keyed", dispatch_registry_clause)],
         bindings=dict(STD_BINDINGS), methods={**STD_METHODS, **IDV_METHODS}, opaque_call=cfa_oracle,
         allowed_raise=lambda ctx: BoolVal(bool(ctx.p.ghost.get("raised"))),
         assumptions=["view-level IdentityDict contract = representation-level contracts under V(k) = _data[id(k)][1]"]),
    Unit("C12.register", M + "code_dispatch.decorate.register", register_setup,
         post=[Clause("C12.register.latest_wins", register_post_wrapped)],
         bindings=dict(STD_BINDINGS, get_code=contract_get_code), methods={**STD_METHODS, **IDV_METHODS},
         allowed_raise=lambda ctx: BoolVal(bool(ctx.p.ghost.get("raised"))),
         assumptions=["callable(x) is an opaque total predicate"]),
]
from pyvc.calls import callable_fn  # noqa: E402


# ------------------------------------------------------------------------------------------------ get_code
final = Function("gc_final", Val, Val)            # the function/code object reached by unwrapping (ghost spec function)
unwrap_end = Function("inspect_unwrap", Val, Val)   # inspect.unwrap(f): end of the __wrapped__ chain (external, assumed)
GC = M + "get_code"
WRAPPED = hasattr_fn("__wrapped__")


def typed(H, f):
    """type invariant of inputs: a function object's __code__ is a code object"""
    return Implies(is_kind(f, "function"), is_kind(H.getf(f, "__code__"), "code"))


def final_def(H, t):
    """defining equation of `final` at t (assumed as a DEFINITION; well-founded for terminating unwrappings)"""
    return If(is_kind(t, "partial"), final(t) == final(H.getf(t, "func")),
              If(is_kind(t, ["method", "classmethod", "staticmethod"]), final(t) == final(H.getf(t, "__func__")),
                 If(WRAPPED(t), final(t) == final(unwrap_end(t)), final(t) == t)))


def ext_inspect_unwrap(ex, p, args, kwargs, node):
    r = unwrap_end(args[0].t)
    p.pc.append(input_ok(r))          # it returns an object that already existed
    return [("ok", p, SV(r))]


def gc_setup(ex, p):
    thing = sym_any(p, "thing")
    names = sym_seq(p, "nested_names", "tuple", ty_key="names")
    p.env.update(thing=thing, nested_names=names)
    return dict(thing=thing, nested_names=names)


nest = Function("gc_nest", IntSort(), Val)       # code object after k nested names (ghost, per call)
fcidx = Function("gc_first_const", IntSort(), IntSort())   # index of the first matching constant at level k, or -1


def topcode(ctx):
    f = final(ctx.args["thing"].t)
    return If(is_kind(f, "function"), ctx.H0.getf(f, "__code__"), f)


def match_term(ex, p, H, const, name):
    return And(is_kind(const, "code"), ex.eq(p, SV(H.getf(const, "co_name")), SV(name)))


def outer_defs(ctx):
    """definition of fcidx/nest at the current level k: first CodeType constant whose co_name equals names[k]"""
    p, H = ctx.p, ctx.H
    k = ctx.k
    code = ctx.v("code")
    names = ctx.args_names
    consts = H.getf(code, "co_consts")
    n = H.length(consts)
    nm = H.at(names, k)
    m = fcidx(k)
    ex = ctx.ex
    p.add_schema(consts, lambda pth, j: Implies(And(j >= H.lo_(consts), j < H.hi_(consts)),
                                               Implies(Or(m == -1, j - H.lo_(consts) < m),
                                                       Not(match_term(ex, pth, H, H.raw(consts, j), nm)))))
    return And(n >= 0, is_exact_kind(consts, "tuple"), Or(m == -1, And(m >= 0, m < n)),
               Implies(m >= 0, And(match_term(ex, p, H, H.at(consts, m), nm), nest(k + 1) == H.at(consts, m))))


def mk_outer_inv(names_sv):
    def qf(ctx):
        return And(ctx.v("code") == nest(ctx.k), is_kind(ctx.v("code"), "code"), Val.a(ctx.v("code")) >= 0)
    def defs(ctx):
        ctx.args_names = names_sv.t
        return outer_defs(ctx)
    return Inv("C12.get_code.nested", qf=qf, defs=defs)


def inner_qf(ctx):
    # j constants examined, none matched: the first match (if any) is not before j; `code` is still this level's code
    lvl = ctx.env0["idx"].t
    return And(ctx.v("code") == ctx.v0("code"), Or(fcidx(Val.i(lvl)) == -1, fcidx(Val.i(lvl)) >= ctx.k))


def gc_unit():
    holder = {}

    def setup(ex, p):
        a = gc_setup(ex, p)
        holder["names"] = a["nested_names"]
        ex.unit.invariants[(GC, "for#1")] = mk_outer_inv(a["nested_names"])
        return a

    def while_qf(ctx):
        return And(final(ctx.v("thing")) == final(ctx.v0("thing")), Implies(Val.is_ref(ctx.v("thing")), Val.a(ctx.v("thing")) >= 0))

    def while_defs(ctx):
        t = ctx.v("thing")
        ctx.p.wf_field(t, "__code__")
        return And(final_def(ctx.H, t), typed(ctx.H, t), Implies(Val.is_ref(t), Val.a(t) >= 0))

    def post_return(ctx):
        names = ctx.args["nested_names"].t
        f = final(ctx.args["thing"].t)
        return And(ctx.result.t == nest(ctx.H0.length(names)), nest(0) == topcode(ctx),
                   Or(is_kind(f, "function"), is_kind(f, "code")))

    def raise_ok(ctx):
        e = ctx.exc.t
        f = final(ctx.args["thing"].t)
        if "idx" in ctx.env:     # raised inside the nested-name loop: no constant matched at this level
            lvl = Val.i(ctx.env["idx"].t)
            return And(is_kind(e, "ValueError"), fcidx(lvl) == -1, ctx.env["code"].t == ctx.env0_code if False else True)
        return And(is_kind(e, "TypeError"), Not(Or(is_kind(f, "function"), is_kind(f, "code"))))

    def after_while(ex, n, p):
        # nest(0) is DEFINED as the top-level code object; assumed where `code` has just been determined
        if isinstance(n, ast.Assign) and ast.unparse(n.targets[0]) == "top_name":
            p.pc.append(nest(0) == p.env["code"].t)

    return Unit("C12.get_code", GC, setup,
                post=[Clause("C12.get_code.result", post_return)],
                bindings=dict(STD_BINDINGS, **{"inspect.unwrap": ext_inspect_unwrap}), methods=dict(STD_METHODS),
                invariants={(GC, "while#1"): Inv("C12.get_code.unwrap", qf=while_qf, defs=while_defs),
                            (GC, "for#2"): Inv("C12.get_code.first_const", qf=inner_qf)},
                field_types={"co_consts": "tuple", "co_name": "str"},
                allowed_raise=raise_ok, before_stmt=after_while,
                assumptions=["inspect.unwrap(f) returns the end of f's __wrapped__ chain",
                             "ghost spec functions gc_final / gc_nest / gc_first_const are introduced by their defining "
                             "equations (assumed as definitions): final follows partial.func, __func__, __wrapped__; "
                             "level k+1 is the FIRST CodeType constant of level k whose co_name equals names[k]",
                             "a nested def's function object has __code__ identical to the constant in the enclosing co_consts (CPython)"])


GETCODE_UNITS = [gc_unit()]
UNITS = IDICT_UNITS + CUSTOMIZE_UNITS + DISPATCH_UNITS + GETCODE_UNITS
