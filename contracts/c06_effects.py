"""C06 — effect / retention conditions, decided syntactically over the ASTs of every function of the package (read from
/repo's working tree on every run).  These are frame conditions in the contract sense: which objects a function may read,
call or store.  Each clause below is an obligation; a violated one names the function and the statement."""
import ast
import os
from pyvc import source

PKG_FILES = ["_extract.py", "_glue.py", "_lowlevel.py", "_lowlevel_cpython_311.py", "_lowlevel_cpython_310.py", "_customization.py",
             "_code_dispatch.py", "_types.py", "_util.py"]

# methods that would RESUME or otherwise perturb a target (C06.effects): never called on anything but the library's own probes
RESUMING = {"send", "throw", "close", "__next__", "__anext__", "asend", "athrow", "aclose", "switch"}
# the only places where such calls are allowed: type-discovery probes that the library creates itself and must close again
ALLOWED_PROBE_CALLS = {
    ("_glue.py", "glue_builtins"): {"send", "close", "asend", "athrow", "aclose"},   # on its OWN probe async generator / coroutine
    ("_glue.py", "glue_async_generator"): {"close", "asend"},                        # on its OWN probe async generator
    ("_lowlevel.py", "_check_trickery_available"): {"send"},   # gen.send(None) on the self-test generator
}
MEMO_DECORATORS = {"lru_cache", "cache", "cached_property", "singledispatchmethod_cache"}
# process-wide interpreter state an observation must leave alone (C06: "pure observation"): calls that switch the cyclic
# collector, tracing / profiling, the switch interval, the recursion limit, signal handlers, warning filters
STATE_MUTATORS = {("gc", "enable"), ("gc", "disable"), ("gc", "collect"), ("gc", "set_threshold"), ("gc", "freeze"), ("gc", "unfreeze"),
                  ("gc", "set_debug"), ("sys", "settrace"), ("sys", "setprofile"), ("sys", "setswitchinterval"), ("sys", "setrecursionlimit"),
                  ("sys", "set_asyncgen_hooks"), ("sys", "set_coroutine_origin_tracking_depth"), ("threading", "settrace"),
                  ("threading", "setprofile"), ("signal", "signal"), ("signal", "setitimer"), ("warnings", "simplefilter"),
                  ("warnings", "filterwarnings"), ("warnings", "resetwarnings"), ("os", "environ")}
CLOCK_RNG = {"time", "monotonic", "perf_counter", "random", "randint", "choice", "shuffle", "uuid4", "urandom"}


def _functions(tree):
    for n in ast.walk(tree):
        if isinstance(n, (ast.FunctionDef, ast.AsyncFunctionDef)):
            yield n


def _enclosing_top(tree, fn):
    for top in tree.body:
        if fn in list(ast.walk(top)):
            return getattr(top, "name", None)
    return None


def static_obligations():
    out = []        # (name, ok, detail)
    bad_memo, bad_resume, bad_clock, bad_global, bad_state = [], [], [], [], []
    module_level_mutables = {}
    for fname in PKG_FILES:
        path = os.path.join(source.REPO, "stackscope", fname)
        if not os.path.exists(path):
            continue
        tree = ast.parse(open(path, encoding="utf-8").read())
        mutables = set()
        for st in tree.body:
            tg = None
            if isinstance(st, ast.Assign) and isinstance(st.targets[0], ast.Name):
                tg, val = st.targets[0].id, st.value
            elif isinstance(st, ast.AnnAssign) and isinstance(st.target, ast.Name) and st.value is not None:
                tg, val = st.target.id, st.value
            if tg and isinstance(val, (ast.Dict, ast.List, ast.Set, ast.Call)) and not tg.isupper():
                mutables.add(tg)
        module_level_mutables[fname] = mutables
        # memoisation anywhere in the module (decorator or explicit wrapping at module level)
        for n in ast.walk(tree):
            nm = n.attr if isinstance(n, ast.Attribute) else (n.id if isinstance(n, ast.Name) else None)
            if nm in MEMO_DECORATORS:
                bad_memo.append(f"{fname}:{getattr(n, 'lineno', '?')} uses {nm}")
        for fn in _functions(tree):
            top = _enclosing_top(tree, fn)
            # (1) no memoisation: a cache keyed by arguments retains the stack-derived objects it is called with
            for d in fn.decorator_list:
                src = ast.unparse(d)
                if any(m in src for m in MEMO_DECORATORS):
                    bad_memo.append(f"{fname}:{fn.name} is decorated with {src}")
            for n in ast.walk(fn):
                # (2) no call that resumes / closes / switches a target
                if isinstance(n, ast.Call) and isinstance(n.func, ast.Attribute) and n.func.attr in RESUMING:
                    allowed = ALLOWED_PROBE_CALLS.get((fname, top), set()) | ALLOWED_PROBE_CALLS.get((fname, fn.name), set())
                    if n.func.attr not in allowed:
                        bad_resume.append(f"{fname}:{fn.name}:{n.lineno} calls .{n.func.attr}() on {ast.unparse(n.func.value)[:40]}")
                # (3) determinism: no clock / RNG in the extraction call graph
                if isinstance(n, ast.Call) and isinstance(n.func, ast.Attribute) and n.func.attr in CLOCK_RNG and \
                        isinstance(n.func.value, ast.Name) and n.func.value.id in ("time", "random", "uuid", "os"):
                    bad_clock.append(f"{fname}:{fn.name}:{n.lineno} calls {ast.unparse(n.func)}")
                # (3b) no switch of process-wide interpreter state
                if isinstance(n, ast.Call) and isinstance(n.func, ast.Attribute) and isinstance(n.func.value, ast.Name) and \
                        (n.func.value.id, n.func.attr) in STATE_MUTATORS:
                    bad_state.append(f"{fname}:{fn.name}:{n.lineno} calls {ast.unparse(n.func)}()")
                # (4) stores into module-level containers / globals: only the known registries, with non-stack-derived values
                if isinstance(n, ast.Global):
                    for g in n.names:
                        if (fname, g) not in {("_lowlevel.py", "_can_use_trickery"), ("_lowlevel.py", "inspect_frame")}:
                            bad_global.append(f"{fname}:{fn.name} declares global {g}")
                if isinstance(n, (ast.Assign, ast.AugAssign)):
                    tgts = n.targets if isinstance(n, ast.Assign) else [n.target]
                    for t in tgts:
                        if isinstance(t, ast.Subscript) and isinstance(t.value, ast.Name) and t.value.id in mutables | {"_sys_modules_len_cache"}:
                            ok = (t.value.id, fn.name) in {("builtin_glue_pending", "decorate"), ("_sys_modules_len_cache", "add_glue_as_needed")} or \
                                (t.value.id, _enclosing_top(tree, fn)) == ("builtin_glue_pending", "builtin_glue")
                            if not ok:
                                bad_global.append(f"{fname}:{fn.name}:{n.lineno} stores into module-level {t.value.id}")
                if isinstance(n, ast.Call) and isinstance(n.func, ast.Attribute) and n.func.attr in ("append", "add", "setdefault", "update", "extend", "insert") \
                        and isinstance(n.func.value, ast.Name) and n.func.value.id in mutables:
                    bad_global.append(f"{fname}:{fn.name}:{n.lineno} mutates module-level {n.func.value.id} via .{n.func.attr}()")
    # (4b) closure state: a container created in the body of an enclosing FUNCTION and written by one of its nested functions lives as
    # long as those nested functions do - for hooks registered by a glue function, that is the life of the process.  Only the
    # dispatch registries (which hold hooks, not stack-derived objects) may be such state.
    CONTAINER_CTORS = {"dict", "list", "set", "deque", "defaultdict", "OrderedDict", "WeakKeyDictionary", "WeakValueDictionary", "WeakSet",
                       "IdentityDict", "Counter"}
    ALLOWED_CLOSURE_STATE = {("_code_dispatch.py", "decorate", "registry")}
    bad_closure = []
    for fname in PKG_FILES:
        path = os.path.join(source.REPO, "stackscope", fname)
        if not os.path.exists(path):
            continue
        tree = ast.parse(open(path, encoding="utf-8").read())
        for outer in _functions(tree):
            owned = set()
            for st in outer.body:
                tg = val = None
                if isinstance(st, ast.Assign) and len(st.targets) == 1 and isinstance(st.targets[0], ast.Name):
                    tg, val = st.targets[0].id, st.value
                elif isinstance(st, ast.AnnAssign) and isinstance(st.target, ast.Name) and st.value is not None:
                    tg, val = st.target.id, st.value
                if tg is None:
                    continue
                ctor = val.func if isinstance(val, ast.Call) else None
                ctor_name = ctor.attr if isinstance(ctor, ast.Attribute) else (ctor.id if isinstance(ctor, ast.Name) else None)
                if isinstance(val, (ast.Dict, ast.List, ast.Set, ast.DictComp, ast.ListComp, ast.SetComp)) or ctor_name in CONTAINER_CTORS:
                    owned.add(tg)
            if not owned:
                continue
            inners = [st for st in outer.body if isinstance(st, (ast.FunctionDef, ast.AsyncFunctionDef))]
            returned = {n.value.id for n in ast.walk(outer) if isinstance(n, ast.Return) and isinstance(n.value, ast.Name)}
            # nested functions that OUTLIVE the call of the enclosing function: registered through a decorator, returned, or referenced
            # from one that is (per-call helpers such as unwrap_stackslice.try_from do not keep state beyond the call)
            escaping = {f_.name for f_ in inners if f_.decorator_list or f_.name in returned}
            grew = True
            while grew:
                grew = False
                for f_ in inners:
                    if f_.name not in escaping and any(isinstance(n, ast.Name) and n.id == f_.name for g_ in inners if g_.name in escaping for n in ast.walk(g_)):
                        escaping.add(f_.name); grew = True
            for inner in inners:
                if inner.name not in escaping:
                    continue
                rebound = {a.arg for a in inner.args.args + inner.args.kwonlyargs} | \
                    {t.id for n in ast.walk(inner) if isinstance(n, ast.Assign) for t in n.targets if isinstance(t, ast.Name)}
                for n in ast.walk(inner):
                    nm = None
                    if isinstance(n, (ast.Assign, ast.AugAssign)):
                        for t in (n.targets if isinstance(n, ast.Assign) else [n.target]):
                            if isinstance(t, ast.Subscript) and isinstance(t.value, ast.Name):
                                nm = t.value.id
                    if isinstance(n, ast.Call) and isinstance(n.func, ast.Attribute) and isinstance(n.func.value, ast.Name) and \
                            n.func.attr in ("append", "appendleft", "add", "setdefault", "update", "extend", "insert", "__setitem__"):
                        nm = n.func.value.id
                    if nm in owned and nm not in rebound and (fname, outer.name, nm) not in ALLOWED_CLOSURE_STATE:
                        bad_closure.append(f"{fname}:{outer.name}.{inner.name}:{n.lineno} writes into `{nm}`, a container owned by the enclosing function")
    out.append(("C06.no_retention.no_closure_state_written_by_registered_hooks", not bad_closure, "; ".join(bad_closure)))
    out.append(("C06.no_memoisation_of_stack_derived_arguments", not bad_memo, "; ".join(bad_memo)))
    out.append(("C06.effects.no_resuming_call_on_targets", not bad_resume, "; ".join(bad_resume)))
    out.append(("C06.deterministic.no_clock_or_rng", not bad_clock, "; ".join(bad_clock)))
    out.append(("C06.no_retention.stores_into_module_state_are_whitelisted", not bad_global, "; ".join(bad_global)))
    out.append(("C06.effects.no_switch_of_process_wide_interpreter_state", not bad_state, "; ".join(bad_state)))
    # (5) helpers closed: the probe async generator is driven to completion and the probe coroutines are closed, on every path
    gpath = os.path.join(source.REPO, "stackscope", "_glue.py")
    gsrc = ast.parse(open(gpath).read())
    gb = [f for f in _functions(gsrc) if f.name == "glue_builtins"]
    ok5, why = False, "glue_builtins not found"
    if gb:
        body_src = ast.unparse(gb[0])
        ok5 = "agen.aclose().send(None)" in body_src and "except (StopIteration, StopAsyncIteration)" in body_src and "coro.close()" in body_src
        why = "" if ok5 else "the type-discovery async generator / coroutine probes are not closed (aclose().send(None) with both terminal exceptions accepted; coro.close())"
    out.append(("C06.helpers_closed", ok5, why))
    return out
