"""inspect_frame for CPython 3.9 / 3.10 (stackscope/_lowlevel_cpython_310.py) under contract, in the 3.10 configuration.
Two units, each over statements selected from the real function by pattern (what the extraction drops is said at each):

  C01.inspect_frame_310.blocks  - the walk over the frame's block stack: details.blocks is exactly the SETUP_FINALLY entries among
        the first f_iblock entries, in order, handler scaled to a byte offset, level copied; only entries below f_iblock are read.
  C02.inspect_frame_310.stack   - what becomes of the raw value stack: a RUNNING frame's stack is cut to the deepest level any
        recorded block needs (nothing above it is turned into an object reference), a SUSPENDED frame's slots are mapped through
        the frame's gc referents (never through a raw address cast), an address that is not a referent's gives None.

Raw memory is a family of uninterpreted functions of the address (one consistent memory during the call: the 3.9/3.10 reader has
no retry protocol, so a frame that runs on another thread meanwhile is outside these units - the bounded legs' business)."""
from .common import *  # noqa
import ast
from .inspect311 import ctor_block, ctor_details  # noqa: F401

IF10 = "stackscope._lowlevel_cpython_310.inspect_frame"
PY310_CFG = dict(version=(3, 10, 13, "final", 0))
for c_ in ("FrameDetails", "FinallyBlock", "ctryblock", "frame", "code"):
    register_class(c_)

SETUP_FINALLY = 122                                   # dis.opmap["SETUP_FINALLY"] on 3.9 / 3.10
btype = Function("PyTryBlock.b_type", IntSort(), IntSort())        # fields of block-stack entry i (raw memory, one snapshot)
bhandler = Function("PyTryBlock.b_handler", IntSort(), IntSort())
blevel = Function("PyTryBlock.b_level", IntSort(), IntSort())
cnt = Function("C01.finally_blocks_before", IntSort(), IntSort())  # ghost: number of SETUP_FINALLY entries among [0, i)


def select_blocks(fi):
    """`offset_mult = ...` and the `while blockstack_offset < blockstack_end_offset:` loop.  Dropped: the struct sanity asserts in
    front (they only raise AssertionError, which the caller turns into a warning + fallback: unit C20.contexts_active_in_frame),
    the computation of the two offsets from raw struct fields (here: arbitrary B0 and B0 + 12 * f_iblock with 0 <= f_iblock <= 20,
    which is what the dropped asserts establish), and everything after the loop (unit C02.inspect_frame_310.stack)."""
    body = fi.node.body
    mult = [st for st in body if isinstance(st, ast.Assign) and ast.unparse(st.targets[0]) == "offset_mult"]
    loops = [st for st in body if isinstance(st, ast.While) and "blockstack_offset" in ast.unparse(st.test)]
    if len(mult) != 1 or len(loops) != 1:
        raise KeyError("contract anchor lost: block-stack walk of the 3.10 inspect_frame not found")
    return mult + loops


def blocks_setup(ex, p):
    frame = sym_ref(p, "frame", "frame")
    co = sym_ref(p, "code_object", "code")
    code_len = fresh_int("len_co_code")
    B0, n = fresh_int("blockstack_offset0"), fresh_int("f_iblock")
    idf = Val.a(frame.t)                                 # id(frame) as the engine's id() gives it for a heap reference
    p.pc += [B0 > 0, n >= 0, n <= 20, code_len >= 0, cnt(0) == 0]
    details = p.new_obj("FrameDetails")
    blocks = p.new_seq("list", [])
    p.setf(details, "blocks", blocks)
    stack = sym_seq(p, "stack", "list")
    G = sym_seq(p, "ghost_block_indices", "list")          # ghost: a sequence of length f_iblock, never written; carries the per-index invariant
    p.pc += [p.length(G.t) == n, p.lo(G.t) == 0]
    p.env.update(frame=frame, co=co, details=SV(details, ty="FrameDetails"), stack=stack,
                 blockstack_offset=sv_int(B0), blockstack_end_offset=sv_int(B0 + 12 * n))
    HB = p.snap()

    def m_from_address(ex_, p_, args, kw, node):
        off = Val.i(args[0].t) - idf
        # C06: only entries of the block stack below f_iblock are read, at entry boundaries
        ex_.oblig("C06.block_read_within_block_stack", "clause", p_, And(off >= B0, off < B0 + 12 * n, (off - B0) % 12 == 0))
        return [("ok", p_, SV(fresh("block"), ty="ctryblock", idx=(off - B0) / 12))]

    def fld(fn):
        def prop(ex_, p_, o):
            return [("ok", p_, sv_int(fn(o.get("idx"))))]
        return prop

    def m_sizeof(ex_, p_, args, kw, node):
        if args[0].get("name") != "PyTryBlock":
            raise Unsupported("ctypes.sizeof of something else than PyTryBlock")
        return [("ok", p_, sv_int(12))]

    def m_len(ex_, p_, args, kw, node):
        a0 = args[0]
        if a0.get("co_code"):
            return [("ok", p_, sv_int(code_len))]
        return [("ok", p_, sv_int(p_.length(a0.t)))]

    ex.unit.bindings.update({"PyTryBlock": SV(fresh("cls_PyTryBlock"), model="PyTryBlock", name="PyTryBlock"),
                             "PyTryBlock.from_address": m_from_address, "ctypes.sizeof": m_sizeof, "len": m_len,
                             "FrameDetails.FinallyBlock": ctor_block})
    ex.unit.props.update({("ctryblock", "b_type"): fld(btype), ("ctryblock", "b_handler"): fld(bhandler), ("ctryblock", "b_level"): fld(blevel),
                          ("code", "co_code"): lambda ex_, p_, o: [("ok", p_, SV(fresh("co_code"), ty="bytes", co_code=True))]})
    ex.unit.methods[("opmap", "__getitem__")] = lambda ex_, p_, args, kw, node: [("ok", p_, sv_int(SETUP_FINALLY))] \
        if args[1].get("pyconst") == "SETUP_FINALLY" else (_ for _ in ()).throw(Unsupported("dis.opmap key"))
    ex.unit.bindings["dis.opmap"] = SV(fresh("opmap"), ty="opmap")
    ex.unit_args = dict(frame=frame, details=details, blocks=blocks, B0=B0, n=n, G=G, HB=HB)
    return ex.unit_args


def block_matches(H, e, i, mult):
    return And(is_kind(e, "FinallyBlock"), Val.i(H.getf(e, "handler")) == bhandler(i) * mult, Val.i(H.getf(e, "level")) == blevel(i))


def blocks_inv():
    def k_of(ctx):
        a = ctx.ex.unit_args
        return (Val.i(ctx.v("blockstack_offset")) - a["B0"]) / 12

    def qf(ctx):
        a = ctx.ex.unit_args
        off = Val.i(ctx.v("blockstack_offset"))
        H = ctx.H
        return And(off >= a["B0"], off <= a["B0"] + 12 * a["n"], (off - a["B0"]) % 12 == 0,
                   Val.i(ctx.v("blockstack_end_offset")) == a["B0"] + 12 * a["n"], Val.i(ctx.v("offset_mult")) == 2,
                   H.getf(a["details"], "blocks") == a["blocks"], H.lo_(a["blocks"]) == 0, H.length(a["blocks"]) == cnt(k_of(ctx)),
                   ctx.v("details") == a["details"], ctx.v("frame") == a["frame"].t)

    def defs(ctx):
        k = k_of(ctx)
        return cnt(k + 1) == cnt(k) + If(btype(k) == SETUP_FINALLY, 1, 0)

    def per_index(ctx, pth, i):
        # every SETUP_FINALLY entry i already walked sits at position cnt(i) = the number of such entries before it
        a = ctx.ex.unit_args
        H = ctx.H
        pth.read(a["G"].t, i, H)                         # instantiate the hypothesis at this index
        pos = cnt(i)
        e = pth.read(a["blocks"], pos, H)
        return Implies(And(i >= 0, i < k_of(ctx), btype(i) == SETUP_FINALLY),
                       And(pos >= 0, pos < H.length(a["blocks"]), block_matches(H, e, i, 2),
                           Val.is_ref(e), Val.a(e) < 0, Val.a(e) >= -H.alloc))      # an object made by an EARLIER iteration

    return Inv("C01.blocks310.walk", qf=qf, defs=defs, conts=[lambda p: HOLD["blocks"]],
               foralls=[((lambda p: HOLD["G"]), per_index)], header="blockstack_end_offset",
               var_types={"blockstack_offset": "int"})


def blocks_post(ctx):
    a = ctx.args
    H = ctx.H
    i = fresh_int("ib")
    ctx.p.read(a["G"].t, i, H)
    e = ctx.p.read(a["blocks"], cnt(i), H)
    return And(H.getf(a["details"], "blocks") == a["blocks"], H.length(a["blocks"]) == cnt(a["n"]),
               Implies(And(i >= 0, i < a["n"], btype(i) == SETUP_FINALLY),
                       And(cnt(i) >= 0, cnt(i) < H.length(a["blocks"]), block_matches(H, e, i, 2))))


def blocks_raise_ok(ctx):
    return is_kind(ctx.exc.t, "AssertionError")


HOLD = {}


def _attach_ghost(setup):
    def s2(ex, p):
        a = setup(ex, p)
        HOLD["blocks"] = a["blocks"]
        HOLD["G"] = a["G"].t
        return a
    return s2


BLOCKS_UNIT = Unit("C01.inspect_frame_310.blocks", IF10, _attach_ghost(blocks_setup), body_of=select_blocks, cfg=PY310_CFG,
                   post=[Clause("C01.blocks310.exactly_the_finally_entries_in_order", blocks_post, on=("normal",))],
                   invariants={(IF10, "while#1"): blocks_inv()},
                   allowed_raise=blocks_raise_ok,
                   bindings=dict(EXTRACT_BINDINGS) if "EXTRACT_BINDINGS" in globals() else {}, methods=dict(STD_METHODS), props={},
                   known_classes=["FrameDetails", "FinallyBlock", "ctryblock", "frame", "code"],
                   assumptions=["raw memory of the frame object is one consistent snapshot during the call (uninterpreted functions of the "
                                "entry index); ctypes reads themselves are not modelled (memory safety is an assumption)",
                                "extraction: see select_blocks - the struct sanity asserts and the offset computation are replaced by their "
                                "established facts (0 <= f_iblock <= 20, entries 12 bytes apart)",
                                "ghost C01.finally_blocks_before is introduced by its defining equations (count of SETUP_FINALLY entries)"])


# ------------------------------------------------------------------------------------------------ the value stack
obj_at = Function("PyObject*_at_address", IntSort(), Val)       # what ctypes.cast(address, py_object).value denotes
referents_of = Function("gc.get_referents", Val, Val)


def select_stack(fi):
    """the final `if frame_raw.f_stacktop == 0: ... else: ...` statement.  Dropped: everything before it - here the raw stack is an
    arbitrary list of ints (slot addresses, 0 for NULL), details.blocks an arbitrary list of FinallyBlock records with int levels
    (unit C01.inspect_frame_310.blocks), f_stacktop an arbitrary int."""
    cands = [st for st in fi.node.body if isinstance(st, ast.If) and "f_stacktop" in ast.unparse(st.test) and "details.stack" in ast.unparse(st)]
    if len(cands) != 1:
        raise KeyError("contract anchor lost: the running / suspended split at the end of the 3.10 inspect_frame not found")
    return cands


def stack_setup(ex, p):
    frame = sym_ref(p, "frame", "frame")
    raw = SV(fresh("frame_raw"), ty="craw310")
    stacktop = fresh_int("f_stacktop")
    details = sym_ref(p, "details", "FrameDetails")
    blocks = sym_seq(p, "blocks", "list")
    stack = sym_seq(p, "stack", "list")
    p.setf(details.t, "blocks", blocks.t)
    H0 = p.snap()
    p.pc += [H0.lo_(blocks.t) == 0, H0.lo_(stack.t) == 0, details.t != frame.t, blocks.t != stack.t]
    p.add_schema(blocks.t, lambda pth, j: Implies(And(j >= 0, j < H0.length(blocks.t)),
                                                  And(is_kind(H0.raw(blocks.t, j), "FinallyBlock"), Val.a(H0.raw(blocks.t, j)) >= 0,
                                                      Val.is_intv(H0.getf(H0.raw(blocks.t, j), "level")),
                                                      Val.i(H0.getf(H0.raw(blocks.t, j), "level")) >= 0)))
    p.add_schema(stack.t, lambda pth, j: Implies(And(j >= 0, j < H0.length(stack.t)), Val.is_intv(H0.raw(stack.t, j))))
    refs = referents_of(frame.t)
    p.env.update(frame=frame, frame_raw=raw, details=details, stack=stack)

    def m_cast(ex_, p_, args, kw, node):
        return [("ok", p_, SV(fresh("pyobj"), ty="cpyobj", addr=Val.i(args[0].t)))]

    def prop_value(ex_, p_, o):
        v = obj_at(o.get("addr"))
        p_.pc.append(Implies(Val.is_ref(v), Val.a(v) >= 0))
        return [("ok", p_, SV(v))]

    def m_referents(ex_, p_, args, kw, node):
        if len(args) != 1 or args[0].t is not frame.t:
            raise Unsupported("gc.get_referents of something else than the frame")
        p_.pc += [is_exact_kind(refs, "list"), Val.a(refs) >= 0, H0.length(refs) >= 0, H0.lo_(refs) == 0]
        return [("ok", p_, SV(refs, ty="list"))]

    ex.unit.bindings.update({"ctypes.cast": m_cast, "ctypes.py_object": SV(fresh("py_object"), model="py_object", name="py_object"),
                             "gc.get_referents": m_referents})
    ex.unit.props.update({("craw310", "f_stacktop"): lambda ex_, p_, o: [("ok", p_, sv_int(stacktop))], ("cpyobj", "value"): prop_value})
    ex.unit_args = dict(frame=frame, details=details, blocks=blocks, stack=stack, stacktop=stacktop, refs=refs, H0=H0)
    return ex.unit_args


def stack_post(ctx):
    a = ctx.args
    H, H0 = ctx.H, a["H0"]
    d = a["details"].t
    out = H.getf(d, "stack")
    n0 = H0.length(a["stack"].t)
    nb = H0.length(a["blocks"].t)
    j, b, q = fresh_int("js"), fresh_int("jb"), fresh_int("jr")
    slot = H0.raw(a["stack"].t, j)                       # the raw slot as it was (the running branch trims the list in place)
    ctx.p.read(a["stack"].t, j, H0)
    lvl = Val.i(H0.getf(ctx.p.read(a["blocks"].t, b, H0), "level"))
    e = ctx.p.read(out, H.lo_(out) + j, H)
    running = a["stacktop"] == 0
    m = H.length(out)
    bx = z3.Int("bx")
    def some_level_is(x):
        return z3.Exists([bx], And(bx >= 0, bx < nb, Val.i(H0.getf(H0.raw(a["blocks"].t, bx), "level")) == x))
    # running frame: the result is the raw stack cut to the deepest level a recorded block needs (0 without blocks) - nothing above
    # it is turned into a reference - and slot j is None for NULL, else the object at that address
    run_ok = And(Implies(nb == 0, m == 0),
                 Implies(And(b >= 0, b < nb), Or(m >= lvl, m == n0)),            # deep enough for every block (or the whole stack)
                 m <= n0,
                 Implies(And(nb > 0, m < n0), some_level_is(m)),                  # and not deeper than the deepest one
                 Implies(And(j >= 0, j < m), e == If(Val.i(slot) == 0, NONE, obj_at(Val.i(slot)))))
    # suspended frame: every slot is looked up among the frame's gc referents by address; no referent at that address: None
    r = ctx.p.read(a["refs"], H0.lo_(a["refs"]) + q, H0)
    sus_ok = And(m == n0,
                 Implies(And(j >= 0, j < m, q >= 0, q < H0.length(a["refs"]), id_term(r) == Val.i(slot)), e == r),
                 Implies(And(j >= 0, j < m, Not(Val.is_none(e))), id_term(e) == Val.i(slot)))
    return And(Implies(running, run_ok), Implies(Not(running), sus_ok))


def id_term(v):
    from pyvc.values import id_of
    return If(Val.is_ref(v), Val.a(v), id_of(v))


STACK_UNIT = Unit("C02.inspect_frame_310.stack", IF10, stack_setup, body_of=select_stack, cfg=PY310_CFG,
                  post=[Clause("C02.stack310.running_cut_to_deepest_block_level_suspended_through_referents", stack_post, on=("normal",))],
                  allowed_raise=lambda ctx: BoolVal(False),
                  bindings=dict(EXTRACT_BINDINGS) if "EXTRACT_BINDINGS" in globals() else {}, methods=dict(STD_METHODS), props={},
                  known_classes=["FrameDetails", "FinallyBlock", "frame", "code"], field_types={"blocks": "list", "stack": "list"},
                  options=dict(iter_any_seq=True),
                  assumptions=["ctypes.cast(address, py_object).value is the object at that address (uninterpreted function of the address); "
                               "gc.get_referents(frame) is some list of objects; id() is injective on live objects",
                               "extraction: see select_stack"])

UNITS = [BLOCKS_UNIT, STACK_UNIT]


# ------------------------------------------------------------------------------------------------ FrameObjectStart.f_stacktop (3.10)
# 3.10 replaced the frame's stack-top POINTER by a depth COUNT; the property papers over it: 0 (the "frame is executing" marker the
# reader tests for) exactly when the depth is -1, else the address f_valuestack + depth * wordsize.
def st310_setup(ex, p):
    self = sym_ref(p, "self", "FrameObjectStart")
    W = fresh_int("wordsize")
    p.pc += [Val.is_intv(p.getf(self.t, "f_stackdepth")), Val.is_intv(p.getf(self.t, "f_valuestack")), W > 0,
             Val.i(p.getf(self.t, "f_stackdepth")) >= -1, Val.i(p.getf(self.t, "f_valuestack")) > 0]
    p.env["self"] = self
    ex.unit.bindings["wordsize"] = sv_int(W)
    ex.unit_args = dict(self=self, W=W)
    return ex.unit_args


def st310_post(ctx):
    s_ = ctx.args["self"].t
    d, vs = Val.i(ctx.H0.getf(s_, "f_stackdepth")), Val.i(ctx.H0.getf(s_, "f_valuestack"))
    r = Val.i(ctx.result.t)
    return And(Val.is_intv(ctx.result.t), r == If(d == -1, 0, vs + d * ctx.args["W"]),
               # ... so the marker value 0 is returned ONLY for an executing frame (an address is never 0)
               (r == 0) == (d == -1))


STACKTOP_310 = Unit("C02.frame_object_310.f_stacktop", "stackscope._lowlevel_cpython_310.FrameObjectStart.f_stacktop", st310_setup,
                    post=[Clause("C02.stack310.stacktop_is_zero_iff_executing_else_address_of_depth", st310_post)],
                    bindings=dict(STD_BINDINGS), methods=dict(STD_METHODS), known_classes=["FrameObjectStart"], cfg=PY310_CFG if "PY310_CFG" in globals() else dict(version=(3, 10, 13, "final", 0)),
                    field_types={"f_stackdepth": "int", "f_valuestack": "int"}, allowed_raise=lambda ctx: BoolVal(False),
                    assumptions=["ctypes structure fields read as plain ints; wordsize > 0; f_valuestack is a non-null address and f_stackdepth >= -1 (CPython 3.10 frame layout)"])
UNITS = UNITS + [STACKTOP_310]
