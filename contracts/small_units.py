"""Small helper functions under contract (C10.iter, C03.lineno)."""
from .extract_env import *  # noqa
import ast
from pyvc import source

CU = "stackscope._customization."
register_class("inner_iter")


def fi_setup(ex, p):
    self = sym_ref(p, "self", "FrameIterator")
    inner = sym_ref(p, "inner", "inner_iter")
    p.setf(self.t, "inner", inner.t)
    p.env["self"] = self
    return dict(self=self, inner=inner)


def fi_post(ctx):
    calls = [t for t in ctx.p.trace if t[0] == "inner.__next__"]
    return And(BoolVal(len(calls) == 1), calls[0][1][0] == ctx.args["inner"].t, ctx.result.t == calls[0][2][1]) if calls else BoolVal(False)


def wrapper_shape(ctx):
    """yields_frames.wrapper returns FrameIterator(fn(*args, **kwargs)): syntactic obligation (star/double-star call)"""
    fi = source.get_func(CU + "yields_frames.wrapper")
    body = [st for st in fi.node.body if not (isinstance(st, ast.Expr) and isinstance(st.value, ast.Constant))]
    ok = len(body) == 1 and isinstance(body[0], ast.Return) and \
        ast.unparse(body[0].value).replace(" ", "") == "FrameIterator(fn(*args,**kwargs))"
    return BoolVal(ok)


def pi_setup(ex, p):
    self = sym_ref(p, "self", "Frame")
    p.pc.append(Val.is_intv(p.getf(self.t, "lineno")))
    p.pc.append(is_kind(p.getf(self.t, "pyframe"), "frame"))       # annotated `pyframe: types.FrameType`
    p.env["self"] = self
    return dict(self=self)


def pi_post(ctx):
    s_ = ctx.args["self"].t
    ln0 = ctx.H0.getf(s_, "lineno")
    return ctx.H.getf(s_, "lineno") == If(ln0 == mkint(-1), ctx.H0.getf(ctx.H0.getf(s_, "pyframe"), "f_lineno"), ln0)


UNITS_C10 = [
    Unit("C10.frame_iterator_next", CU + "FrameIterator.__next__", fi_setup,
         post=[Clause("C10.iter.next_is_inner_next", fi_post), Clause("C10.iter.yields_frames_wraps_result", wrapper_shape)],
         bindings=dict(EXTRACT_BINDINGS), methods={**STD_METHODS, ("inner_iter", "__next__"): oracle("inner.__next__")},
         field_types={"inner": "inner_iter"}, known_classes=KNOWN,
         allowed_raise=lambda ctx: BoolVal(bool(ctx.p.ghost.get("raised")))),
]
UNITS_C03 = [
    Unit("C03.frame_post_init", "stackscope._types.Frame.__post_init__", pi_setup,
         post=[Clause("C03.lineno_captured_at_construction", pi_post)],
         bindings=dict(EXTRACT_BINDINGS), methods=dict(STD_METHODS), known_classes=KNOWN,
         allowed_raise=lambda ctx: BoolVal(False)),
]
UNITS = UNITS_C10 + UNITS_C03
