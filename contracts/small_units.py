"""Small helper functions under contract (C10.iter, C03.lineno)."""
from .extract_env import *  # noqa
import ast
from pyvc import source

CU = "stackscope._customization."
register_class("inner_iter")


def fi_setup(ex, p):
    self = sym_ref(p, "self", "FrameIterator")
    inner = sym_ref(p, "inner", "inner_iter")
    p.setf(self.t, "inner", inner.t)
    p.env["self"] = self
    return dict(self=self, inner=inner)


def fi_post(ctx):
    calls = [t for t in ctx.p.trace if t[0] == "inner.__next__"]
    return And(BoolVal(len(calls) == 1), calls[0][1][0] == ctx.args["inner"].t, ctx.result.t == calls[0][2][1]) if calls else BoolVal(False)


def wrapper_shape(ctx):
    """yields_frames.wrapper returns FrameIterator(fn(*args, **kwargs)): syntactic obligation (star/double-star call)"""
    fi = source.get_func(CU + "yields_frames.wrapper")
    body = [st for st in fi.node.body if not (isinstance(st, ast.Expr) and isinstance(st.value, ast.Constant))]
    ok = len(body) == 1 and isinstance(body[0], ast.Return) and \
        ast.unparse(body[0].value).replace(" ", "") == "FrameIterator(fn(*args,**kwargs))"
    return BoolVal(ok)


def pi_setup(ex, p):
    self = sym_ref(p, "self", "Frame")
    p.pc.append(Val.is_intv(p.getf(self.t, "lineno")))
    p.pc.append(is_kind(p.getf(self.t, "pyframe"), "frame"))       # annotated `pyframe: types.FrameType`
    p.env["self"] = self
    return dict(self=self)


def pi_post(ctx):
    s_ = ctx.args["self"].t
    ln0 = ctx.H0.getf(s_, "lineno")
    return ctx.H.getf(s_, "lineno") == If(ln0 == mkint(-1), ctx.H0.getf(ctx.H0.getf(s_, "pyframe"), "f_lineno"), ln0)


UNITS_C10 = [
    Unit("C10.frame_iterator_next", CU + "FrameIterator.__next__", fi_setup,
         post=[Clause("C10.iter.next_is_inner_next", fi_post), Clause("C10.iter.yields_frames_wraps_result", wrapper_shape)],
         bindings=dict(EXTRACT_BINDINGS), methods={**STD_METHODS, ("inner_iter", "__next__"): oracle("inner.__next__")},
         field_types={"inner": "inner_iter"}, known_classes=KNOWN,
         allowed_raise=lambda ctx: BoolVal(bool(ctx.p.ghost.get("raised")))),
]
UNITS_C03 = [
    Unit("C03.frame_post_init", "stackscope._types.Frame.__post_init__", pi_setup,
         post=[Clause("C03.lineno_captured_at_construction", pi_post)],
         bindings=dict(EXTRACT_BINDINGS), methods=dict(STD_METHODS), known_classes=KNOWN,
         allowed_raise=lambda ctx: BoolVal(False)),
]
UNITS = UNITS_C10 + UNITS_C03


# ------------------------------------------------------------------------------------------------ default hook bodies
# What an item / frame / context gets when NO customisation is registered for it (the fall-back of the singledispatch and
# code_dispatch functions): nothing is unwrapped (C03/C10: the item is a leaf), nothing is elaborated (C11: the context stays as
# it is), and the only default elaboration of a frame is the __tracebackhide__ convention.
def hook_setup(names):
    def setup(ex, p):
        args = {}
        for n in names:
            args[n] = sym_any(p, n)
        p.env.update(args)
        return args
    return setup


def heap_unchanged(ctx):
    """the whole heap after the call equals the heap before it (every field array, every container, every dict, the allocation mark)"""
    H, H0 = ctx.H, ctx.H0
    names = sorted(set(H.fields) | set(H0.fields))
    return And(H.alloc == H0.alloc, H.lo == H0.lo, H.hi == H0.hi, H.el == H0.el, H.dk == H0.dk, H.dv == H0.dv, H.dn == H0.dn,
               *[H.field(n) == H0.field(n) for n in names])


def ef_setup(ex, p):
    frame = sym_ref(p, "frame", "Frame")
    pyframe = sym_ref(p, "pyframe", "frame")
    loc = sym_ref(p, "f_locals", "dict")
    p.setf(frame.t, "pyframe", pyframe.t)
    p.setf(pyframe.t, "f_locals", loc.t)
    nxt = sym_any(p, "next_inner")
    p.env.update(frame=frame, next_inner=nxt)
    ex.unit_args = dict(frame=frame, loc=loc, H0=p.snap())
    return ex.unit_args


def ef_post(ctx):
    f = ctx.args["frame"].t
    H, H0 = ctx.H, ctx.H0
    names = sorted((set(H.fields) | set(H0.fields)) - {"hide"})
    hide_arr = z3.Store(H0.field("hide"), Val.a(f), H.getf(f, "hide"))
    return And(Val.is_none(ctx.result.t),
               # frame: the only write is frame.hide, and it can only become True
               H.alloc == H0.alloc, H.lo == H0.lo, H.hi == H0.hi, H.el == H0.el, H.dk == H0.dk, H.dv == H0.dv, H.dn == H0.dn,
               *[H.field(n) == H0.field(n) for n in names], H.field("hide") == hide_arr,
               Or(H.getf(f, "hide") == H0.getf(f, "hide"), H.getf(f, "hide") == mkbool(True)))


def ef_hidden_iff_marker(ctx):
    """the frame is hidden by default exactly when its locals contain __tracebackhide__ (else its hide flag is left alone)"""
    f, loc = ctx.args["frame"].t, ctx.args["loc"].t
    marked = ctx.p.ghost.get("tracebackhide_test")
    if marked is None:
        return BoolVal(False)
    return ctx.H.getf(f, "hide") == If(marked, mkbool(True), ctx.H0.getf(f, "hide"))


def m_locals_contains(ex, p, container, item):
    if item.get("pyconst") != "__tracebackhide__":
        raise Unsupported("membership test on f_locals with another key")
    b = z3.Bool("locals_has___tracebackhide__")
    p.ghost["tracebackhide_test"] = b
    return b


def default_hook(unit, func, names):
    return Unit(unit, CU + func, hook_setup(names),
                post=[Clause(unit + ".returns_none_and_writes_nothing", lambda ctx: And(Val.is_none(ctx.result.t), heap_unchanged(ctx)))],
                bindings=dict(EXTRACT_BINDINGS), methods=dict(STD_METHODS), known_classes=KNOWN, allowed_raise=lambda ctx: BoolVal(False))


UNITS_DEFAULTS = [
    default_hook("C10.default.unwrap_stackitem", "unwrap_stackitem", ["item"]),
    default_hook("C11.default.unwrap_context", "unwrap_context", ["manager", "context"]),
    default_hook("C11.default.unwrap_context_generator", "unwrap_context_generator", ["frame", "context"]),
    default_hook("C11.default.elaborate_context", "elaborate_context", ["manager", "context"]),
    Unit("C10.default.elaborate_frame", CU + "elaborate_frame", ef_setup,
         post=[Clause("C10.default.elaborate_frame.returns_none_and_only_sets_hide", ef_post),
               Clause("C10.default.elaborate_frame.hidden_iff_tracebackhide_local", ef_hidden_iff_marker)],
         bindings=dict(EXTRACT_BINDINGS), methods={**STD_METHODS, ("localsdict", "__contains__"): m_locals_contains},
         field_types={"f_locals": "localsdict", "pyframe": "frame"}, known_classes=KNOWN, allowed_raise=lambda ctx: BoolVal(False),
         assumptions=["frame.pyframe.f_locals is a mapping whose membership test is pure (CPython builds a dict snapshot)"]),
]
UNITS = UNITS_C10 + UNITS_C03 + UNITS_DEFAULTS
