"""C16 — Frame.origin / better_origin (first unit; also the engine smoke test)."""
from .common import *  # noqa


def setup_better_origin(ex, p):
    cand = sym_any(p, "candidate")
    fb = sym_any(p, "fallback")
    p.env.update(candidate=cand, fallback=fb)
    return dict(candidate=cand, fallback=fb)


def post_better_origin(ctx):
    c, f = ctx.args["candidate"].t, ctx.args["fallback"].t
    want = If(And(weakrefable(c), Or(genlike(c), Not(genlike(f)))), c, f)
    return ctx.result.t == want


UNITS = [
    Unit("C16.better_origin", "stackscope._extract.better_origin", setup_better_origin,
         post=[Clause("C16.better_origin.result", post_better_origin),
               Clause("C16.better_origin.pure", lambda ctx: And(ctx.H.alloc >= ctx.H0.alloc))],
         bindings=dict(STD_BINDINGS), methods=dict(STD_METHODS),
         assumptions=["weakref.ref(o) raises TypeError iff type(o) is not weak-referenceable, and nothing else"]),
]
