"""extract_iter under contract — serves C05 (containment, error ledger), C10 (step refinement of the documented rules,
100-step guard), C16 (origin), C03 (queue discipline).  The whole real function body is executed symbolically from its
entry; all eight loops are cut by the invariants below (loop ordinals are assigned from the AST):
   while#1 outer | while#2 unwrap loop | while#3 FrameIterator drain | for#1 push children | for#2 fill contexts
   while#4 move to_elaborate back | while#5 drop by depth | for#3 push replacement items
"""
from .extract_env import *  # noqa
from .c13 import fields_now
from .c11 import contract_fill_context

EI = EX + "extract_iter"
GEN3 = ["coroutine", "generator", "async_generator"]


def bo_term(c, f):
    """contract of better_origin (unit C16.better_origin)"""
    return If(And(weakrefable(c), Or(genlike(c), Not(genlike(f)))), c, f)


def contract_better_origin(ex, p, args, kwargs, node):
    if kwargs or len(args) != 2:
        raise Unsupported("better_origin call shape")
    return [("ok", p, SV(bo_term(args[0].t, args[1].t)))]


def noop(ex, p, args, kwargs, node):
    return [("ok", p, NONE_SV)]


# ------------------------------------------------------------------------------------------------ hooks (oracles)
def raised_note(res, p_before):
    return res


def not_private(pa, r):
    """hook results never alias the extraction's private error list"""
    return r != pa.env["save_errors"].t


def hook_unwrap(ex, p, args, kwargs, node):
    # unwrap_stackitem(current): any value (None, item, Sequence of items, FrameIterator) or any Exception.
    # Precondition of C05 (stated in the evidence): Sequence results are builtin tuples/lists.
    def post(pa, r, a):
        return And(Not(is_kind(r, ["deque", "str", "bytes", "range", "UserSequence"])), not_private(pa, r),
                   Implies(is_kind(r, ["tuple", "list"]), pa.length(r) >= 0))
    return oracle("unwrap_stackitem", post=[post])(ex, p, args, kwargs, node)


def hook_fi_next(ex, p, args, kwargs, node):
    """FrameIterator.__next__ == next(self.inner) (unit C10.frame_iterator): an item, StopIteration (exhausted: not a
       fault), or any other Exception (a fault, to be recorded)"""
    res = []
    for st, p1, v in oracle("FrameIterator.__next__", post=[lambda pa, r, a: not_private(pa, r)])(ex, p, args, kwargs, node):
        if st == "ok":
            res.append((st, p1, v))
            continue
        stop, fault = ex.fork(p1, is_kind(v.t, "StopIteration"))
        if stop is not None:
            stop.ghost["raised"] = tuple(x for x in stop.ghost.get("raised", ()) if not x.eq(v.t))
            res.append(("raise", stop, SV(v.t, ty="StopIteration", site="iterator exhausted")))
        if fault is not None:
            res.append(("raise", fault, v))
    return res


def hook_contexts(ex, p, args, kwargs, node):
    def post(pa, r, a):
        return And(is_exact_kind(r, "list"), pa.length(r) >= 0, not_private(pa, r))
    return oracle("contexts_active_in_frame", post=[post], ret_ty="list")(ex, p, args, kwargs, node)


def hook_fill(ex, p, args, kwargs, node):
    return oracle("fill_context", havoc_fields=(), record=True)(ex, p, args, kwargs, node)


def hook_elaborate(ex, p, args, kwargs, node):
    def post(pa, r, a):
        return And(Not(is_kind(r, ["deque", "str", "bytes", "range", "UserSequence"])), not_private(pa, r),
                   Implies(is_kind(r, ["tuple", "list"]), pa.length(r) >= 0))
    return oracle("elaborate_frame", havoc_fields=("hide", "hide_line", "contexts"), post=[post])(ex, p, args, kwargs, node)


# ------------------------------------------------------------------------------------------------ C16: Frame.origin
from pyvc.calls import hasattr_fn


def own_frame(H, o):
    return If(is_kind(o, "generator"), H.getf(o, "gi_frame"), If(is_kind(o, "coroutine"), H.getf(o, "cr_frame"),
                                                                 If(is_kind(o, "async_generator"), H.getf(o, "ag_frame"), NONE)))


def genlike_attrs(H, o):
    """CPython object model (assumed): which of gi_frame / cr_frame / ag_frame each generator-like type has; the attribute
       holds a frame object (truthy) or None"""
    conj = []
    for kindname, attr in (("generator", "gi_frame"), ("coroutine", "cr_frame"), ("async_generator", "ag_frame")):
        conj.append(Implies(genlike(o), hasattr_fn(attr)(o) == is_kind(o, kindname)))
        f = H.getf(o, attr)
        conj.append(Implies(is_kind(o, kindname), Or(Val.is_none(f), And(is_kind(f, "frame"), truthy_ref(Val.a(f))))))
    return And(conj)


def before_stmt(ex, n, p):
    # instantiate the object-model facts for `origin` where the repaired code inspects it
    if isinstance(n, ast.If) and ast.unparse(n.test).startswith("isinstance(current, types.FrameType)") and "origin" in p.env:
        p.env["$origin_before"] = p.env["origin"]
        p.pc.append(genlike_attrs(p.h, p.env["origin"].t))


def ctor_frame_checked(ex, p, args, kwargs, node):
    res = ctor_frame(ex, p, args, kwargs, node)
    for st, p1, fr in res:
        if st == "ok":
            o = p1.getf(fr.t, "origin")
            pf = p1.getf(fr.t, "pyframe")
            # C16: a non-None origin is a generator-like object whose own frame IS this frame, hence (C03 unwrappers)
            # extract_outermost(origin).pyframe is this frame
            ex.oblig("C16.origin_recovers_frame", "clause", p1,
                     Implies(o != NONE, And(genlike(o), own_frame(p1.h, o) == pf, pf != NONE)))
            # ... and the generator-like origin that came with its own frame is kept (not dropped)
            oin = p1.env.get("$origin_before")
            if oin is not None:
                ex.oblig("C16.own_frame_keeps_origin", "clause", p1,
                         Implies(And(genlike(oin.t), own_frame(p1.h, oin.t) == pf), o == oin.t))
    return res


import ast  # noqa: E402

# ------------------------------------------------------------------------------------------------ setup
def ei_setup(ex, p):
    co = options_setup(p)
    p.pc += [Val.is_boolv(p.getf(co.t, "with_contexts")), Val.is_boolv(p.getf(co.t, "recurse_child_tasks"))]
    item = sym_any(p, "stackitem")
    S = sym_seq(p, "save_errors", "list")
    p.env.update(stackitem=item, save_errors=S)
    ex.unit.bindings["current_options"] = co
    prune = ex.make_tuple(p, [])
    ex.unit.bindings["PRUNE"] = prune
    p.ghost["raised"] = ()
    return dict(co=co, stackitem=item, save_errors=S, PRUNE=prune)


# ------------------------------------------------------------------------------------------------ invariants
def E_(ctx):
    return ctx.v("to_elaborate")


def U_(ctx):
    return ctx.v("to_unwrap")


def S_(ctx):
    return ctx.v("save_errors")


def alloc_ok(H, v):
    return Implies(Val.is_ref(v), Val.a(v) >= -H.alloc)


def shape_E(H, e):
    return And(is_exact_kind(e, "tuple"), H.length(e) == 2, Val.a(e) >= -H.alloc, Val.is_intv(H.at(e, 1)), Val.i(H.at(e, 1)) >= 0,
               alloc_ok(H, H.at(e, 0)))


def shape_U(H, e):
    return And(is_exact_kind(e, "tuple"), H.length(e) == 3, Val.a(e) >= -H.alloc, Val.is_intv(H.at(e, 2)), Val.i(H.at(e, 2)) >= 0,
               alloc_ok(H, H.at(e, 0)), alloc_ok(H, H.at(e, 1)),
               # C16: a weak-referenceable generator-like item is its own origin unless origin tracking was dropped (None)
               Implies(And(H.at(e, 0) != NONE, genlike(H.at(e, 1)), weakrefable(H.at(e, 1))), H.at(e, 0) == H.at(e, 1)))


def fa_E(ctx, pth, j):
    E = E_(ctx)
    return Implies(And(j >= ctx.H.lo_(E), j < ctx.H.hi_(E)), shape_E(ctx.H, pth.read(E, j, ctx.H)))


def fa_U(ctx, pth, j):
    U = U_(ctx)
    return Implies(And(j >= ctx.H.lo_(U), j < ctx.H.hi_(U)), shape_U(ctx.H, pth.read(U, j, ctx.H)))


def fa_S(ctx, pth, j):
    S = S_(ctx)
    return And(Implies(And(j >= ctx.H0.lo_(S), j < ctx.H0.hi_(S)), pth.read(S, j, ctx.H) == pth.read(S, j, ctx.H0)))


def base_qf(ctx):
    E, U, S = E_(ctx), U_(ctx), S_(ctx)
    H, H0 = ctx.H, ctx.H0
    co = ctx.ex.unit.bindings["current_options"].t
    return And(H.length(E) >= 0, H.length(U) >= 0, H.lo_(S) == H0.lo_(S), H.hi_(S) >= H0.hi_(S),
               E == ctx.v0("to_elaborate"), U == ctx.v0("to_unwrap"), S == ctx.v0("save_errors"),
               is_exact_kind(E, "deque"), is_exact_kind(U, "deque"), Val.a(E) < 0, Val.a(U) < 0, Val.a(E) != Val.a(U),
               H.getf(co, "with_contexts") == H0.getf(co, "with_contexts"),
               H.getf(co, "recurse_child_tasks") == H0.getf(co, "recurse_child_tasks"))


def reset_raised(ctx):
    ctx.p.ghost["raised"] = ()
    ctx.p.ghost["S_len_at_cut"] = ctx.p.snap().length(S_(ctx))


def ledger_step(ctx):
    """C05 error ledger: between two cuts, save_errors grew by exactly the exceptions hooks raised, in order"""
    S = S_(ctx)
    raised = ctx.p.ghost.get("raised", ())
    n0 = ctx.p.ghost.get("S_len_at_cut")
    if n0 is None:
        return None
    conj = [ctx.H.length(S) == n0 + len(raised)]
    for i, e in enumerate(raised):
        conj.append(ctx.H.at(S, n0 + i) == e)
    return And(conj)


# ------------------------------------------------------------------------------------------------ C10 step refinement
def q_at(pth, H, E, U, k):
    """k-th entry (item, depth) of the abstract queue E ++ U in heap H"""
    nE = H.length(E)
    eE = pth.read(E, H.lo_(E) + k, H)
    eU = pth.read(U, H.lo_(U) + (k - nE), H)
    return (If(k < nE, H.at(eE, 0), H.at(eU, 1)), If(k < nE, Val.i(H.at(eE, 1)), Val.i(H.at(eU, 2))))


def step_common(ctx):
    g = ctx.p.ghost.get("exit:while#2")
    if g is None:
        return None
    Hpre, envpre = g
    return Hpre, envpre, ctx.v("to_elaborate"), ctx.v("to_unwrap")


def step_yield(ctx):
    """each outer iteration that reaches the elaborate phase yields exactly the frame at the head of the queue"""
    sc = step_common(ctx)
    if sc is None:
        return None
    Hpre, envpre, E, U = sc
    ys = ctx.p.yielded
    if len(ys) != 1:
        return BoolVal(False)
    head = ctx.p.read(E, Hpre.lo_(E), Hpre)
    return And(ys[0].t == Hpre.at(head, 0), is_kind(ys[0].t, "Frame"), ys[0].t == ctx.v("frame"),
               Val.i(ctx.p.ghost["depth_at_yield"]) == Val.i(Hpre.at(head, 1)))


def repl_view(ctx):
    r = ctx.v("replacement")
    H = ctx.H
    is_seq = is_kind(r, ["tuple", "list"])
    n = If(is_seq, H.length(r), 1)
    at = lambda i: If(is_seq, ctx.p.elem(r, i, H), r)
    nxt = ctx.v("next_inner")
    insert = And(n > 0, at(n - 1) == nxt)
    return r, is_seq, n, at, insert


def step_none(ctx):
    """elaborate_frame returned None: the rest of the queue is kept as it is"""
    sc = step_common(ctx)
    if sc is None:
        return None
    Hpre, envpre, E, U = sc
    H = ctx.H
    r = ctx.v("replacement")
    a, b = Val.a(E), Val.a(U)
    return Implies(Val.is_none(r), And(H.lo_(E) == Hpre.lo_(E) + 1, H.hi_(E) == Hpre.hi_(E), Select(H.el, a) == Select(Hpre.el, a),
                                       H.lo_(U) == Hpre.lo_(U), H.hi_(U) == Hpre.hi_(U), Select(H.el, b) == Select(Hpre.el, b)))


def step_move(ctx):
    """after the move loop the unwrap queue holds exactly the old rest of the abstract queue, in order"""
    sc = step_common(ctx)
    gm = ctx.p.ghost.get("exit:while#4")
    if sc is None or gm is None:
        return None
    Hpre, envpre, E, U = sc
    Hm = gm[0]
    kq = fresh_int("kq")
    nQ0 = Hpre.length(E) - 1 + Hpre.length(U)
    it0, d0 = q_at(ctx.p, Hpre, E, U, kq + 1)
    em = ctx.p.read(U, Hm.lo_(U) + kq, Hm)
    return And(Hm.length(E) == 0, Hm.length(U) == nQ0,
               Implies(And(kq >= 0, kq < nQ0), And(Hm.at(em, 1) == it0, Val.i(Hm.at(em, 2)) == d0)))


def step_drop(ctx):
    """replace form: what is removed is exactly the longest prefix of the rest whose depth is >= the frame's depth
       (the frame's callees and nothing outward of them)"""
    gm, gd = ctx.p.ghost.get("exit:while#4"), ctx.p.ghost.get("exit:while#5")
    if gm is None or gd is None:
        return None
    Hm, Hd = gm[0], gd[0]
    U = ctx.v("to_unwrap")
    d = Val.i(ctx.p.ghost["depth_at_yield"])
    c = Hd.lo_(U) - Hm.lo_(U)
    j = fresh_int("jd")
    ej = ctx.p.read(U, Hm.lo_(U) + j, Hm)
    ec = ctx.p.read(U, Hm.lo_(U) + c, Hm)
    return And(c >= 0, c <= Hm.length(U), Hd.hi_(U) == Hm.hi_(U), Select(Hd.el, Val.a(U)) == Select(Hm.el, Val.a(U)),
               Implies(And(j >= 0, j < c), Val.i(Hm.at(ej, 2)) >= d),
               Or(c == Hm.length(U), Val.i(Hm.at(ec, 2)) < d))


def step_push(ctx):
    """the new head of the queue is the replacement items at the frame's depth (all but the trailing next_inner in the
       insert form), followed by the kept rest"""
    gm = ctx.p.ghost.get("exit:while#4")
    if gm is None:
        return None
    Hm = gm[0]
    gd = ctx.p.ghost.get("exit:while#5")
    Hb = gd[0] if gd is not None else Hm           # queue before pushing: after the drop (replace) or after the move (insert)
    U = ctx.v("to_unwrap")
    H = ctx.H
    r, is_seq, n, at, insert = repl_view(ctx)
    npush = If(insert, n - 1, n)
    kq = fresh_int("kp")
    e1 = ctx.p.read(U, H.lo_(U) + kq, H)
    eb = ctx.p.read(U, Hb.lo_(U) + (kq - npush), Hb)
    ctx.p.elem(ctx.v("items"), kq, H)            # instantiate the schema of `items` (a slice in the insert form) at kq
    form_ok = BoolVal(gd is None) == insert      # the drop loop runs iff this is NOT the insert form
    d0 = Val.i(ctx.p.ghost["depth_at_yield"])          # the elaborated frame's own depth
    dpush = Val.i(ctx.v("depth"))
    nxt_e = ctx.p.read(U, Hb.lo_(U), Hb)
    # replace form: items take the frame's depth.  insert form: the inserted items are inward of this frame only - they get a
    # depth beyond both the frame's and next_inner's, so a prune/replace issued from them stops at next_inner, and
    # next_inner (still the first entry of the kept rest) keeps its own depth
    depth_rule = If(insert, And(dpush >= d0, Implies(Hb.length(U) > 0, dpush > Val.i(Hb.at(nxt_e, 2)))), dpush == d0)
    return And(form_ok, depth_rule, H.length(U) == npush + Hb.length(U), H.length(ctx.v("to_elaborate")) == 0,
               Implies(And(kq >= 0, kq < npush), And(H.at(e1, 1) == at(kq), H.at(e1, 2) == ctx.v("depth"))),
               Implies(And(kq >= npush, kq < npush + Hb.length(U)), e1 == eb))


def step_elab_fail(ctx):
    """elaborate_frame raised: the frame is kept and un-hidden, the rest of its callees pruned"""
    if not any(t[0] == "elaborate_frame" and t[2][0] == "exc" for t in ctx.p.trace):
        return None
    return And(ctx.H.getf(ctx.v("frame"), "hide") == mkbool(False), ctx.v("replacement") == ctx.ex.unit.bindings["PRUNE"].t)


def step_no_contexts(ctx):
    """C13: with_contexts False => context analysis and fill_context are not called, contexts left alone"""
    sc = step_common(ctx)
    if sc is None:
        return None
    co = ctx.ex.unit.bindings["current_options"].t
    wc = ctx.H.getf(co, "with_contexts")
    called = any(t[0] in ("contexts_active_in_frame", "fill_context") for t in ctx.p.trace)
    return Implies(wc == mkbool(False), BoolVal(not called))


C10_STEPS = [("C10.step.yields_head_frame", step_yield), ("C10.step.none", step_none), ("C10.step.move", step_move),
             ("C10.step.drop_is_dropwhile_by_depth", step_drop), ("C10.step.push", step_push),
             ("C05.elaborate_failure_keeps_frame", step_elab_fail), ("C13.no_contexts_when_disabled", step_no_contexts)]


OUTER = Inv("C05.I_out", header="to_unwrap or to_elaborate", qf=base_qf, foralls=[("to_elaborate", fa_E), ("to_unwrap", fa_U), ("save_errors", fa_S)],
            conts=["to_elaborate", "to_unwrap", "save_errors"], ghost_havoc=reset_raised,
            fields=[("hide", None), ("hide_line", None), ("contexts", None)],
            steps=[("C05.ledger.outer_iteration", ledger_step)] + C10_STEPS)


def inner_qf(ctx):
    lsp = ctx.v("loops_since_progress")
    return And(base_qf(ctx), Val.is_intv(lsp), Val.i(lsp) >= 0, Val.i(lsp) <= 100)     # C10.guard


def unwrap_step(ctx):
    """C10 unwrap step: one iteration pops the head (origin, current, depth) of the unwrap queue and EITHER appends
       (current-or-its-Frame, depth) to the elaborate queue, leaving the rest of the unwrap queue as it is, OR pushes
       non-None children at depth+1 in front of the rest (exactly one, the result itself, for a non-sequence result)"""
    g = ctx.p.ghost.get("head:while#2")
    if g is None:
        return None
    Hh, envh = g
    E, U = E_(ctx), U_(ctx)
    H = ctx.H
    p = ctx.p
    head = p.read(U, Hh.lo_(U), Hh)
    cur, d = Hh.at(head, 1), Val.i(Hh.at(head, 2))
    dE = H.length(E) - Hh.length(E)
    lastE = p.read(E, H.hi_(E) - 1, H)
    x = H.at(lastE, 0)
    j = fresh_int("ju")
    ej = p.read(U, j, H)
    un = ctx.env.get("unwrapped")
    single = Not(is_kind(un.t, ["tuple", "list"])) if un is not None else BoolVal(False)
    keepE = And(H.lo_(E) == Hh.lo_(E), Implies(And(j >= Hh.lo_(E), j < Hh.hi_(E)), p.read(E, j, H) == p.read(E, j, Hh)))
    rest_same = And(H.hi_(U) == Hh.hi_(U), Implies(And(j >= Hh.lo_(U) + 1, j < Hh.hi_(U)), p.read(U, j, H) == p.read(U, j, Hh)))
    to_E = And(dE == 1, Val.i(H.at(lastE, 1)) == d, H.lo_(U) == Hh.lo_(U) + 1,
               Or(x == cur, And(is_kind(x, "Frame"), H.getf(x, "pyframe") == cur, is_kind(cur, "frame"))))
    push = And(dE == 0, H.lo_(U) <= Hh.lo_(U) + 1,
               Implies(And(j >= H.lo_(U), j < Hh.lo_(U) + 1), And(Val.i(H.at(ej, 2)) == d + 1, H.at(ej, 1) != NONE)),
               Implies(And(single, un.t != NONE if un is not None else BoolVal(False)),
                       And(H.lo_(U) == Hh.lo_(U), H.at(p.read(U, H.lo_(U), H), 1) == un.t)))
    # the guard counts CONSECUTIVE unwrap steps without progress: reaching a frame or an irreducible item resets it
    lsp1, lsp0 = Val.i(ctx.v("loops_since_progress")), Val.i(envh["loops_since_progress"].t)
    guard = ctx.p.ghost.get("raised") and any(True for _ in ctx.p.ghost["raised"])
    counter = And(Implies(dE == 1, lsp1 == 0), Implies(dE == 0, lsp1 == lsp0 + 1))
    return And(keepE, rest_same, Or(to_E, push), counter)


INNER = Inv("C10.I_unwrap", header="to_unwrap and", qf=inner_qf, foralls=[("to_elaborate", fa_E), ("to_unwrap", fa_U), ("save_errors", fa_S)],
            conts=["to_elaborate", "to_unwrap", "save_errors"], var_types={"loops_since_progress": "int"},
            ghost_havoc=reset_raised, steps=[("C05.ledger.unwrap_iteration", ledger_step), ("C10.step.unwrap", unwrap_step)])


def drain_qf(ctx):
    un = ctx.v("unwrapped")
    H = ctx.H
    return And(base_qf(ctx), H.length(E_(ctx)) == ctx.H0.length(E_(ctx)), H.lo_(E_(ctx)) == ctx.H0.lo_(E_(ctx)),
               Select(H.el, Val.a(E_(ctx))) == Select(ctx.H0.el, Val.a(E_(ctx))),
               H.length(U_(ctx)) == ctx.H0.length(U_(ctx)), H.lo_(U_(ctx)) == ctx.H0.lo_(U_(ctx)),
               Select(H.el, Val.a(U_(ctx))) == Select(ctx.H0.el, Val.a(U_(ctx))),
               un == ctx.v0("unwrapped"), is_exact_kind(un, "list"), H.length(un) >= 0, H.lo_(un) == 0,
               ctx.v("it") == ctx.v0("it"))


def fa_un(ctx, pth, j):
    un = ctx.v("unwrapped")
    return Implies(And(j >= 0, j < ctx.H.length(un)), alloc_ok(ctx.H, pth.read(un, j, ctx.H)))


DRAIN = Inv("C10.I_drain", qf=drain_qf, foralls=[("save_errors", fa_S), ("unwrapped", fa_un)],
            conts=["save_errors", "unwrapped"], ghost_havoc=reset_raised,
            steps=[("C05.ledger.drain_iteration", ledger_step)])


def push1_qf(ctx):
    E, U, S = E_(ctx), U_(ctx), S_(ctx)
    H, H0 = ctx.H, ctx.H0
    return And(H.lo_(U) <= H0.lo_(U), H.lo_(U) >= H0.lo_(U) - ctx.k, H.hi_(U) == H0.hi_(U),
               H.length(E) == H0.length(E), H.lo_(E) == H0.lo_(E), Select(H.el, Val.a(E)) == Select(H0.el, Val.a(E)),
               H.length(S) == H0.length(S), H.lo_(S) == H0.lo_(S), Select(H.el, Val.a(S)) == Select(H0.el, Val.a(S)))


def fa_push1_keep(ctx, pth, j):
    U = U_(ctx)
    return Implies(And(j >= ctx.H0.lo_(U), j < ctx.H0.hi_(U)), pth.read(U, j, ctx.H) == pth.read(U, j, ctx.H0))


def fa_push1_new(ctx, pth, j):
    U = U_(ctx)
    H = ctx.H
    e = pth.read(U, j, H)
    d = ctx.env0["depth"].t
    return Implies(And(j >= H.lo_(U), j < ctx.H0.lo_(U)), And(shape_U(H, e), H.at(e, 2) == mkint(Val.i(d) + 1), H.at(e, 1) != NONE))


PUSH1 = Inv("C10.I_push_children", header="item in rev_items", qf=push1_qf, foralls=[("to_unwrap", fa_push1_keep), ("to_unwrap", fa_push1_new)],
            conts=["to_unwrap"])


def fill_qf(ctx):
    E, U, S = E_(ctx), U_(ctx), S_(ctx)
    H, H0 = ctx.H, ctx.H0
    return And(H.lo_(S) == H0.lo_(S), H.hi_(S) >= H0.hi_(S))


FILL = Inv("C05.I_fill_contexts", header="context in frame.contexts", qf=fill_qf, foralls=[("save_errors", fa_S)], conts=["save_errors"], ghost_havoc=reset_raised,
           steps=[("C05.ledger.fill_iteration", ledger_step)])


# --- elaborate phase loops (as in the design spike, now on the repaired source)
def mv_qf(ctx):
    E, U = E_(ctx), U_(ctx)
    H, H0 = ctx.H, ctx.H0
    m = H0.length(E) - H.length(E)
    return And(H.length(E) >= 0, m >= 0, H.lo_(E) == H0.lo_(E), H.lo_(U) == H0.lo_(U) - m, H.hi_(U) == H0.hi_(U))


def fa_mv_keepE(ctx, pth, j):
    E = E_(ctx)
    return Implies(And(j >= ctx.H.lo_(E), j < ctx.H.hi_(E)), pth.read(E, j, ctx.H) == pth.read(E, j, ctx.H0))


def fa_mv_keepU(ctx, pth, j):
    U = U_(ctx)
    return Implies(And(j >= ctx.H0.lo_(U), j < ctx.H0.hi_(U)), pth.read(U, j, ctx.H) == pth.read(U, j, ctx.H0))


def fa_mv_moved(ctx, pth, j):
    E, U = E_(ctx), U_(ctx)
    H, H0 = ctx.H, ctx.H0
    e = pth.read(U, j, H)
    src = pth.read(E, H.hi_(E) + (j - H.lo_(U)), H0)
    return Implies(And(j >= H.lo_(U), j < H0.lo_(U)),
                   And(shape_U(H, e), H.at(e, 0) == NONE, H.at(e, 1) == H0.at(src, 0), H.at(e, 2) == H0.at(src, 1)))


MOVE = Inv("C10.move", header="to_elaborate", qf=mv_qf, foralls=[("to_elaborate", fa_mv_keepE), ("to_unwrap", fa_mv_keepU), ("to_unwrap", fa_mv_moved)],
           conts=["to_elaborate", "to_unwrap"])


def dr_qf(ctx):
    E, U = E_(ctx), U_(ctx)
    H, H0 = ctx.H, ctx.H0
    return And(H.lo_(U) >= H0.lo_(U), H.lo_(U) <= H0.hi_(U), H.hi_(U) == H0.hi_(U),
               Select(H.el, Val.a(U)) == Select(H0.el, Val.a(U)))


def fa_dr_dropped(ctx, pth, j):
    U = U_(ctx)
    e = pth.read(U, j, ctx.H0)
    return Implies(And(j >= ctx.H0.lo_(U), j < ctx.H.lo_(U)), Val.i(ctx.H0.at(e, 2)) >= Val.i(ctx.v("depth")))


DROP = Inv("C10.drop", header="to_unwrap[0][2]", qf=dr_qf, foralls=[("to_unwrap", fa_dr_dropped)], conts=["to_unwrap"])


def pu_qf(ctx):
    U = U_(ctx)
    H, H0 = ctx.H, ctx.H0
    return And(H.lo_(U) == H0.lo_(U) - ctx.k, H.hi_(U) == H0.hi_(U))


def fa_pu_keep(ctx, pth, j):
    U = U_(ctx)
    return Implies(And(j >= ctx.H0.lo_(U), j < ctx.H0.hi_(U)), pth.read(U, j, ctx.H) == pth.read(U, j, ctx.H0))


def fa_pu_pushed(ctx, pth, j):
    U = U_(ctx)
    H, H0 = ctx.H, ctx.H0
    e = pth.read(U, j, H)
    seqv, Hs = ctx.seq.get("special")[1], ctx.seq.get("special")[2]
    n_items = Hs.length(seqv.t)
    src = pth.read(seqv.t, Hs.lo_(seqv.t) + n_items - ctx.k + (j - H.lo_(U)), Hs)
    return Implies(And(j >= H.lo_(U), j < H0.lo_(U)),
                   And(shape_U(H, e), H.at(e, 1) == src, H.at(e, 2) == ctx.v("depth"), H.at(e, 0) == bo_term(src, NONE)))


PUSH3 = Inv("C10.push", header="item in reversed(items)", qf=pu_qf, foralls=[("to_unwrap", fa_pu_keep), ("to_unwrap", fa_pu_pushed)], conts=["to_unwrap"])

INVARIANTS = {(EI, "while#1"): OUTER, (EI, "while#2"): INNER, (EI, "while#3"): DRAIN, (EI, "for#1"): PUSH1,
              (EI, "for#2"): FILL, (EI, "while#4"): MOVE, (EI, "while#5"): DROP, (EI, "for#3"): PUSH3}


# ------------------------------------------------------------------------------------------------ clauses
def on_yield(ex, p, v, node):
    # every value yielded is a Frame built (or elaborated) by this function; record the queue state for the step clauses
    ex.oblig("C10.yields_only_frames", "clause", p, is_kind(v.t, "Frame"))
    p.ghost["depth_at_yield"] = p.env["depth"].t
    return [("ok", p, NONE_SV)]


def returns_leaf(ctx):
    """final return: None when the queues are exhausted, else the irreducible leaf / list of leaves"""
    return BoolVal(True)


def raises_nothing(ctx):
    return BoolVal(False)


UNIT = Unit("C05.extract_iter", EI, ei_setup,
            post=[],
            bindings=dict(EXTRACT_BINDINGS, better_origin=contract_better_origin, unwrap_stackitem=hook_unwrap,
                          contexts_active_in_frame=hook_contexts, fill_context=hook_fill, elaborate_frame=hook_elaborate,
                          **{"_glue.add_glue_as_needed": noop}),
            methods={**STD_METHODS, ("FrameIterator", "__next__"): hook_fi_next}, props=dict(OPT_PROPS),
            ctors=dict(CTORS, Frame=ctor_frame_checked),
            known_classes=KNOWN, invariants=INVARIANTS, on_yield=on_yield, before_stmt=before_stmt,
            star_arity={"to_elaborate.pop()": 2},
            options=dict(iter_any_seq=True, par_k=16, par_after=("while#2",),
                         expect_loops=["while#1", "while#2", "while#3", "while#4", "while#5", "for#1", "for#2", "for#3"]),
            tuple_types={},
            assumptions=["hooks raise only Exception instances (BaseException-only exceptions pass through by design)",
                         "hook results that are Sequences are builtin tuples or lists",
                         "hook results do not alias the extraction's private save_errors list",
                         "add_glue_as_needed returns normally (unit C17) and touches only glue state"])

UNITS = [UNIT]
