"""C17 — "in time": a syntactic obligation over the real AST of stackscope/_extract.py (read on every run).  Glue is installed
before the extraction machinery consults any hook iff extract_iter, which every entry point drives, calls
_glue.add_glue_as_needed() before its first other call, outside any branch or loop."""
import ast
import os
from pyvc import source


def static_obligations():
    path = os.path.join(source.REPO, "stackscope", "_extract.py")
    tree = ast.parse(open(path, encoding="utf-8").read())
    fn = next((n for n in ast.walk(tree) if isinstance(n, ast.FunctionDef) and n.name == "extract_iter"), None)
    if fn is None:
        return [("C17.static.extract_iter_installs_glue_first", False, "extract_iter not found")]
    first_call = None
    for st in fn.body:
        if isinstance(st, ast.Expr) and isinstance(st.value, ast.Constant):
            continue                     # docstring
        if isinstance(st, ast.Assert):
            continue                     # the precondition assert reads an option, calls nothing
        calls = [c for c in ast.walk(st) if isinstance(c, ast.Call)]
        if calls:
            first_call = st
            break
    ok = (first_call is not None and isinstance(first_call, ast.Expr) and isinstance(first_call.value, ast.Call)
          and ast.unparse(first_call.value.func) in ("_glue.add_glue_as_needed", "add_glue_as_needed") and not first_call.value.args)
    detail = "" if ok else f"first calling statement of extract_iter is `{ast.unparse(first_call)[:80] if first_call is not None else None}`"
    out = [("C17.static.extract_iter_installs_glue_first", ok, detail)]
    # every public extraction entry point reaches extract_iter (directly or through extract / extract_child)
    fns = {n.name: n for n in tree.body if isinstance(n, ast.FunctionDef)}
    def calls_of(name):
        return {ast.unparse(c.func) for c in ast.walk(fns[name]) if isinstance(c, ast.Call)} if name in fns else set()
    reach = {"extract_iter"}
    changed = True
    while changed:
        changed = False
        for name in fns:
            if name not in reach and calls_of(name) & reach:
                reach.add(name)
                changed = True
    missing = [e for e in ("extract", "extract_since", "extract_until", "extract_outermost", "extract_child") if e not in reach]
    out.append(("C17.static.every_entry_point_drives_extract_iter", not missing, "" if not missing else f"do not reach extract_iter: {missing}"))
    return out
