"""C11 — context hooks: elaborate, unwrap, re-elaborate until steady state (fill_context)."""
from .extract_env import *  # noqa
from .c13 import fields_now

FC = EX + "fill_context"
CTX_FIELDS = ("obj", "inner_stack", "children", "hide", "description", "varname", "is_exiting", "is_async", "start_line")
HOOK_MAY_SET = ("obj", "inner_stack", "children", "hide", "description", "varname")


def fc_setup(inside):
    def setup(ex, p):
        co = options_setup(p)
        if inside:
            p.pc += [Val.is_boolv(p.getf(co.t, "with_contexts")), Val.is_boolv(p.getf(co.t, "recurse_child_tasks"))]
        else:
            p.setf(co.t, "with_contexts", NONE)
            p.setf(co.t, "recurse_child_tasks", NONE)
        context = sym_ref(p, "context", "Context")
        p.env["context"] = context
        ex.unit.bindings["current_options"] = co
        prune = ex.make_tuple(p, [])
        ex.unit.bindings["PRUNE"] = prune
        return dict(co=co, context=context, PRUNE=prune)
    return setup


def hook_E(ex, p, args, kwargs, node):
    c = p.env["context"].t
    k = p.ghost.get("iter_k")
    ex.oblig("C11.elaborate_runs_on_current_manager", "clause", p, And(args[0].t == p.getf(c, "obj"), args[1].t == c))
    p.ghost["E_calls"] = p.ghost.get("E_calls", 0) + 1
    r = oracle("elaborate_context", havoc_fields=HOOK_MAY_SET, havoc_arg=1)(ex, p, args, kwargs, node)
    for st, p1, v in r:
        p1.ghost["E_just_ran"] = True
    return r


def hook_U(ex, p, args, kwargs, node):
    c = p.env["context"].t
    in_loop = bool(p.frames)
    ex.oblig("C11.unwrap_sees_manager_as_elaborate_left_it", "clause", p,
             And(args[0].t == p.getf(c, "obj"), args[1].t == c, BoolVal(bool(p.ghost.get("E_just_ran")) or not in_loop)))
    r = oracle("unwrap_context", havoc_fields=())(ex, p, args, kwargs, node)
    for st, p1, v in r:
        p1.ghost["E_just_ran"] = False
        if st == "ok":
            p1.ghost["u_prev"] = v.t
            p1.ghost["H_after_U"] = p1.snap()
            p1.ghost["U_calls"] = p1.ghost.get("U_calls", 0) + 1
    return r


def loop_inv():
    def ghost_havoc(ctx):
        u = fresh("u_prev")
        ctx.p.pc.append(input_ok(u))
        ctx.p.ghost["u_prev"] = u
        ctx.p.ghost["E_just_ran"] = False
        ctx.p.ghost["E_calls"] = 0
        ctx.p.ghost["U_calls"] = 0
    def qf(ctx):
        c = ctx.v("context")
        H = ctx.H
        u = ctx.p.ghost.get("u_prev", NONE)
        ch = H.getf(c, "children")
        prune = ctx.ex.unit.bindings["PRUNE"].t
        # k > 0: the previous unwrap step returned manager u (not None, not PRUNE); it completely replaced the outer one
        # (obj replaced, inner_stack and children reset) before this re-elaboration.  The iteration bound is 100.
        return And(ctx.k <= 100, c == ctx.v0("context"),
                   Implies(ctx.k > 0, And(H.getf(c, "obj") == u, Not(Val.is_none(u)),
                                          Val.is_none(H.getf(c, "inner_stack")),
                                          is_exact_kind(ch, "tuple"), H.length(ch) == 0)),
                   Implies(ctx.k == 0, And([H.getf(c, f) == ctx.H0.getf(c, f) for f in HOOK_MAY_SET])))
    return Inv("C11.loop", qf=qf, ghost_havoc=ghost_havoc, fields=[(f, "context") for f in HOOK_MAY_SET])


def fc_return(ctx):
    c = ctx.args["context"].t
    if "exit_k:for#1" not in ctx.p.ghost:
        # inside an extraction fill_context must run its loop under the CALLER's options (no push, no self-call)
        return BoolVal(False)
    u = ctx.p.ghost["u_prev"]
    HU = ctx.p.ghost.get("H_after_U")
    if HU is None or ctx.p.ghost.get("U_calls", 0) != 1 or ctx.p.ghost.get("E_calls", 0) != 1:
        return BoolVal(False)     # every iteration runs elaborate then unwrap, exactly once each
    prune = ctx.args["PRUNE"]
    is_prune = And(is_exact_kind(u, "tuple"), ctx.H.length(u) == 0)
    same = lambda fs: And([ctx.H.getf(c, f) == HU.getf(c, f) for f in fs])
    return And(Or(Val.is_none(u), is_prune),
               Implies(Val.is_none(u), same(HOOK_MAY_SET)),                 # None stops, nothing else changes
               Implies(is_prune, And(ctx.H.getf(c, "hide") == mkbool(True),   # PRUNE marks the context hidden and stops
                                     same([f for f in HOOK_MAY_SET if f != "hide"]))))


def fc_raise_ok(ctx):
    if ctx.p.ghost.get("raised"):
        return BoolVal(True)               # a hook's own exception propagates (extract_iter records it)
    k = ctx.p.ghost.get("exit_k:for#1")
    if k is None:
        return BoolVal(False)
    # more than 100 steps: one more unwrap call for the message, then RuntimeError (no hang)
    return And(is_kind(ctx.exc.t, "RuntimeError"), k == 100, BoolVal(ctx.p.ghost.get("U_calls", 0) == 1),
               BoolVal(ctx.p.ghost.get("E_calls", 0) == 0))


def fc_options(ctx):
    co = ctx.args["co"].t
    a, b = fields_now(ctx.p, co)
    return And(a == ctx.H0.getf(co, "with_contexts"), b == ctx.H0.getf(co, "recurse_child_tasks"))


def contract_fill_context(ex, p, args, kwargs, node):
    """callee contract of fill_context used at its own recursive call and by glue: may set the hook-settable fields of the
       context it is given, may raise any Exception, leaves the options as they were; requires being inside an extraction"""
    if kwargs or len(args) != 1:
        raise Unsupported("fill_context call shape")
    co = ex.unit.bindings["current_options"]
    wc, rct = fields_now(p, co.t)
    p.trace = p.trace + [("fill_context", (args[0].t, wc, rct), None)]
    return oracle("fill_context_rec", havoc_fields=HOOK_MAY_SET, record=False)(ex, p, args, kwargs, node)


def outside_post(ctx):
    calls = [t for t in ctx.p.trace if t[0] == "fill_context"]
    if len(calls) != 1:
        return BoolVal(False)
    c, wc, rct = calls[0][1]
    return And(c == ctx.args["context"].t, wc == mkbool(True), rct == mkbool(False),
               BoolVal(ctx.p.ghost.get("E_calls", 0) == 0 and ctx.p.ghost.get("U_calls", 0) == 0))


COMMON = dict(bindings=dict(EXTRACT_BINDINGS, elaborate_context=hook_E, unwrap_context=hook_U),
              methods={**STD_METHODS, **PUSH_METHODS}, props=dict(OPT_PROPS), ctors=dict(CTORS), known_classes=KNOWN)

UNITS = [
    Unit("C11.fill_context.inside", FC, fc_setup(True),
         post=[Clause("C11.exits", fc_return), Clause("C11.options_untouched", fc_options, on=("any",)),
               Clause("C13.fill_context_inside_keeps_callers_options",
                      lambda ctx: BoolVal(not any(t[0] == "fill_context" for t in ctx.p.trace) and "push_prev" not in ctx.p.ghost),
                      on=("any",))],
         invariants={(FC, "for#1"): loop_inv()}, allowed_raise=fc_raise_ok,
         contracts={FC: contract_fill_context},
         assumptions=["elaborate_context may set obj/inner_stack/children/hide/description/varname of the Context it is given and may "
                      "raise; unwrap_context returns a value or raises and does not modify the Context (documented interface)",
                      "manager == PRUNE is decided as `is the empty tuple` (managers have default or builtin __eq__)"],
         **COMMON),
    Unit("C11.fill_context.outside", FC, fc_setup(False),
         post=[Clause("C11.outside_extract_same_as_inside", outside_post), Clause("C11.options_restored_to_unset", fc_options, on=("any",))],
         invariants={(FC, "for#1"): loop_inv()}, allowed_raise=lambda ctx: BoolVal(bool(ctx.p.ghost.get("raised"))),
         contracts={FC: contract_fill_context}, **COMMON),
]
