"""_types formatting / summary functions under contract (C18, C19)."""
from .common import *  # noqa
UNITS = []
