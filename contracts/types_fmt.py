"""_types summary functions under contract (C19).  Generators are verified as producers: the ghost output of one loop iteration is
a list of segments — ('one', x) for `yield x`, ('all', seq) for `yield from seq` — and each callee is an abstract sequence /
summary object given by an uninterpreted function of its arguments, so that "the summary is the structural projection"
becomes a per-iteration step clause (order = iteration order)."""
from .extract_env import *  # noqa
import ast

TY = "stackscope._types."
for c_ in ("FrameSummary", "StackSummary"):
    register_class(c_)

fs_plain = Function("as_stdlib_summary", Val, Val, Val)                           # (frame, capture_locals) -> FrameSummary
fs_ctx = Function("as_stdlib_summary_with_contexts", Val, Val, Val, Val)          # (frame, show_hidden, capture_locals) -> sequence
ctx_summ = Function("Context._frame_summaries", Val, Val, Val, Val, Val, Val)     # (ctx, parent, show_hidden, capture_locals, override) -> seq
stk_summ = Function("Stack._frame_summaries", Val, Val, Val, Val, Val)            # (stack, show_contexts, show_hidden, capture_locals) -> seq
filename_of = Function("Frame.filename", Val, Val)
funcname_of = Function("Frame.funcname", Val, Val)
name_and_type = Function("Context._name_and_type", Val, Val)


def seq_sv(t):
    return SV(t, ty="list")


def segs(p):
    out = []
    for y in p.yielded:
        out.append(("all", y.get("all_of")[0].t) if y.get("all_of") is not None else ("one", y.t))
    return out


def m_frame_plain(ex, p, args, kwargs, node):
    if set(kwargs) != {"capture_locals"} or len(args) != 1:
        raise Unsupported("as_stdlib_summary call shape")
    return [("ok", p, SV(fs_plain(args[0].t, kwargs["capture_locals"].t), ty="FrameSummary"))]


def m_frame_ctx(ex, p, args, kwargs, node):
    if set(kwargs) != {"show_hidden_frames", "capture_locals"} or len(args) != 1:
        raise Unsupported("as_stdlib_summary_with_contexts call shape")
    return [("ok", p, seq_sv(fs_ctx(args[0].t, kwargs["show_hidden_frames"].t, kwargs["capture_locals"].t)))]


def m_ctx_summ(ex, p, args, kwargs, node):
    a = list(args) + [None] * (5 - len(args))
    for k_, i in (("parent", 1), ("show_hidden_frames", 2), ("capture_locals", 3), ("override_line", 4)):
        if k_ in kwargs:
            a[i] = kwargs[k_]
    if a[4] is None:
        a[4] = NONE_SV
    if any(x is None for x in a):
        raise Unsupported("Context._frame_summaries call shape")
    return [("ok", p, seq_sv(ctx_summ(*[x.t for x in a])))]


def m_stk_summ(ex, p, args, kwargs, node):
    a = list(args) + [None] * (4 - len(args))
    for k_, i in (("show_contexts", 1), ("show_hidden_frames", 2), ("capture_locals", 3)):
        if k_ in kwargs:
            a[i] = kwargs[k_]
    if any(x is None for x in a):
        raise Unsupported("Stack._frame_summaries call shape")
    return [("ok", p, seq_sv(stk_summ(*[x.t for x in a])))]


def ctor_frame_summary(ex, p, args, kwargs, node):
    fs = p.new_obj("FrameSummary", filename=args[0].t, lineno=args[1].t, name=args[2].t,
                   locals=kwargs["locals"].t if "locals" in kwargs else NONE, line=kwargs["line"].t if "line" in kwargs else NONE)
    p.ghost["summaries"] = p.ghost.get("summaries", ()) + (fs,)
    # C19.no_frame: only str / int / None / dict[str, str] go into a FrameSummary (sort check on the arguments)
    ex.oblig("C19.no_frame.summary_arguments_hold_no_frame", "clause", p,
             And(Not(is_kind(args[0].t, ["frame", "Frame"])), Not(is_kind(args[2].t, ["frame", "Frame"])),
                 Not(is_kind(args[1].t, ["frame", "Frame"]))))
    return [("ok", p, SV(fs, ty="FrameSummary"))]


METHODS = {**STD_METHODS, ("Frame", "as_stdlib_summary"): m_frame_plain, ("Frame", "as_stdlib_summary_with_contexts"): m_frame_ctx,
           ("Context", "_frame_summaries"): m_ctx_summ, ("Stack", "_frame_summaries"): m_stk_summ,
           ("Context", "_name_and_type"): lambda ex, p, a, k, n: [("ok", p, SV(name_and_type(a[0].t), ty="str"))]}
def str_prop(fn):
    def prop(ex, p, o):
        v = fn(o.t)
        p.pc.append(is_exact_kind(v, "str"))
        return [("ok", p, SV(v, ty="str"))]
    return prop


PROPS = {("Frame", "filename"): str_prop(filename_of), ("Frame", "funcname"): str_prop(funcname_of)}
COMMON = dict(bindings=dict(EXTRACT_BINDINGS, **{"traceback.FrameSummary": ctor_frame_summary}), methods=METHODS, props=PROPS,
              known_classes=KNOWN, options=dict(iter_any_seq=True),
              field_types={"frames": "list", "contexts": "list", "children": "list", "inner_stack": "Stack"},
              elem_types={"frames": "Frame", "contexts": "Context"})


def typed_seq(p, obj, field, elem_kind):
    s_ = sym_seq(p, f"{field}_seq", "list")
    p.setf(obj.t, field, s_.t)
    H0 = p.snap()
    p.add_schema(s_.t, lambda pth, j: Implies(And(j >= H0.lo_(s_.t), j < H0.hi_(s_.t)),
                                              And(Val.is_ref(H0.raw(s_.t, j)), Val.a(H0.raw(s_.t, j)) >= 0,
                                                  *( [is_kind(H0.raw(s_.t, j), elem_kind), Val.is_boolv(H0.getf(H0.raw(s_.t, j), "hide"))] if elem_kind else []))))
    return s_


# ------------------------------------------------------------------------------------------------ Stack._frame_summaries
def ss_setup(ex, p):
    self = sym_ref(p, "self", "Stack")
    fr = typed_seq(p, self, "frames", "Frame")
    sc, sh, cl = sym_bool(p, "show_contexts"), sym_bool(p, "show_hidden_frames"), sym_bool(p, "capture_locals")
    p.env.update(self=self, show_contexts=sc, show_hidden_frames=sh, capture_locals=cl)
    return dict(self=self, frames=fr, sc=sc, sh=sh, cl=cl)


def ss_step(ctx):
    a = ctx.ex.unit_args
    f = ctx.v("frame")
    out = segs(ctx.p)
    hidden = And(Val.b(ctx.H.getf(f, "hide")), Not(Val.b(a["sh"].t)))
    if not out:
        return hidden
    if len(out) != 1:
        return BoolVal(False)
    kind_, t = out[0]
    if kind_ == "all":
        return And(Not(hidden), Val.b(a["sc"].t), t == fs_ctx(f, a["sh"].t, a["cl"].t))
    return And(Not(hidden), Not(Val.b(a["sc"].t)), t == fs_plain(f, a["cl"].t))


def mk_unit(name, func, setup, inv_name, step, post=(), extra_inv=None, **kw):
    def setup2(ex, p):
        a = setup(ex, p)
        ex.unit_args = a
        return a
    def ghost_havoc(ctx):
        ctx.p.yielded = []
    inv = Inv(inv_name, qf=(extra_inv or (lambda ctx: BoolVal(True))), ghost_havoc=ghost_havoc, steps=[(inv_name + ".iteration", step)])
    return Unit(name, func, setup2, post=list(post), invariants={(func, "for#1"): inv}, allowed_raise=lambda ctx: BoolVal(False), **{**COMMON, **kw})


SS_UNIT = mk_unit("C19.Stack._frame_summaries", TY + "Stack._frame_summaries", ss_setup, "C19.stack_summaries", ss_step)


# ------------------------------------------------------------------------------------------------ Frame.as_stdlib_summary_with_contexts
def fc_setup(ex, p):
    self = sym_ref(p, "self", "Frame")
    cs = typed_seq(p, self, "contexts", "Context")
    H0 = p.snap()
    p.add_schema(cs.t, lambda pth, j: Implies(And(j >= H0.lo_(cs.t), j < H0.hi_(cs.t)), Val.is_boolv(H0.getf(H0.raw(cs.t, j), "is_exiting"))))
    sh, cl = sym_bool(p, "show_hidden_frames"), sym_bool(p, "capture_locals")
    p.env.update(self=self, show_hidden_frames=sh, capture_locals=cl)
    return dict(self=self, contexts=cs, sh=sh, cl=cl)


def fc_step(ctx):
    a = ctx.ex.unit_args
    out = segs(ctx.p)
    if len(out) != 1 or out[0][0] != "all":
        return BoolVal(False)
    return out[0][1] == ctx_summ(ctx.v("context"), a["self"].t, a["sh"].t, a["cl"].t, NONE)


def fc_post(ctx):
    a = ctx.args
    cs = a["contexts"].t
    H0 = ctx.H0
    n = H0.length(cs)
    last_exiting = And(n > 0, Val.b(H0.getf(H0.at(cs, n - 1), "is_exiting")))
    out = segs(ctx.p)            # what was yielded after the loop
    if not out:
        return last_exiting
    if len(out) != 1 or out[0][0] != "one":
        return BoolVal(False)
    # the frame's own entry is omitted only when its last context is exiting
    return And(Not(last_exiting), out[0][1] == fs_plain(a["self"].t, a["cl"].t))


FC_UNIT = mk_unit("C19.Frame.as_stdlib_summary_with_contexts", TY + "Frame.as_stdlib_summary_with_contexts", fc_setup,
                  "C19.frame_context_summaries", fc_step, post=[Clause("C19.own_entry_unless_last_context_exiting", fc_post, on=("return", "normal"))])


# ------------------------------------------------------------------------------------------------ Frame.as_stdlib_summary
def fp_setup(ex, p):
    self = sym_ref(p, "self", "Frame")
    pf = sym_ref(p, "pyframe", "frame")
    loc = sym_ref(p, "f_locals", "dict")
    p.setf(self.t, "pyframe", pf.t)
    p.setf(pf.t, "f_locals", loc.t)
    cl = sym_bool(p, "capture_locals")
    p.pc.append(Val.is_intv(p.getf(self.t, "lineno")))          # annotated `lineno: int`
    p.env.update(self=self, capture_locals=cl)
    return dict(self=self, cl=cl)


def fp_post(ctx):
    a = ctx.args
    r = ctx.result.t
    H = ctx.H
    return And(is_kind(r, "FrameSummary"), H.getf(r, "filename") == filename_of(a["self"].t), H.getf(r, "lineno") == ctx.H0.getf(a["self"].t, "lineno"),
               H.getf(r, "name") == funcname_of(a["self"].t), Val.is_none(H.getf(r, "locals")) == Not(Val.b(a["cl"].t)))


def dict_items_iter(ex, p, args, kwargs, node):
    return [("ok", p, SV(p.new_seq("list", length=fresh_int("n"), arr=fresh("it", AV)), ty="list"))]


FP_UNIT = Unit("C19.Frame.as_stdlib_summary", TY + "Frame.as_stdlib_summary", fp_setup, post=[Clause("C19.frame_entry_fields", fp_post)],
               allowed_raise=lambda ctx: BoolVal(False),
               **{**COMMON, "methods": {**METHODS, ("dict", "items"): dict_items_iter}, "field_types": {"f_locals": "dict", "pyframe": "frame"}})


# ------------------------------------------------------------------------------------------------ Context._frame_summaries
def cs_setup(ex, p):
    self = sym_ref(p, "self", "Context")
    parent = sym_ref(p, "parent", "Frame")
    ch = typed_seq(p, self, "children", None)
    p.pc += [Val.is_boolv(p.getf(self.t, "hide")), Or(Val.is_none(p.getf(self.t, "inner_stack")), is_kind(p.getf(self.t, "inner_stack"), "Stack")),
             Or(Val.is_none(p.getf(self.t, "start_line")), And(Val.is_intv(p.getf(self.t, "start_line")), Val.i(p.getf(self.t, "start_line")) > 0)),
             Val.is_intv(p.getf(parent.t, "lineno"))]
    sh, cl = sym_bool(p, "show_hidden_frames"), sym_bool(p, "capture_locals")
    ov = sym_any(p, "override_line")
    p.env.update(self=self, parent=parent, show_hidden_frames=sh, capture_locals=cl, override_line=ov)
    p.ghost["pre_loop_segs"] = None
    return dict(self=self, parent=parent, children=ch, sh=sh, cl=cl, ov=ov)


def cs_step(ctx):
    a = ctx.ex.unit_args
    sub = ctx.v("subctx")
    out = segs(ctx.p)
    is_ctx = is_kind(sub, "Context")
    if not out:
        return Not(is_ctx)             # child task stacks are skipped
    if len(out) != 1 or out[0][0] != "all":
        return BoolVal(False)
    t = out[0][1]
    # the child's own summaries, with the SAME parent and flags (in this order) and a "# ..." override line
    g = ctx_summ(sub, a["parent"].t, a["sh"].t, a["cl"].t, fresh("ov_any"))
    return And(is_ctx, z3.Exists([ov_var], t == ctx_summ(sub, a["parent"].t, a["sh"].t, a["cl"].t, ov_var)))


ov_var = z3.Const("ov_bound", Val)


def cs_inv_setup(ctx):
    ctx.p.ghost["pre_loop_segs"] = (segs(ctx.p), list(ctx.p.ghost.get("summaries", ())))


def cs_post(ctx):
    a = ctx.args
    H0, H = ctx.H0, ctx.H
    self, parent = a["self"].t, a["parent"].t
    hidden = And(Val.b(H0.getf(self, "hide")), Not(Val.b(a["sh"].t)))
    pre = ctx.p.ghost.get("pre_loop_segs")
    if pre is None:
        return And(hidden, BoolVal(not segs(ctx.p)))              # hidden: nothing at all
    out, summaries = pre
    if not out or out[0][0] != "one" or not summaries:
        return BoolVal(False)
    fs = summaries[0]
    sl = H0.getf(self, "start_line")
    inner = H0.getf(self, "inner_stack")
    conj = [Not(hidden), out[0][1] == fs, H.getf(fs, "filename") == filename_of(parent),
            H.getf(fs, "lineno") == If(Val.is_none(sl), H0.getf(parent, "lineno"), sl),
            Val.is_none(H.getf(fs, "locals")) == Not(Val.b(a["cl"].t))]
    if len(out) == 1:
        conj.append(Val.is_none(inner))
    elif len(out) == 2 and out[1][0] == "all":
        # the inner stack is summarised WITH contexts, same hidden/locals flags
        conj += [Not(Val.is_none(inner)), out[1][1] == stk_summ(inner, mkbool(True), a["sh"].t, a["cl"].t)]
    else:
        return BoolVal(False)
    return And(conj)


def cs_unit():
    def setup2(ex, p):
        a = cs_setup(ex, p)
        ex.unit_args = a
        return a
    def ghost_havoc(ctx):
        ctx.p.ghost["pre_loop_segs"] = (segs(ctx.p), list(ctx.p.ghost.get("summaries", ())))
        ctx.p.yielded = []
    func = TY + "Context._frame_summaries"
    inv = Inv("C19.child_context_summaries", qf=lambda ctx: BoolVal(True), ghost_havoc=ghost_havoc, steps=[("C19.child_context_summaries.iteration", cs_step)])
    return Unit("C19.Context._frame_summaries", func, setup2, post=[Clause("C19.context_entry_then_inner_stack", cs_post, on=("return", "normal"))],
                invariants={(func, "for#1"): inv}, allowed_raise=lambda ctx: BoolVal(False), **COMMON)



# ------------------------------------------------------------------------------------------------ Stack.as_stdlib_summary
from_list = Function("StackSummary.from_list", Val, Val)


def sa_setup(ex, p):
    self = sym_ref(p, "self", "Stack")
    sc, sh, cl = sym_bool(p, "show_contexts"), sym_bool(p, "show_hidden_frames"), sym_bool(p, "capture_locals")
    p.env.update(self=self, show_contexts=sc, show_hidden_frames=sh, capture_locals=cl)
    def m_from_list(ex_, p_, args, kw, node):
        if len(args) != 1 or kw:
            raise Unsupported("StackSummary.from_list call shape")
        return [("ok", p_, SV(from_list(args[0].t), ty="StackSummary"))]
    ex.unit.bindings["traceback.StackSummary.from_list"] = m_from_list
    return dict(self=self, sc=sc, sh=sh, cl=cl)


def sa_post(ctx):
    a = ctx.args
    # the summary is built from exactly this stack's entries with the three flags in their own positions
    return ctx.result.t == from_list(stk_summ(a["self"].t, a["sc"].t, a["sh"].t, a["cl"].t))


SA_UNIT = Unit("C19.Stack.as_stdlib_summary", TY + "Stack.as_stdlib_summary", sa_setup, post=[Clause("C19.summary_is_from_list_of_own_entries", sa_post)],
               allowed_raise=lambda ctx: BoolVal(False), **COMMON)


# ------------------------------------------------------------------------------------------------ Formattable.format / __str__
register_class("FormatOptions")
fmt_lines = Function("Formattable._format", Val, Val, Val)          # (self, opts) -> list of lines
fmt_public = Function("Formattable.format", Val, Val)               # (self) -> format() with default options
join_of = Function("str.join", Val, Val, Val)                       # (separator, sequence) -> str


def ff_setup(ex, p):
    self = sym_ref(p, "self", "Stack")
    ao, sc, sh = sym_bool(p, "ascii_only"), sym_bool(p, "show_contexts"), sym_bool(p, "show_hidden_frames")
    p.env.update(self=self, ascii_only=ao, show_contexts=sc, show_hidden_frames=sh)
    def ctor_opts(ex_, p_, args, kw, node):
        if args or set(kw) != {"ascii_only", "show_contexts", "show_hidden_frames"}:
            raise Unsupported("FormatOptions() call shape")
        o = p_.new_obj("FormatOptions", **{k: v.t for k, v in kw.items()})
        return [("ok", p_, SV(o, ty="FormatOptions"))]
    def m_format(ex_, p_, args, kw, node):
        if len(args) != 2 or kw:
            raise Unsupported("_format call shape")
        p_.ghost["fmt_call"] = (args[0].t, args[1].t, p_.snap())
        return [("ok", p_, seq_sv(fmt_lines(args[0].t, args[1].t)))]
    ex.unit.bindings["FormatOptions"] = ctor_opts
    ex.unit.methods[("Stack", "_format")] = m_format
    return dict(self=self, ao=ao, sc=sc, sh=sh)


def ff_post(ctx):
    a = ctx.args
    call = ctx.p.ghost.get("fmt_call")
    if call is None:
        return BoolVal(False)
    recv, opts, H = call
    # the public flags reach _format in their own fields of ONE FormatOptions object, and its lines are returned unchanged
    return And(recv == a["self"].t, ctx.result.t == fmt_lines(recv, opts), is_kind(opts, "FormatOptions"),
               H.getf(opts, "ascii_only") == a["ao"].t, H.getf(opts, "show_contexts") == a["sc"].t,
               H.getf(opts, "show_hidden_frames") == a["sh"].t)


FF_UNIT = Unit("C18.Formattable.format", TY + "Formattable.format", ff_setup, post=[Clause("C18.format_passes_each_flag_in_its_own_field", ff_post)],
               allowed_raise=lambda ctx: BoolVal(False), **{**COMMON, "known_classes": COMMON.get("known_classes", []) + ["FormatOptions"]})


def fs_setup(ex, p):
    self = sym_ref(p, "self", "Stack")
    p.env.update(self=self)
    def m_fmt(ex_, p_, args, kw, node):
        if len(args) != 1 or kw:
            raise Unsupported("format() call shape in __str__")      # str(x) must be the DEFAULT formatting
        return [("ok", p_, seq_sv(fmt_public(args[0].t)))]
    def m_join(ex_, p_, args, kw, node):
        return [("ok", p_, SV(join_of(args[0].t, args[1].t), ty="str"))]
    ex.unit.methods[("Stack", "format")] = m_fmt
    ex.unit.methods[("str", "join")] = m_join
    return dict(self=self)


def fs_post(ctx):
    return ctx.result.t == join_of(ctx.ex.const(ctx.p, "").t, fmt_public(ctx.args["self"].t))


FSTR_UNIT = Unit("C18.Formattable.__str__", TY + "Formattable.__str__", fs_setup, post=[Clause("C18.str_is_concatenation_of_format_lines", fs_post)],
                 allowed_raise=lambda ctx: BoolVal(False), **COMMON)


# ------------------------------------------------------------------------------------------------ Stack._format
# lines = [header] ++ for each frame that is not (hidden and not show_hidden_frames), in order: its lines, the first prefixed by
# the start-of-frame marker and the others by the continuation marker (chosen by ascii_only) ++ leaf line ++ error lines.
SF = TY + "Stack._format"
frame_lines = Function("Frame._format", Val, Val, Val)        # (frame, opts) -> list of lines (callee contract: abstract)
header_of = Function("Stack._format_header", Val, Val)
error_lines = Function("Stack._format_error", Val, Val)
off = Function("C18.off", IntSort(), IntSort())               # ghost: lines printed for frames [0, k)
blk = Function("C18.blk", IntSort(), IntSort())               # ghost: which frame an output line belongs to
from z3 import StringVal, Concat  # noqa: E402


def abstract_lines(p, t, HB=None):
    """facts about an abstract list of lines returned by a callee (stated over the base heap HB: callee results are input-region
    objects, untouched by what the function under verification allocates)"""
    H0 = HB or p.snap()
    p.pc += [is_exact_kind(t, "list"), Val.a(t) >= 0, H0.length(t) >= 0, H0.lo_(t) == 0]
    p.add_schema(t, lambda pth, j: Implies(And(j >= 0, j < H0.length(t)), And(is_exact_kind(H0.raw(t, j), "str"), Val.a(H0.raw(t, j)) >= 0)))
    return SV(t, ty="list")


def sf_setup(ex, p):
    self = sym_ref(p, "self", "Stack")
    fr = typed_seq(p, self, "frames", "Frame")
    p.pc.append(p.lo(fr.t) == 0)
    opts = sym_ref(p, "opts", "FormatOptions")
    for f in ("ascii_only", "show_contexts", "show_hidden_frames"):
        p.pc.append(Val.is_boolv(p.getf(opts.t, f)))
    p.pc.append(off(0) == 0)
    p.env.update(self=self, opts=opts)
    def m_frame_format(ex_, p_, args, kw, node):
        if len(args) != 2 or kw:
            raise Unsupported("Frame._format call shape")
        p_.ghost["ff_opts"] = p_.ghost.get("ff_opts", ()) + (args[1].t,)
        return [("ok", p_, abstract_lines(p_, frame_lines(args[0].t, args[1].t), ex_.unit_args["HB"]))]
    def m_header(ex_, p_, args, kw, node):
        h = header_of(args[0].t)
        p_.pc += [is_exact_kind(h, "str"), Val.a(h) >= 0]
        return [("ok", p_, SV(h, ty="str"))]
    def m_error(ex_, p_, args, kw, node):
        return [("ok", p_, abstract_lines(p_, error_lines(args[0].t), ex_.unit_args["HB"]))]
    ex.unit.methods.update({("Frame", "_format"): m_frame_format, ("Stack", "_format_header"): m_header, ("Stack", "_format_error"): m_error})
    ex.unit_args = dict(self=self, frames=fr, opts=opts, HB=p.snap())
    return ex.unit_args


def sf_visible(H, a, f):
    return Not(And(Val.b(H.getf(f, "hide")), Not(Val.b(H.getf(a["opts"].t, "show_hidden_frames")))))


def sf_marker(H, a, t):
    asc = Val.b(H.getf(a["opts"].t, "ascii_only"))
    return If(t == 0, If(asc, StringVal("+ "), StringVal("\u2560 ")), If(asc, StringVal("| "), StringVal("\u2551 ")))


def sf_line_ok(ctx, pth, j, upper, bmax):
    """output line j (1 <= j < upper) is line j-1-off(b) of visible frame b = blk(j), prefixed by the marker for that position"""
    a = ctx.ex.unit_args
    H, H0 = ctx.H, a["HB"]
    lines = ctx.v("lines")
    b = blk(j)
    f = H0.raw(a["frames"].t, b)
    fl = frame_lines(f, a["opts"].t)
    t = j - 1 - off(b)
    e = pth.read(lines, j, H)
    src = H0.raw(fl, t)
    return Implies(And(j >= 1, j < upper),
                   And(b >= 0, b < H0.length(a["frames"].t), b <= bmax, sf_visible(H0, a, f), t >= 0, t < H0.length(fl),
                       Val.a(fl) >= 0, H0.lo_(fl) == 0,
                       is_exact_kind(e, "str"), strval(Val.a(e)) == Concat(sf_marker(H0, a, t), strval(Val.a(src))),
                       Implies(j + 1 < upper, blk(j) <= blk(j + 1))))


def sf_outer_inv():
    def qf(ctx):
        lines = ctx.v("lines")
        return And(lines == ctx.v0("lines"), ctx.H.lo_(lines) == 0, ctx.H.length(lines) == 1 + off(ctx.k), off(ctx.k) >= 0,
                   ctx.H.raw(lines, 0) == ctx.H0.raw(lines, 0))
    def defs(ctx):
        a = ctx.ex.unit_args
        ctx.p.ghost["sf_k"] = ctx.k
        HB = a["HB"]
        f = HB.raw(a["frames"].t, ctx.k)
        return off(ctx.k + 1) == off(ctx.k) + If(sf_visible(HB, a, f), HB.length(frame_lines(f, a["opts"].t)), 0)
    return Inv("C18.stack_format.frames", qf=qf, defs=defs, conts=["lines"], header="frame in self.frames",
               foralls=[("lines", lambda ctx, pth, j: sf_line_ok(ctx, pth, j, 1 + off(ctx.k), ctx.k - 1))])


def sf_inner_inv():
    def qf(ctx):
        lines = ctx.v("lines")
        K = ctx.p.ghost["sf_k"]
        a = ctx.ex.unit_args
        return And(lines == ctx.v0("lines"), ctx.H.lo_(lines) == 0, ctx.H.length(lines) == 1 + off(K) + ctx.k, off(K) >= 0,
                   ctx.H.raw(lines, 0) == ctx.H0.raw(lines, 0))
    def step(ctx):
        # ghost: the line just appended belongs to the current frame
        K = ctx.p.ghost["sf_k"]
        ctx.p.pc.append(blk(off(K) + ctx.k) == K)        # index of the new line: 1 + off(K) + (k - 1)
        return None
    return Inv("C18.stack_format.frame_lines", qf=qf, conts=["lines"], steps=[("C18.stack_format.ghost_owner", step)],
               foralls=[("lines", lambda ctx, pth, j: sf_line_ok(ctx, pth, j, 1 + off(ctx.p.ghost["sf_k"]) + ctx.k, ctx.p.ghost["sf_k"]))])


def sf_post(ctx):
    a = ctx.args
    H, H0 = ctx.H, a["HB"]
    r = ctx.result.t
    n = H0.length(a["frames"].t)
    leaf, err = H0.getf(a["self"].t, "leaf"), H0.getf(a["self"].t, "error")
    has_leaf, has_err = Not(Val.is_none(leaf)), Not(Val.is_none(err))
    el = error_lines(a["self"].t)
    base = 1 + off(n)
    asc = Val.b(H0.getf(a["opts"].t, "ascii_only"))
    leafline = ctx.p.read(r, base, H)
    j = fresh_int("je")
    eline = ctx.p.read(r, base + If(has_leaf, 1, 0) + j, H)
    opts_seen = ctx.p.ghost.get("ff_opts", ())
    return And(H.lo_(r) == 0,
               H.length(r) == base + If(has_leaf, 1, 0) + If(has_err, H0.length(el), 0),
               ctx.p.read(r, 0, H) == header_of(a["self"].t),
               Implies(has_leaf, And(is_exact_kind(leafline, "str"),
                                     strval(Val.a(leafline)) == Concat(If(asc, StringVal("+ "), StringVal("\u255a ")), repr_of(leaf), StringVal("\n")))),
               Implies(And(has_err, j >= 0, j < H0.length(el)), eline == H0.raw(el, j)),
               *[o == a["opts"].t for o in opts_seen])


def sf_post_lines(ctx):
    """every frame line of the result (the frames part is untouched by the leaf / error appends)"""
    a = ctx.args
    n = a["HB"].length(a["frames"].t)
    j = fresh_int("jl")
    ictx = type("C", (), {})()
    ictx.ex, ictx.H, ictx.H0, ictx.p = ctx.ex, ctx.H, ctx.H0, ctx.p
    ictx.v = lambda name: ctx.result.t
    return sf_line_ok(ictx, ctx.p, j, 1 + off(n), n - 1)


SF_UNIT = Unit("C18.Stack._format", SF, sf_setup,
               post=[Clause("C18.stack_format.header_leaf_error_and_length", sf_post),
                     Clause("C18.stack_format.every_frame_line_is_marker_plus_line_of_a_visible_frame", sf_post_lines)],
               invariants={(SF, "for#1"): sf_outer_inv(), (SF, "for#2"): sf_inner_inv()},
               allowed_raise=lambda ctx: BoolVal(False),
               **{**COMMON, "options": dict(COMMON.get("options", {}), strings=True, iter_any_seq=True),
                  "known_classes": list(COMMON.get("known_classes", [])) + ["FormatOptions"]},
               assumptions=["Frame._format / _format_header / _format_error are abstract here: some list of str lines each (callee contracts; "
                            "their text is decided by the bounded leg)",
                            "ghost functions C18.off (running line count) and C18.blk (owner of an output line) are introduced by their "
                            "defining equations"])


# ------------------------------------------------------------------------------------------------ Frame._format
# lines = [header] ++ (iff show_contexts) for each context in order its lines, the first prefixed by the start-of-context marker,
# a later one by the child-context marker iff it starts with the child indicator, else by the continuation marker ++ the code
# line (marker + linetext + newline) iff the last context is not exiting and there is a line text.
FF2 = TY + "Frame._format"
ctx_lines = Function("Context._format", Val, Val, Val, Val)      # (context, opts, parent) -> list of lines (callee contract: abstract)
coff = Function("C18.coff", IntSort(), IntSort())
cblk = Function("C18.cblk", IntSort(), IntSort())
clsname_of = Function("Frame.clsname", Val, Val)
modname_of_frame = Function("Frame.modname", Val, Val)
linetext_of = Function("Frame.linetext", Val, Val)


def opt_str_prop(fn, optional):
    def prop(ex, p, obj):
        v = fn(obj.t)
        p.pc.append(Or(Val.is_none(v), And(is_exact_kind(v, "str"), Val.a(v) >= 0)) if optional else And(is_exact_kind(v, "str"), Val.a(v) >= 0))
        return [("ok", p, SV(v, **({} if optional else {"ty": "str"})))]
    return prop


def ff2_setup(ex, p):
    self = sym_ref(p, "self", "Frame")
    cs = typed_seq(p, self, "contexts", "Context")
    p.pc.append(p.lo(cs.t) == 0)
    p.pc.append(Val.is_intv(p.getf(self.t, "lineno")))
    opts = sym_ref(p, "opts", "FormatOptions")
    for f in ("ascii_only", "show_contexts", "show_hidden_frames"):
        p.pc.append(Val.is_boolv(p.getf(opts.t, f)))
    p.pc.append(coff(0) == 0)
    p.env.update(self=self, opts=opts)
    H0 = p.snap()
    p.add_schema(cs.t, lambda pth, j: Implies(And(j >= 0, j < H0.length(cs.t)), Val.is_boolv(H0.getf(H0.raw(cs.t, j), "is_exiting"))))
    def m_ctx_format(ex_, p_, args, kw, node):
        if len(args) != 3 or kw:
            raise Unsupported("Context._format call shape")
        p_.ghost["cf_args"] = p_.ghost.get("cf_args", ()) + ((args[1].t, args[2].t),)
        return [("ok", p_, abstract_lines(p_, ctx_lines(args[0].t, args[1].t, args[2].t), ex_.unit_args["HB"]))]
    ex.unit.methods[("Context", "_format")] = m_ctx_format
    ex.unit.props.update({("Frame", "clsname"): opt_str_prop(clsname_of, True), ("Frame", "modname"): opt_str_prop(modname_of_frame, True),
                          ("Frame", "linetext"): opt_str_prop(linetext_of, False)})
    ex.unit_args = dict(self=self, contexts=cs, opts=opts, HB=p.snap())
    return ex.unit_args


def ff2_marker(H, a, t, line):
    asc = Val.b(H.getf(a["opts"].t, "ascii_only"))
    indicator = If(asc, StringVal(". "), StringVal("\u2500 "))
    return If(t == 0, If(asc, StringVal(". "), StringVal("\u251c ")),
              If(z3.PrefixOf(indicator, line), If(asc, StringVal("  "), StringVal("\u251c\u2500")), If(asc, StringVal("  "), StringVal("\u2502 "))))


def ff2_line_ok(ctx, pth, j, upper, bmax, lines=None):
    a = ctx.ex.unit_args
    H, HB = ctx.H, a["HB"]
    lines = lines if lines is not None else ctx.v("lines")
    b = cblk(j)
    cx = HB.raw(a["contexts"].t, b)
    cl = ctx_lines(cx, a["opts"].t, a["self"].t)
    t = j - 1 - coff(b)
    e = pth.read(lines, j, H)
    src = strval(Val.a(HB.raw(cl, t)))
    return Implies(And(j >= 1, j < upper),
                   And(b >= 0, b < HB.length(a["contexts"].t), b <= bmax, t >= 0, t < HB.length(cl), Val.a(cl) >= 0, HB.lo_(cl) == 0,
                       is_exact_kind(e, "str"), strval(Val.a(e)) == Concat(ff2_marker(HB, a, t, src), src),
                       Implies(j + 1 < upper, cblk(j) <= cblk(j + 1))))


def ff2_outer_inv():
    def qf(ctx):
        lines = ctx.v("lines")
        return And(lines == ctx.v0("lines"), ctx.H.lo_(lines) == 0, ctx.H.length(lines) == 1 + coff(ctx.k), coff(ctx.k) >= 0,
                   ctx.H.raw(lines, 0) == ctx.H0.raw(lines, 0))
    def defs(ctx):
        a = ctx.ex.unit_args
        ctx.p.ghost["ff_k"] = ctx.k
        HB = a["HB"]
        cx = HB.raw(a["contexts"].t, ctx.k)
        return coff(ctx.k + 1) == coff(ctx.k) + HB.length(ctx_lines(cx, a["opts"].t, a["self"].t))
    return Inv("C18.frame_format.contexts", qf=qf, defs=defs, conts=["lines"], header="context in self.contexts",
               foralls=[("lines", lambda ctx, pth, j: ff2_line_ok(ctx, pth, j, 1 + coff(ctx.k), ctx.k - 1))])


def ff2_inner_inv():
    def qf(ctx):
        lines = ctx.v("lines")
        K = ctx.p.ghost["ff_k"]
        return And(lines == ctx.v0("lines"), ctx.H.lo_(lines) == 0, ctx.H.length(lines) == 1 + coff(K) + ctx.k, coff(K) >= 0,
                   ctx.H.raw(lines, 0) == ctx.H0.raw(lines, 0))
    def step(ctx):
        K = ctx.p.ghost["ff_k"]
        ctx.p.pc.append(cblk(coff(K) + ctx.k) == K)
        return None
    return Inv("C18.frame_format.context_lines", qf=qf, conts=["lines"], steps=[("C18.frame_format.ghost_owner", step)],
               foralls=[("lines", lambda ctx, pth, j: ff2_line_ok(ctx, pth, j, 1 + coff(ctx.p.ghost["ff_k"]) + ctx.k, ctx.p.ghost["ff_k"]))])


def ff2_post(ctx):
    a = ctx.args
    H, HB = ctx.H, a["HB"]
    r = ctx.result.t
    n = HB.length(a["contexts"].t)
    showc = Val.b(HB.getf(a["opts"].t, "show_contexts"))
    asc = Val.b(HB.getf(a["opts"].t, "ascii_only"))
    nctx = If(showc, coff(n), 0)
    last_exiting = And(n > 0, Val.b(HB.getf(HB.raw(a["contexts"].t, n - 1), "is_exiting")))
    lt = strval(Val.a(linetext_of(a["self"].t)))
    has_code = And(Not(last_exiting), z3.Length(lt) > 0)
    codeline = ctx.p.read(r, 1 + nctx, H)
    cls_, fn_, mod_ = clsname_of(a["self"].t), funcname_of(a["self"].t), modname_of_frame(a["self"].t)
    function = If(Val.is_none(cls_), strval(Val.a(fn_)), Concat(strval(Val.a(cls_)), StringVal("."), strval(Val.a(fn_))))
    modtxt = If(Or(Val.is_none(mod_), z3.Length(strval(Val.a(mod_))) == 0), StringVal("unknown module"), strval(Val.a(mod_)))
    header = Concat(function, StringVal(" in "), modtxt, StringVal(" at "), strval(Val.a(filename_of(a["self"].t))), StringVal(":"),
                    repr_of(HB.getf(a["self"].t, "lineno")), StringVal("\n"))
    h0 = ctx.p.read(r, 0, H)
    seen = ctx.p.ghost.get("cf_args", ())
    return And(H.lo_(r) == 0, H.length(r) == 1 + nctx + If(has_code, 1, 0),
               is_exact_kind(h0, "str"), strval(Val.a(h0)) == header,
               Implies(has_code, And(is_exact_kind(codeline, "str"),
                                     strval(Val.a(codeline)) == Concat(If(asc, StringVal("` "), StringVal("\u2514 ")), lt, StringVal("\n")))),
               *[And(o == a["opts"].t, par == a["self"].t) for o, par in seen])


def ff2_post_lines(ctx):
    a = ctx.args
    n = a["HB"].length(a["contexts"].t)
    j = fresh_int("jl")
    import types as _t
    c2 = _t.SimpleNamespace(ex=ctx.ex, H=ctx.H, p=ctx.p)
    showc = Val.b(a["HB"].getf(a["opts"].t, "show_contexts"))
    return Implies(showc, ff2_line_ok(c2, ctx.p, j, 1 + coff(n), n - 1, lines=ctx.result.t))


FF2_UNIT = Unit("C18.Frame._format", FF2, ff2_setup,
                post=[Clause("C18.frame_format.header_code_line_and_length", ff2_post),
                      Clause("C18.frame_format.every_context_line_is_marker_plus_line_of_its_context", ff2_post_lines)],
                invariants={(FF2, "for#1"): ff2_outer_inv(), (FF2, "for#2"): ff2_inner_inv()},
                allowed_raise=lambda ctx: BoolVal(False),
                **{**COMMON, "props": dict(PROPS), "options": dict(COMMON.get("options", {}), strings=True, iter_any_seq=True),
                   "known_classes": list(COMMON.get("known_classes", [])) + ["FormatOptions"]},
                assumptions=["Context._format is abstract here (some list of str lines; callee contract); Frame.funcname / clsname / modname / "
                             "filename / linetext are abstract str-valued properties",
                             "ghost functions C18.coff / C18.cblk are introduced by their defining equations"])


# ------------------------------------------------------------------------------------------------ Context._format (partial)
# Proved here: a hidden context prints NOTHING unless show_hidden_frames (so no caller needs its own check); the first line is
# newline-terminated; the inner stack's lines follow verbatim, minus the stack's header; every later line starts with one of
# the two child markers.  NOT proved: which child a later line belongs to, the blank-line bookkeeping around child task
# stacks, the text of the first line - decided by the bounded leg.
CF = TY + "Context._format"
stack_lines = Function("Stack._format", Val, Val, Val)
child_ctx_lines = Function("Context._format(child)", Val, Val, Val)


def cf_setup(ex, p):
    self = sym_ref(p, "self", "Context")
    kids = sym_seq(p, "children_seq", "list")
    p.setf(self.t, "children", kids.t)
    p.pc.append(p.lo(kids.t) == 0)
    H0 = p.snap()
    p.add_schema(kids.t, lambda pth, j: Implies(And(j >= 0, j < H0.length(kids.t)),
                                                And(Or(is_kind(H0.raw(kids.t, j), "Context"), is_kind(H0.raw(kids.t, j), "Stack")), Val.a(H0.raw(kids.t, j)) >= 0,
                                                    Implies(is_kind(H0.raw(kids.t, j), "Stack"),
                                                            And(is_exact_kind(H0.getf(H0.raw(kids.t, j), "frames"), "list"), Val.a(H0.getf(H0.raw(kids.t, j), "frames")) >= 0)))))
    opts = sym_ref(p, "opts", "FormatOptions")
    parent = sym_any(p, "parent")
    show_lineno = sym_bool(p, "show_lineno")
    inner = p.getf(self.t, "inner_stack")
    desc = p.getf(self.t, "description")
    p.pc += [Val.is_boolv(p.getf(opts.t, f)) for f in ("ascii_only", "show_contexts", "show_hidden_frames")]
    p.pc += [Val.is_boolv(p.getf(self.t, "hide")), Val.is_boolv(p.getf(self.t, "is_async")),
             Or(Val.is_none(p.getf(self.t, "start_line")), Val.is_intv(p.getf(self.t, "start_line"))),
             Or(Val.is_none(desc), And(is_exact_kind(desc, "str"), Val.a(desc) >= 0)),
             Or(Val.is_none(inner), And(is_kind(inner, "Stack"), Val.a(inner) >= 0)),
             Or(Val.is_none(parent.t), And(is_kind(parent.t, "Frame"), Val.a(parent.t) >= 0))]
    p.env.update(self=self, opts=opts, parent=parent, show_lineno=show_lineno)
    def fresh_copy(ex_, p_, abstract):
        """a callee returns a NEW list on every call (the caller may mutate it): same elements as the abstract result"""
        HB = ex_.unit_args["HB"]
        arr = fresh("fmt_el", AV)
        n = HB.length(abstract.t)
        new = p_.new_seq("list", length=n, arr=arr)
        p_.add_schema(new, lambda pth, j: Implies(And(j >= 0, j < n), And(Select(arr, j) == pth.read(abstract.t, j, HB))))
        return SV(new, ty="list")
    def m_stack_format(ex_, p_, args, kw, node):
        if len(args) != 2 or kw:
            raise Unsupported("Stack._format call shape")
        ab = abstract_lines(p_, stack_lines(args[0].t, args[1].t), ex_.unit_args["HB"])
        p_.pc.append(ex_.unit_args["HB"].length(ab.t) >= 1)          # a Stack always prints its header line (unit C18.Stack._format)
        return [("ok", p_, fresh_copy(ex_, p_, ab))]
    def m_child_format(ex_, p_, args, kw, node):
        if len(args) != 2 or set(kw) != {"show_lineno"}:
            raise Unsupported("child Context._format call shape")
        ex_.oblig("C18.context_format.child_contexts_without_line_numbers", "clause", p_, kw["show_lineno"].t == mkbool(False))
        return [("ok", p_, fresh_copy(ex_, p_, abstract_lines(p_, child_ctx_lines(args[0].t, args[1].t), ex_.unit_args["HB"])))]
    def m_getline(ex_, p_, args, kw, node):
        return [("ok", p_, ex_.new_str(p_))]
    def m_nat(ex_, p_, args, kw, node):
        v = name_and_type(args[0].t)
        p_.pc += [is_exact_kind(v, "str"), Val.a(v) >= 0]
        return [("ok", p_, SV(v, ty="str"))]
    ex.unit.methods.update({("Stack", "_format"): m_stack_format, ("Context", "_format"): m_child_format, ("Context", "_name_and_type"): m_nat})
    ex.unit.bindings["linecache.getline"] = m_getline
    ex.unit_args = dict(self=self, opts=opts, parent=parent, kids=kids, HB=p.snap())
    return ex.unit_args


def cf_base(a, HB):
    inner = HB.getf(a["self"].t, "inner_stack")
    il = stack_lines(inner, a["opts"].t)
    return If(Val.is_none(inner), 1, 1 + If(HB.length(il) > 1, HB.length(il) - 1, 0))


def cf_marked(ctx, pth, j, lines):
    a = ctx.ex.unit_args
    asc = Val.b(a["HB"].getf(a["opts"].t, "ascii_only"))
    e = pth.read(lines, j, ctx.H)
    sv = strval(Val.a(e))
    return And(is_exact_kind(e, "str"), Or(z3.PrefixOf(If(asc, StringVal(". "), StringVal("\u2500 ")), sv), z3.PrefixOf(StringVal("  "), sv)))


def cf_outer_inv():
    def qf(ctx):
        lines = ctx.v("lines")
        a = ctx.ex.unit_args
        return And(lines == ctx.v0("lines"), ctx.H.lo_(lines) == 0, ctx.H.length(lines) >= cf_base(a, a["HB"]), Val.is_boolv(ctx.v("did_blank")))
    def keep(ctx, pth, j):
        a = ctx.ex.unit_args
        lines = ctx.v("lines")
        base = cf_base(a, a["HB"])
        return And(Implies(And(j >= 0, j < base), pth.read(lines, j, ctx.H) == ctx.H0.raw(lines, j)),
                   Implies(And(j >= base, j < ctx.H.length(lines)), cf_marked(ctx, pth, j, lines)))
    return Inv("C18.context_format.children", qf=qf, conts=["lines"], header="child in self.children", foralls=[("lines", keep)],
               var_types={"did_blank": "bool"})


def cf_inner_inv():
    def qf(ctx):
        lines = ctx.v("lines")
        a = ctx.ex.unit_args
        return And(lines == ctx.v0("lines"), ctx.H.lo_(lines) == 0, ctx.H.length(lines) >= ctx.H0.length(lines), ctx.v("did_blank") == ctx.v0("did_blank"))
    def keep(ctx, pth, j):
        a = ctx.ex.unit_args
        lines = ctx.v("lines")
        base = cf_base(a, a["HB"])
        return And(Implies(And(j >= 0, j < base), pth.read(lines, j, ctx.H) == ctx.H0.raw(lines, j)),
                   Implies(And(j >= base, j < ctx.H.length(lines)), cf_marked(ctx, pth, j, lines)))
    return Inv("C18.context_format.child_lines", qf=qf, conts=["lines"], foralls=[("lines", keep)])


def cf_post(ctx):
    a = ctx.args
    HB, H = a["HB"], ctx.H
    r = ctx.result.t
    hidden = And(Val.b(HB.getf(a["self"].t, "hide")), Not(Val.b(HB.getf(a["opts"].t, "show_hidden_frames"))))
    inner = HB.getf(a["self"].t, "inner_stack")
    il = stack_lines(inner, a["opts"].t)
    base = cf_base(a, HB)
    j = fresh_int("ji")
    first = ctx.p.read(r, 0, H)
    copied = ctx.p.read(r, 1 + j, H)
    ctx.p.read(il, 1 + j, HB)
    k = fresh_int("jm")
    import types as _t
    c2 = _t.SimpleNamespace(ex=ctx.ex, H=H, p=ctx.p)
    return If(hidden, And(is_exact_kind(r, "list"), H.length(r) == 0),
              And(H.lo_(r) == 0, H.length(r) >= base, is_exact_kind(first, "str"), z3.SuffixOf(StringVal("\n"), strval(Val.a(first))),
                  Implies(And(Not(Val.is_none(inner)), j >= 0, 1 + j < HB.length(il)), copied == HB.raw(il, 1 + j)),
                  Implies(And(k >= base, k < H.length(r)), cf_marked(c2, ctx.p, k, r))))


def cf_select_tail(fi):
    """the two marker assignments and everything from `lines = [linetext + "\\n"]` to the return.  Dropped by this extraction: the
    hide check (unit C18.Context._format.hidden) and the computation of the first line's text (`linetext` is an arbitrary str)"""
    body = fi.node.body
    start = next((i for i, st in enumerate(body) if isinstance(st, ast.Assign) and ast.unparse(st.targets[0]) == "lines"), None)
    markers = [st for st in body if isinstance(st, ast.Assign) and ast.unparse(st.targets[0]) in ("start_child", "continue_child")]
    if start is None or len(markers) != 2 or "linetext" not in ast.unparse(body[start].value):
        raise KeyError("contract anchor lost: tail of Context._format not found")
    return markers + body[start:]


def cf_select_head(fi):
    """everything before the marker assignments (on the current tree: exactly the hide check).  If the check is moved away, the
    prefix no longer returns [] for a hidden context and the clause below is refuted - which is what the property wants: every
    caller (Frame._format AND Context._format's own children loop) relies on it."""
    body = fi.node.body
    end = next((i for i, st in enumerate(body) if isinstance(st, ast.Assign) and ast.unparse(st.targets[0]) == "start_child"), None)
    if end is None:
        raise KeyError("contract anchor lost: marker assignments of Context._format not found")
    return [st for st in body[:end] if not (isinstance(st, ast.Expr) and isinstance(st.value, ast.Constant))]


def cf_tail_setup(ex, p):
    a = cf_setup(ex, p)
    lt = sym_ref(p, "linetext", "str")
    p.env["linetext"] = SV(lt.t, ty="str")
    # the tail runs only for a context that is not hidden-and-suppressed
    p.pc.append(Not(And(Val.b(p.getf(a["self"].t, "hide")), Not(Val.b(p.getf(a["opts"].t, "show_hidden_frames"))))))
    return a


def cf_head_post(ctx):
    a = ctx.args
    hidden = And(Val.b(a["HB"].getf(a["self"].t, "hide")), Not(Val.b(a["HB"].getf(a["opts"].t, "show_hidden_frames"))))
    if ctx.out.kind == "return":
        return And(hidden, is_exact_kind(ctx.result.t, "list"), ctx.H.length(ctx.result.t) == 0)
    return Not(hidden)


import ast  # noqa: E402
CF_HEAD_UNIT = Unit("C18.Context._format.hidden", CF, cf_setup, body_of=cf_select_head,
                    post=[Clause("C18.context_format.hidden_context_prints_nothing", cf_head_post)],
                    allowed_raise=lambda ctx: BoolVal(False),
                    **{**COMMON, "props": dict(PROPS), "known_classes": list(COMMON.get("known_classes", [])) + ["FormatOptions"]},
                    assumptions=["extraction: only the statements of Context._format before its marker assignments are executed"])

CF_UNIT = Unit("C18.Context._format.tail", CF, cf_tail_setup, body_of=cf_select_tail,
               post=[Clause("C18.context_format.first_line_inner_stack_and_markers", cf_post)],
               invariants={(CF, "for#1"): cf_outer_inv(), (CF, "for#2"): cf_inner_inv()},
               allowed_raise=lambda ctx: BoolVal(False),
               **{**COMMON, "props": dict(PROPS), "options": dict(COMMON.get("options", {}), strings=True, iter_any_seq=True),
                  "known_classes": list(COMMON.get("known_classes", [])) + ["FormatOptions"],
                  "field_types": dict(COMMON.get("field_types", {}), frames="list")},
               assumptions=["Stack._format / child Context._format / _name_and_type / linecache.getline are abstract (lists of str lines, a str)",
                            "partial: see the comment above the unit for what is not proved"])

UNITS = [SS_UNIT, FC_UNIT, FP_UNIT, cs_unit(), SA_UNIT, FF_UNIT, FSTR_UNIT, SF_UNIT, FF2_UNIT]

UNITS += [CF_HEAD_UNIT, CF_UNIT]


# ------------------------------------------------------------------------------------------------ small text helpers (C18 / C19)
def hdr_setup(ex, p):
    self = sym_ref(p, "self", "Stack")
    p.env["self"] = self
    return dict(self=self)


def hdr_post(ctx):
    root = ctx.H0.getf(ctx.args["self"].t, "root")
    r = strval(Val.a(ctx.result.t))
    # the root is named whenever there is one, however it answers bool()
    return If(Val.is_none(root), r == StringVal("stackscope.Stack (most recent call last):\n"),
              r == Concat(StringVal("stackscope.Stack of "), repr_of(root), StringVal(" (most recent call last):\n")))


HDR_UNIT = Unit("C19.Stack._format_header", TY + "Stack._format_header", hdr_setup, post=[Clause("C19.header_names_the_root_iff_there_is_one", hdr_post)],
                allowed_raise=lambda ctx: BoolVal(False), **{**COMMON, "options": dict(COMMON.get("options", {}), strings=True)})


def nat_setup(ex, p):
    self = sym_ref(p, "self", "Context")
    vn = p.getf(self.t, "varname")
    p.pc.append(Or(Val.is_none(vn), And(is_exact_kind(vn, "str"), Val.a(vn) >= 0)))
    p.env["self"] = self
    return dict(self=self)


typename_of = Function("type(x).__name__", Val, z3.StringSort())


def nat_post(ctx):
    a = ctx.args
    obj, vn = ctx.H0.getf(a["self"].t, "obj"), ctx.H0.getf(a["self"].t, "varname")
    r = strval(Val.a(ctx.result.t))
    vtxt = If(Or(Val.is_none(vn), z3.Length(strval(Val.a(vn))) == 0), StringVal("_"), strval(Val.a(vn)))
    # "<name or _>: <type name>" iff there IS a manager object (whatever its truth value), the bare name iff there is none
    return If(Not(Val.is_none(obj)), z3.PrefixOf(Concat(vtxt, StringVal(": ")), r),
              If(Not(Val.is_none(vn)), r == strval(Val.a(vn)), r == StringVal("")))


def nat_unit():
    def m_name(ex, p, obj):
        return [("ok", p, SV(fresh("typename"), ty="str"))]
    return Unit("C18.Context._name_and_type", TY + "Context._name_and_type", nat_setup,
                post=[Clause("C18.name_and_type.names_the_type_iff_there_is_an_object", nat_post)],
                allowed_raise=lambda ctx: BoolVal(False),
                **{**COMMON, "props": {**PROPS, ("*", "__name__"): m_name}, "options": dict(COMMON.get("options", {}), strings=True)},
                assumptions=["type(obj).__name__ is some str"])


NAT_UNIT = nat_unit()


# format_flat: header, then the stdlib rendering of the summary iff there are frames, then the leaf line iff there is a leaf, then
# the error lines iff there is an error
summary_of = Function("Stack.as_stdlib_summary", Val, Val, Val)
summary_format = Function("StackSummary.format", Val, Val)


def flat_setup(ex, p):
    self = sym_ref(p, "self", "Stack")
    fr = typed_seq(p, self, "frames", "Frame")
    sc = sym_bool(p, "show_contexts")
    p.env.update(self=self, show_contexts=sc)
    def m_hdr(ex_, p_, args, kw, node):
        h = header_of(args[0].t)
        p_.pc += [is_exact_kind(h, "str"), Val.a(h) >= 0]
        return [("ok", p_, SV(h, ty="str"))]
    def m_summary(ex_, p_, args, kw, node):
        if len(args) != 1 or set(kw) != {"show_contexts"}:
            raise Unsupported("as_stdlib_summary call shape in format_flat")
        return [("ok", p_, SV(summary_of(args[0].t, kw["show_contexts"].t), ty="StackSummary"))]
    def m_sformat(ex_, p_, args, kw, node):
        return [("ok", p_, abstract_lines(p_, summary_format(args[0].t), ex_.unit_args["HB"]))]
    def m_err(ex_, p_, args, kw, node):
        return [("ok", p_, abstract_lines(p_, error_lines(args[0].t), ex_.unit_args["HB"]))]
    ex.unit.methods.update({("Stack", "_format_header"): m_hdr, ("Stack", "as_stdlib_summary"): m_summary, ("StackSummary", "format"): m_sformat,
                            ("Stack", "_format_error"): m_err})
    ex.unit_args = dict(self=self, frames=fr, sc=sc, HB=p.snap())
    return ex.unit_args


def flat_post(ctx):
    a = ctx.args
    H, HB = ctx.H, a["HB"]
    r = ctx.result.t
    has_frames = HB.length(a["frames"].t) > 0
    leaf, err = HB.getf(a["self"].t, "leaf"), HB.getf(a["self"].t, "error")
    sf = summary_format(summary_of(a["self"].t, a["sc"].t))
    el = error_lines(a["self"].t)
    n_s = If(has_frames, HB.length(sf), 0)
    n_l = If(Val.is_none(leaf), 0, 1)
    j, k = fresh_int("js"), fresh_int("ke")
    leafline = ctx.p.read(r, 1 + n_s, H)
    return And(H.lo_(r) == 0, H.length(r) == 1 + n_s + n_l + If(Val.is_none(err), 0, HB.length(el)),
               ctx.p.read(r, 0, H) == header_of(a["self"].t),
               Implies(And(has_frames, j >= 0, j < HB.length(sf)), ctx.p.read(r, 1 + j, H) == HB.raw(sf, j)),
               Implies(Not(Val.is_none(leaf)), And(is_exact_kind(leafline, "str"),
                                                     strval(Val.a(leafline)) == Concat(StringVal("  Target of innermost frame: "), repr_of(leaf), StringVal("\n")))),
               Implies(And(Not(Val.is_none(err)), k >= 0, k < HB.length(el)), ctx.p.read(r, 1 + n_s + n_l + k, H) == HB.raw(el, k)))


FLAT_UNIT = Unit("C19.Stack.format_flat", TY + "Stack.format_flat", flat_setup,
                 post=[Clause("C19.format_flat.header_summary_leaf_error_in_this_order", flat_post)],
                 allowed_raise=lambda ctx: BoolVal(False),
                 **{**COMMON, "options": dict(COMMON.get("options", {}), strings=True, iter_any_seq=True)},
                 assumptions=["_format_header / as_stdlib_summary / StackSummary.format / _format_error are abstract (own units or the traceback module)"])


# ------------------------------------------------------------------------------------------------ Stack._format_error (generator)
# yields the heading, then for every chunk of traceback.format_exception(type(err), err, err.__traceback__) other than the banner,
# every line of chunk.splitlines(True) with two spaces in front, in order, and nothing else
FE = TY + "Stack._format_error"
fe_chunks = Function("traceback.format_exception", Val, Val)       # (the error) -> list of str chunks (stdlib: abstract)
split_of = Function("str.splitlines(True)", Val, Val)              # (chunk) -> list of str lines (stdlib: abstract)
BANNER = "Traceback (most recent call last):\n"


def fe_setup(ex, p):
    self = sym_ref(p, "self", "Stack")
    err = sym_ref(p, "error", "exception")
    p.setf(self.t, "error", err.t)
    p.env["self"] = self
    HB = p.snap()
    def m_fe(ex_, p_, args, kw, node):
        sp = args[0].get("special") if args else None
        ok = len(args) == 3 and not kw and sp is not None and sp[0] == "type"
        p_.ghost["fe_call"] = (BoolVal(False) if not ok else
                               And(sp[1].t == err.t, args[1].t == err.t, args[2].t == HB.getf(err.t, "__traceback__")))
        return [("ok", p_, abstract_lines(p_, fe_chunks(args[1].t if len(args) > 1 else NONE), HB))]
    def m_split(ex_, p_, args, kw, node):
        keep = len(args) == 2 and not kw
        p_.ghost["fe_keepends"] = And(Val.is_boolv(args[1].t), Val.b(args[1].t)) if keep else BoolVal(False)
        return [("ok", p_, abstract_lines(p_, split_of(args[0].t), HB))]
    ex.unit.bindings["traceback.format_exception"] = m_fe
    ex.unit.methods[("str", "splitlines")] = m_split
    ex.unit_args = dict(self=self, err=err, HB=HB)
    return ex.unit_args


def fe_outer_inv():
    def setup(ctx):
        ctx.p.ghost["fe_pre"] = list(ctx.p.yielded)          # what was yielded before the loop: the heading
        ctx.p.ghost["fe_iter"] = ctx.seq.t
    def ghost_havoc(ctx):
        ctx.p.yielded = []
        ctx.p.ghost.pop("fe_inner", None)
    def step(ctx):
        a = ctx.ex.unit_args
        line = ctx.v("line")
        is_banner = strval(Val.a(line)) == StringVal(BANNER)
        inner = ctx.p.ghost.get("fe_inner")
        if inner is None:
            # the inner loop was not reached in this iteration: allowed exactly for the banner, and nothing may be yielded
            return And(is_banner, BoolVal(not ctx.p.yielded))
        return And(Not(is_banner), inner == split_of(line), ctx.p.ghost.get("fe_keepends", BoolVal(False)), BoolVal(not ctx.p.yielded))
    return Inv("C18.format_error.chunks", qf=lambda ctx: BoolVal(True), setup=setup, ghost_havoc=ghost_havoc,
               steps=[("C18.format_error.chunk_iteration", step)], header="traceback.format_exception")


def fe_inner_inv():
    def setup(ctx):
        ctx.p.ghost["fe_inner"] = ctx.seq.t
        ctx.p.ghost["fe_inner_pre"] = BoolVal(not ctx.p.yielded)
    def ghost_havoc(ctx):
        ctx.p.yielded = []
    def step(ctx):
        out = segs(ctx.p)
        if len(out) != 1 or out[0][0] != "one":
            return BoolVal(False)
        t = out[0][1]
        return And(is_exact_kind(t, "str"), strval(Val.a(t)) == Concat(StringVal("  "), strval(Val.a(ctx.v("subline")))),
                   ctx.p.ghost.get("fe_inner_pre", BoolVal(False)))
    return Inv("C18.format_error.lines_of_chunk", qf=lambda ctx: BoolVal(True), setup=setup, ghost_havoc=ghost_havoc,
               steps=[("C18.format_error.each_line_indented_by_two", step)], header="splitlines")


def fe_post(ctx):
    a = ctx.args
    pre = ctx.p.ghost.get("fe_pre")
    if pre is None or len(pre) != 1 or pre[0].get("all_of") is not None or ctx.p.yielded:
        return BoolVal(False)
    h = pre[0].t
    return And(is_exact_kind(h, "str"), strval(Val.a(h)) == StringVal("  Error while extracting stack:\n"),
               ctx.p.ghost.get("fe_call", BoolVal(False)), ctx.p.ghost.get("fe_iter") == fe_chunks(a["err"].t))


FE_UNIT = Unit("C18.Stack._format_error", FE, fe_setup,
               post=[Clause("C18.format_error.heading_then_chunks_of_the_recorded_error", fe_post, on=("return", "normal"))],
               invariants={(FE, "for#1"): fe_outer_inv(), (FE, "for#2"): fe_inner_inv()},
               allowed_raise=lambda ctx: BoolVal(False),
               **{**COMMON, "options": dict(COMMON.get("options", {}), strings=True, iter_any_seq=True)},
               assumptions=["traceback.format_exception and str.splitlines(True) are abstract: some list of str each (stdlib)",
                            "precondition self.error is not None (both call sites test it; Stack._format / format_flat units)",
                            "generator cut: each clause constrains what ONE iteration yields; that the output is the concatenation over "
                            "iterations is the meaning of the loop, not a separate obligation"])


# ------------------------------------------------------------------------------------------------ Frame.filename / funcname / linetext
# the names a summary entry and a formatted frame carry are those of the frame's OWN code object; the source text is blank
# iff lineno == 0 or hide_line, else linecache's line for (own filename, own lineno, own globals), stripped
getline_of = Function("linecache.getline", Val, Val, Val, Val)
strip_of = Function("str.strip", Val, Val)


def nm_setup(ex, p):
    self = sym_ref(p, "self", "Frame")
    pf = sym_ref(p, "pyframe", "frame")
    co = sym_ref(p, "code", "code")
    p.setf(self.t, "pyframe", pf.t)
    p.setf(pf.t, "f_code", co.t)
    p.pc += [Val.is_intv(p.getf(self.t, "lineno")), Val.is_boolv(p.getf(self.t, "hide_line"))]
    p.env["self"] = self
    def m_getline(ex_, p_, args, kw, node):
        if len(args) != 3 or kw:
            raise Unsupported("linecache.getline call shape")
        return [("ok", p_, SV(getline_of(args[0].t, args[1].t, args[2].t), ty="str"))]
    def m_strip(ex_, p_, args, kw, node):
        if len(args) != 1 or kw:
            raise Unsupported("strip() call shape")
        return [("ok", p_, SV(strip_of(args[0].t), ty="str"))]
    ex.unit.bindings["linecache.getline"] = m_getline
    ex.unit.methods[("str", "strip")] = m_strip
    return dict(self=self, pf=pf, co=co)


def nm_unit(attr, cofield):
    def post(ctx):
        return ctx.result.t == ctx.H0.getf(ctx.args["co"].t, cofield)
    return Unit(f"C19.Frame.{attr}", TY + f"Frame.{attr}", nm_setup, post=[Clause(f"C19.frame_{attr}_is_own_code_{cofield}", post)],
                allowed_raise=lambda ctx: BoolVal(False), **{**COMMON, "props": {}, "field_types": {"pyframe": "frame", "f_code": "code"}})


def lt_post(ctx):
    a = ctx.args
    H0 = ctx.H0
    s = a["self"].t
    blank = Or(Val.i(H0.getf(s, "lineno")) == 0, Val.b(H0.getf(s, "hide_line")))
    r = ctx.result.t
    return If(blank, And(is_exact_kind(r, "str"), strval(Val.a(r)) == StringVal("")),
              r == strip_of(getline_of(H0.getf(a["co"].t, "co_filename"), H0.getf(s, "lineno"), H0.getf(a["pf"].t, "f_globals"))))


def lt_unit():
    def prop_filename(ex, p, o):
        # Frame.filename is its own unit: here it IS the code object's co_filename
        return [("ok", p, SV(p.getf(p.getf(p.getf(o.t, "pyframe"), "f_code"), "co_filename"), ty="str"))]
    return Unit("C18.Frame.linetext", TY + "Frame.linetext", nm_setup, post=[Clause("C18.linetext_blank_iff_no_line_or_hidden_else_own_source_line", lt_post)],
                allowed_raise=lambda ctx: BoolVal(False),
                **{**COMMON, "props": {("Frame", "filename"): prop_filename}, "field_types": {"pyframe": "frame", "f_code": "code"},
                   "options": dict(COMMON.get("options", {}), strings=True)},
                assumptions=["linecache.getline and str.strip are abstract (stdlib); Frame.filename by its own unit"])


# Frame.clsname / modname: heuristics that must never raise; no class without a first argument named self / cls
qualname_of = Function("type.__qualname__ or __name__", Val, Val)


def cn_setup(ex, p):
    a = nm_setup(ex, p)
    co, pf = a["co"], a["pf"]
    vn = sym_seq(p, "co_varnames", "tuple")
    loc = sym_ref(p, "f_locals", "dict")
    glb = sym_ref(p, "f_globals", "dict")
    p.setf(co.t, "co_varnames", vn.t)
    p.setf(pf.t, "f_locals", loc.t)
    p.setf(pf.t, "f_globals", glb.t)
    H0 = p.snap()
    p.pc += [Val.is_intv(p.getf(co.t, "co_argcount")), Val.i(p.getf(co.t, "co_argcount")) >= 0, H0.lo_(vn.t) == 0,
             H0.length(vn.t) >= Val.i(p.getf(co.t, "co_argcount"))]
    p.add_schema(vn.t, lambda pth, j: Implies(And(j >= 0, j < H0.length(vn.t)), And(is_exact_kind(H0.raw(vn.t, j), "str"), Val.a(H0.raw(vn.t, j)) >= 0)))
    def b_getattr(ex_, p_, args, kw, node):
        # getattr(T, "__qualname__", None) or getattr(T, "__name__", None): some str or None
        r = fresh("tname")
        p_.pc.append(Or(Val.is_none(r), And(is_exact_kind(r, "str"), Val.a(r) >= 0)))
        return [("ok", p_, SV(r))]
    ex.unit.bindings["getattr"] = b_getattr
    a.update(vn=vn, loc=loc, glb=glb, H0=H0)
    return a


def cn_post(ctx):
    a = ctx.args
    H0 = a["H0"]
    r = ctx.result.t
    argc = Val.i(H0.getf(a["co"].t, "co_argcount"))
    first = strval(Val.a(ctx.p.read(a["vn"].t, 0, H0)))
    return And(Implies(argc == 0, Val.is_none(r)),
               Implies(And(argc > 0, first != StringVal("self"), first != StringVal("cls")), Val.is_none(r)),
               Or(Val.is_none(r), is_exact_kind(r, "str")))


CN_UNIT = Unit("C18.Frame.clsname", TY + "Frame.clsname", cn_setup,
               post=[Clause("C18.clsname_only_for_a_first_argument_named_self_or_cls", cn_post)],
               allowed_raise=lambda ctx: BoolVal(False),
               **{**COMMON, "props": {}, "field_types": {"pyframe": "frame", "f_code": "code", "f_locals": "dict", "f_globals": "dict", "co_varnames": "tuple"},
                  "options": dict(COMMON.get("options", {}), strings=True)},
               assumptions=["getattr(T, name, None) is total and gives a str or None; type(x) is total"])


def mn_post(ctx):
    a = ctx.args
    H0 = a["H0"]
    key = ctx.ex.const(ctx.p, "__name__").t
    r = ctx.result.t
    return If(H0.dhas(a["glb"].t, key), r == H0.dget(a["glb"].t, key), Val.is_none(r))


MN_UNIT = Unit("C18.Frame.modname", TY + "Frame.modname", cn_setup,
               post=[Clause("C18.modname_is_the_globals_name_or_none", mn_post)],
               allowed_raise=lambda ctx: BoolVal(False),
               **{**COMMON, "props": {}, "field_types": {"pyframe": "frame", "f_code": "code", "f_locals": "dict", "f_globals": "dict", "co_varnames": "tuple"},
                  "bindings": dict(COMMON["bindings"], cast=lambda ex_, p_, args, kw, node: [("ok", p_, args[1])]),
                  "options": dict(COMMON.get("options", {}), strings=True)})

NAME_UNITS = [nm_unit("filename", "co_filename"), nm_unit("funcname", "co_name"), lt_unit(), CN_UNIT, MN_UNIT]
UNITS += [HDR_UNIT, NAT_UNIT, FLAT_UNIT, FE_UNIT] + NAME_UNITS
