"""Small glue functions under contract: built-in unwrappers (C03), unwrap_thread (C07), unwrap_greenlet (C15),
Trio task/nursery glue (C14), generator-based context manager glue (C09, C11)."""
from .extract_env import *  # noqa
from .c13 import fields_now
from pyvc.calls import hasattr_fn
import ast

G = "stackscope._glue."
for c_ in ("greenlet", "thread", "task", "nursery", "nursery_manager", "gcm", "referents"):
    register_class(c_)


# ------------------------------------------------------------------------------------------------ C03: unwrappers
def gen_unit(fname, argname, kindname, run_attr, frame_attr, await_attr, extra_running=None):
    def setup(ex, p):
        g = sym_ref(p, argname, kindname)
        p.pc.append(Val.is_boolv(p.getf(g.t, run_attr)))
        p.env[argname] = g
        return {argname: g}

    def post(ctx):
        g = ctx.args[argname].t
        H0, H = ctx.H0, ctx.H
        running = Val.b(H0.getf(g, run_attr))
        if extra_running:
            running = And(running, extra_running(H0, g))
        r = ctx.result.t
        susp = And(is_exact_kind(r, "tuple"), H.length(r) == 2, H.at(r, 0) == H0.getf(g, frame_attr), H.at(r, 1) == H0.getf(g, await_attr))
        run = And(is_kind(r, "StackSlice"), H.getf(r, "outer") == H0.getf(g, frame_attr), H.getf(r, "inner") == NONE,
                  H.getf(r, "limit") == NONE)
        return If(running, run, susp)
    return Unit(f"C03.{fname}", G + "glue_builtins." + fname, setup, post=[Clause(f"C03.{fname}.result", post)],
                bindings=dict(EXTRACT_BINDINGS), methods=dict(STD_METHODS), ctors=dict(CTORS), known_classes=KNOWN,
                assumptions=["CPython object model (assumed): a suspended generator/coroutine/async generator propagates a thrown "
                             "exception through gi_frame/cr_frame/ag_frame and then its gi_yieldfrom/cr_await/ag_await; while "
                             "running, its frame is on the thread's f_back chain"])


def referents_unit(fname, attr):
    HAS = hasattr_fn(attr)
    holder = {}
    fq = G + "glue_builtins." + fname

    def setup(ex, p):
        aw = sym_any(p, "aw")
        refs = sym_seq(p, "referents", "list")
        holder["refs"] = refs
        ex.unit.bindings["gc.get_referents"] = lambda ex_, p_, args, kw, node: [("ok", p_, refs)]
        p.env["aw"] = aw
        return dict(aw=aw, refs=refs)

    def none_before(ctx, pth, j):
        refs = holder["refs"].t
        return Implies(And(j >= ctx.H.lo_(refs), j < ctx.H.lo_(refs) + ctx.k), Not(HAS(pth.read(refs, j, ctx.H))))

    def post(ctx):
        refs = ctx.args["refs"].t
        k = ctx.p.ghost.get("exit_k:for#1")
        j = fresh_int("jr")
        return And(k >= 0, k < ctx.H0.length(refs), ctx.result.t == ctx.p.elem(refs, k, ctx.H0), HAS(ctx.result.t),
                   Implies(And(j >= 0, j < k), Not(HAS(ctx.p.elem(refs, j, ctx.H0)))))

    def raise_ok(ctx):
        refs = ctx.args["refs"].t
        j = fresh_int("jr")
        return And(is_kind(ctx.exc.t, "RuntimeError"),
                   Implies(And(j >= 0, j < ctx.H0.length(refs)), Not(HAS(ctx.p.elem(refs, j, ctx.H0)))))

    return Unit(f"C03.{fname}", fq, setup, post=[Clause(f"C03.{fname}.first_referent_with_{attr}", post)],
                bindings=dict(EXTRACT_BINDINGS), methods=dict(STD_METHODS), ctors=dict(CTORS), known_classes=KNOWN,
                invariants={(fq, "for#1"): Inv(f"C03.{fname}.scan", qf=lambda ctx: BoolVal(True),
                                               foralls=[(lambda p_: holder["refs"].t, none_before)])},
                allowed_raise=raise_ok, options=dict(iter_any_seq=True),
                assumptions=["gc.get_referents(aw) lists the objects aw refers to (interpreter behaviour); the asend/athrow awaitable "
                             "and the coroutine_wrapper refer to their async generator / coroutine"])


# ------------------------------------------------------------------------------------------------ C07: unwrap_thread
def thread_setup(ex, p):
    th = sym_ref(p, "thread", "thread")
    frames = sym_ref(p, "current_frames", "dict")
    alive1, alive2 = z3.Bool("alive_before"), z3.Bool("alive_after")
    p.ghost["alive_calls"] = 0

    def is_alive(ex_, p_, args, kw, node):
        n = p_.ghost["alive_calls"]
        p_.ghost["alive_calls"] = n + 1
        p_.trace = p_.trace + [("is_alive", (), None)]
        return [("ok", p_, sv_bool(alive1 if n == 0 else alive2))]

    def current_frames(ex_, p_, args, kw, node):
        p_.trace = p_.trace + [("_current_frames", (), None)]
        return [("ok", p_, SV(frames.t, ty="dict"))]
    ex.unit.methods[("thread", "is_alive")] = is_alive
    ex.unit.bindings["sys._current_frames"] = current_frames
    p.env["thread"] = th
    return dict(thread=th, frames=frames, alive1=alive1, alive2=alive2)


def thread_post(ctx):
    th, fr = ctx.args["thread"].t, ctx.args["frames"].t
    ident = ctx.H0.getf(th, "ident")
    f = If(ctx.H0.dhas(fr, ident), ctx.H0.dget(fr, ident), NONE)
    ok = And(f != NONE, ctx.args["alive1"], ctx.args["alive2"])
    r = ctx.result.t
    order = [t[0] for t in ctx.p.trace]
    # the frame is read BETWEEN the two liveness checks (guards against ident reuse)
    seq_ok = order[:2] == ["is_alive", "_current_frames"] and (len(order) < 3 or order[2] == "is_alive")
    return And(BoolVal(seq_ok),
               If(ok, And(is_kind(r, "StackSlice"), ctx.H.getf(r, "inner") == f, ctx.H.getf(r, "outer") == NONE, ctx.H.getf(r, "limit") == NONE),
                  And(is_exact_kind(r, "list"), ctx.H.length(r) == 0)))


THREAD_UNIT = Unit("C07.unwrap_thread", G + "glue_threading.unwrap_thread", thread_setup,
                   post=[Clause("C07.unwrap_thread.alive_before_and_after", thread_post)],
                   bindings=dict(EXTRACT_BINDINGS), methods=dict(STD_METHODS), ctors=dict(CTORS), known_classes=KNOWN,
                   field_types={}, assumptions=["sys._current_frames() maps thread idents to their current frames; frames reachable by "
                                                "f_back from a thread's current frame belong to that thread"])


# ------------------------------------------------------------------------------------------------ C14: trio glue
def task_setup(ex, p):
    t = sym_ref(p, "task", "task")
    p.env["task"] = t
    return dict(task=t)


TASK_UNIT = Unit("C14.unwrap_task", G + "glue_trio.unwrap_task", task_setup,
                 post=[Clause("C14.unwrap_task.is_coro", lambda ctx: ctx.result.t == ctx.H0.getf(ctx.args["task"].t, "coro"))],
                 bindings=dict(EXTRACT_BINDINGS), methods=dict(STD_METHODS), known_classes=KNOWN)


ec_stack = Function("extract_child_result", Val, Val, Val)     # the Stack extract_child(item, for_task=...) returns (ghost)


def contract_extract_child_glue(ex, p, args, kwargs, node):
    """callee contract of extract_child (unit C13.extract_child) as seen by glue: a fresh Stack, options untouched;
       RuntimeError only outside an extraction (glue runs inside one: precondition)"""
    st = ec_stack(args[0].t, kwargs["for_task"].t)
    p.pc += [is_kind(st, "Stack"), Val.a(st) >= 0]
    p.trace = p.trace + [("extract_child", (args[0].t, kwargs["for_task"].t), ("ret", st))]
    return [("ok", p, SV(st, ty="Stack"))]


def nursery_setup(ex, p):
    mgr = sym_ref(p, "manager", "nursery_manager")
    ctxo = sym_ref(p, "context", "Context")
    nur = sym_ref(p, "the_nursery", "nursery")
    tasks = sym_seq(p, "child_tasks", "list")
    p.setf(mgr.t, "_nursery", nur.t)
    p.setf(nur.t, "child_tasks", tasks.t)
    p.env.update(manager=mgr, context=ctxo)
    ex.unit.bindings["trio.Nursery"] = cls("nursery")
    return dict(manager=mgr, context=ctxo, nursery=nur, tasks=tasks)


def nursery_post(ctx):
    c, nur, tasks = ctx.args["context"].t, ctx.args["nursery"].t, ctx.args["tasks"].t
    H = ctx.H
    ch = H.getf(c, "children")
    j = fresh_int("jc")
    el = ctx.p.read(ch, H.lo_(ch) + j, H)
    # children[j] is the Stack returned by extract_child(child_tasks[j], for_task=True): the comprehension's element
    # schema ties element j to a call of the extract_child contract on task j
    return And(H.getf(c, "obj") == nur, is_exact_kind(ch, "list"), H.length(ch) == ctx.H0.length(tasks),
               Implies(And(j >= 0, j < H.length(ch)), el == ec_stack(ctx.p.elem(tasks, j, ctx.H0), mkbool(True))))


NURSERY_UNIT = Unit("C14.elaborate_nursery", G + "glue_trio.elaborate_nursery", nursery_setup,
                    post=[Clause("C14.elaborate_nursery.obj_and_children", nursery_post)],
                    bindings=dict(EXTRACT_BINDINGS, **{"_extract.extract_child": contract_extract_child_glue}),
                    methods=dict(STD_METHODS), ctors=dict(CTORS), known_classes=KNOWN + ["nursery"],
                    field_types={"child_tasks": "list"}, options=dict(iter_any_seq=True),
                    allowed_raise=lambda ctx: BoolVal(False),
                    assumptions=["Trio (assumed): manager._nursery is the trio.Nursery the manager opened; nursery.child_tasks iterates "
                                 "its child tasks"])

# ------------------------------------------------------------------------------------------------ C15: unwrap_greenlet
reach = Function("fback_reach", Val, Val, BoolSort())     # ghost: b is on the f_back chain starting at a
UG = G + "glue_greenlet.unwrap_greenlet"


def frame_typed(H, f):
    fb = H.getf(f, "f_back")
    return Implies(is_kind(f, "frame"), Or(Val.is_none(fb), And(is_kind(fb, "frame"), Val.a(fb) >= 0)))


def greenlet_setup(ex, p):
    glet = sym_ref(p, "glet", "greenlet")
    cur = sym_ref(p, "cur_greenlet", "greenlet")
    caller = sym_ref(p, "true_caller", "frame")
    gf = p.getf(glet.t, "gr_frame")
    p.pc += [Or(Val.is_none(gf), is_kind(gf, "frame")),
             Or(Val.is_none(p.getf(glet.t, "parent")), is_kind(p.getf(glet.t, "parent"), "greenlet"))]
    par = p.getf(glet.t, "parent")
    pgf = p.getf(par, "gr_frame")
    p.pc.append(Implies(is_kind(par, "greenlet"), Or(Val.is_none(pgf), is_kind(pgf, "frame"))))
    p.pc += [reach(caller.t, caller.t), reach(gf, gf)]        # base case of the ghost reachability definition
    ex.unit.bindings["greenlet_getcurrent"] = lambda ex_, p_, a, k, n: [("ok", p_, cur)]
    ex.unit.bindings["get_true_caller"] = lambda ex_, p_, a, k, n: [("ok", p_, caller)]
    p.env["glet"] = glet
    return dict(glet=glet, cur=cur, caller=caller)


def walk_inv(name, start_of):
    def qf(ctx):
        o = ctx.v("outer_frame")
        return And(is_kind(o, "frame"), Val.a(o) >= 0, reach(start_of(ctx), o), ctx.v("inner_frame") == ctx.v0("inner_frame"))
    def defs(ctx):
        o = ctx.v("outer_frame")
        st = start_of(ctx)
        fb = ctx.H.getf(o, "f_back")
        return And(reach(st, st), Implies(And(reach(st, o), Not(Val.is_none(fb))), reach(st, fb)), frame_typed(ctx.H, o))
    return Inv(name, qf=qf, defs=defs)


def greenlet_post(ctx):
    H0, H = ctx.H0, ctx.H
    glet, cur, caller = ctx.args["glet"].t, ctx.args["cur"].t, ctx.args["caller"].t
    gf = H0.getf(glet, "gr_frame")
    par = H0.getf(glet, "parent")
    pgf = H0.getf(par, "gr_frame")
    r = ctx.result.t
    dead = And(Val.is_none(gf), Not(truthy_ref(Val.a(glet))))
    current = And(Val.is_none(gf), truthy_ref(Val.a(glet)), glet == cur)
    susp = Not(Val.is_none(gf))
    o, i = H.getf(r, "outer"), H.getf(r, "inner")
    fbo = H0.getf(o, "f_back")
    return And(
        Implies(dead, And(is_exact_kind(r, "list"), H.length(r) == 0)),
        # current greenlet: exactly its own portion of the running stack: from the caller outwards to the frame whose
        # f_back is the parent's switch-out frame (or the end of the chain); the main greenlet has no outer bound
        Implies(current, And(is_kind(r, "StackSlice"), i == caller, H.getf(r, "limit") == NONE,
                             If(Val.is_none(par), o == NONE, And(reach(caller, o), Or(fbo == pgf, Val.is_none(fbo)))))),
        # suspended: from its switch point outwards to the end of ITS OWN f_back chain, whoever asks
        Implies(susp, And(is_kind(r, "StackSlice"), i == gf, H.getf(r, "limit") == NONE, reach(gf, o), Val.is_none(fbo))))


def greenlet_raise_ok(ctx):
    H0 = ctx.H0
    glet, cur = ctx.args["glet"].t, ctx.args["cur"].t
    return And(is_kind(ctx.exc.t, "RuntimeError"), Val.is_none(H0.getf(glet, "gr_frame")), truthy_ref(Val.a(glet)), glet != cur)


GREENLET_UNIT = Unit("C15.unwrap_greenlet", UG, greenlet_setup,
                     post=[Clause("C15.unwrap_greenlet.cases", greenlet_post)],
                     bindings=dict(EXTRACT_BINDINGS), methods=dict(STD_METHODS), ctors=dict(CTORS), known_classes=KNOWN,
                     invariants={(UG, "while#1"): walk_inv("C15.walk_current", lambda ctx: ctx.v0("inner_frame")),
                                 (UG, "while#2"): walk_inv("C15.walk_suspended", lambda ctx: ctx.v0("inner_frame"))},
                     allowed_raise=greenlet_raise_ok,
                     assumptions=["greenlet (assumed): gr_frame is None for a running, dead or unstarted greenlet; bool(glet) is False "
                                  "iff dead or unstarted; a frame's f_back is None or a frame",
                                  "minimality of the outer bound (first frame whose f_back is the parent's frame) is not expressed; the "
                                  "native C15/C04 legs check exactness"])

UNITS_C03 = [
    gen_unit("unwrap_geniter", "gen", "generator", "gi_running", "gi_frame", "gi_yieldfrom"),
    gen_unit("unwrap_coro", "coro", "coroutine", "cr_running", "cr_frame", "cr_await"),
    gen_unit("unwrap_asyncgen", "agen", "async_generator", "ag_running", "ag_frame", "ag_await",
             extra_running=lambda H, g: Val.is_none(H.getf(g, "ag_await"))),
]
UNITS_C03 += [referents_unit("unwrap_async_generator_asend_athrow", "ag_frame"),
              referents_unit("unwrap_coroutine_wrapper", "cr_frame")]
UNITS_C07 = [THREAD_UNIT]
UNITS_C14 = [TASK_UNIT, NURSERY_UNIT]
# ------------------------------------------------------------------------------------------------ C09 / C11: generator-based managers
GC_ = G + "glue_contextlib."


def gcm_setup(ex, p):
    mgr = sym_ref(p, "mgr", "gcm")
    c = sym_ref(p, "context", "Context")
    p.pc.append(Val.is_boolv(p.getf(c.t, "is_exiting")))
    gen = p.getf(mgr.t, "gen")
    p.pc.append(is_kind(gen, ["generator", "async_generator"]))          # _GeneratorContextManagerBase.gen
    inner = p.getf(c.t, "inner_stack")
    fr = p.getf(inner, "frames")
    p.pc.append(Or(Val.is_none(inner), And(is_kind(inner, "Stack"), is_exact_kind(fr, "list"), p.length(fr) >= 0)))
    p.env.update(mgr=mgr, context=c)
    return dict(mgr=mgr, context=c)


def str_oracle(name):
    def model(ex, p, args, kwargs, node):
        return [("ok", p, ex.new_str(p))]
    return model


def gcm_elab_post(ctx):
    c, mgr = ctx.args["context"].t, ctx.args["mgr"].t
    H0, H = ctx.H0, ctx.H
    calls = [t for t in ctx.p.trace if t[0] == "extract_child"]
    exiting = Val.b(H0.getf(c, "is_exiting"))
    gen = H0.getf(mgr, "gen")
    if calls:
        (item, ft), (_, st) = calls[0][1], calls[0][2]
        body = And(Not(exiting), BoolVal(len(calls) == 1), item == gen, ft == mkbool(False), H.getf(c, "inner_stack") == st)
    else:
        body = And(exiting, H.getf(c, "inner_stack") == H0.getf(c, "inner_stack"))
    return And(body, is_exact_kind(H.getf(c, "description"), "str"), H.getf(c, "obj") == H0.getf(c, "obj"),
               H.getf(c, "children") == H0.getf(c, "children"), H.getf(c, "hide") == H0.getf(c, "hide"))


GCM_ELAB = Unit("C09.elaborate_generatorbased_contextmanager", GC_ + "elaborate_generatorbased_contextmanager", gcm_setup,
                post=[Clause("C09.gcm.inner_stack_unless_exiting", gcm_elab_post)],
                bindings=dict(EXTRACT_BINDINGS, format_funcall=str_oracle("format_funcall"),
                              **{"_extract.extract_child": contract_extract_child_glue}),
                methods=dict(STD_METHODS), ctors=dict(CTORS), known_classes=KNOWN,
                assumptions=["format_funcall is total (format_funcname catches AttributeError; reprs are total)"])

ucg_result = Function("unwrap_context_generator_result", Val, Val, Val)
eo_frame = Function("extract_outermost_result", Val, Val)
eo_fails = Function("extract_outermost_no_frames", Val, BoolSort())


def gcm_unwrap_setup(ex, p):
    a = gcm_setup(ex, p)
    reg = sym_ref(p, "ucg_registry", "IdentityDict")
    ex.unit.bindings["unwrap_context_generator.registry"] = SV(reg.t, ty="IdentityDict")

    def ucg(ex_, p_, args, kw, node):
        p_.trace = p_.trace + [("unwrap_context_generator", (args[0].t, args[1].t), None)]
        return oracle("unwrap_context_generator", record=False,
                      post=[lambda pa, r, a_: r == ucg_result(a_[0].t, a_[1].t)])(ex_, p_, args, kw, node)

    def eo(ex_, p_, args, kw, node):
        # extract_outermost(gen): its first frame, or RuntimeError when there are none (unit C13.extract_outermost);
        # other recorded errors propagate
        t, f = ex_.fork(p_, Not(eo_fails(args[0].t)))
        res = []
        if t is not None:
            fr = eo_frame(args[0].t)
            t.pc += [is_kind(fr, "Frame"), Val.a(fr) >= 0]
            res.append(("ok", t, SV(fr, ty="Frame")))
        if f is not None:
            for kn in ("RuntimeError", "OtherException"):
                q = f.clone()
                e = q.new_obj(kn)
                q.ghost["raised"] = q.ghost.get("raised", ()) + (e,)
                q.ghost["eo_raised"] = kn
                res.append(("raise", q, SV(e, site="extract_outermost")))
        return res
    ex.unit.bindings["unwrap_context_generator"] = ucg
    ex.unit.bindings["_extract.extract_outermost"] = eo
    a["reg"] = reg
    return a


def gcm_unwrap_post(ctx):
    c, mgr, reg = ctx.args["context"].t, ctx.args["mgr"].t, ctx.args["reg"].t
    H0 = ctx.H0
    gen = H0.getf(mgr, "gen")
    has_gi, has_ag = hasattr_fn("gi_code")(gen), hasattr_fn("ag_code")(gen)
    code = If(has_gi, H0.getf(gen, "gi_code"), H0.getf(gen, "ag_code"))
    registered = And(Or(has_gi, has_ag), H0.dhas(reg, code))
    inner = H0.getf(c, "inner_stack")
    frames = H0.getf(inner, "frames")
    calls = [t for t in ctx.p.trace if t[0] == "unwrap_context_generator"]
    r = ctx.result.t
    if calls:
        fr, cc = calls[0][1]
        return And(registered, BoolVal(len(calls) == 1), cc == c, r == ucg_result(fr, c),
                   If(Val.is_none(inner), fr == eo_frame(gen),
                      And(H0.length(frames) > 0, fr == ctx.p.elem(frames, 0, H0))))
    # no dispatch: not registered, or the inner stack exists but is empty, or (exiting) the generator has no frames
    return And(Val.is_none(r), Or(Not(registered), And(Not(Val.is_none(inner)), H0.length(frames) == 0),
                                  And(Val.is_none(inner), eo_fails(gen))))


def gcm_unwrap_raise_ok(ctx):
    # only errors of the hook itself or non-RuntimeError errors recorded by extract_outermost propagate
    return BoolVal(ctx.p.ghost.get("eo_raised") != "RuntimeError" and bool(ctx.p.ghost.get("raised")))


from .c12 import IDV_METHODS  # noqa: E402

GCM_UNWRAP = Unit("C11.unwrap_generatorbased_contextmanager", GC_ + "unwrap_generatorbased_contextmanager", gcm_unwrap_setup,
                  post=[Clause("C11.gcm_dispatch", gcm_unwrap_post)],
                  bindings=dict(EXTRACT_BINDINGS), methods={**STD_METHODS, **IDV_METHODS}, ctors=dict(CTORS),
                  known_classes=KNOWN, field_types={"frames": "list"}, allowed_raise=gcm_unwrap_raise_ok,
                  assumptions=["inner_stack.frames is a sequence (Stack dataclass)"])

UNITS_C09 = [GCM_ELAB]
UNITS_C11 = [GCM_UNWRAP]
UNITS_C15 = [GREENLET_UNIT]
UNITS = UNITS_C03 + UNITS_C07 + UNITS_C14 + UNITS_C15 + UNITS_C09 + UNITS_C11
