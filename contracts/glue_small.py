"""Small glue functions under contract: built-in unwrappers (C03), unwrap_thread (C07), unwrap_greenlet (C15),
Trio task/nursery glue (C14), generator-based context manager glue (C09, C11)."""
from .extract_env import *  # noqa
from .c13 import fields_now
from pyvc.calls import hasattr_fn
import ast

G = "stackscope._glue."
for c_ in ("greenlet", "thread", "task", "nursery", "nursery_manager", "gcm", "referents"):
    register_class(c_)


# ------------------------------------------------------------------------------------------------ C03: unwrappers
def gen_unit(fname, argname, kindname, run_attr, frame_attr, await_attr, extra_running=None):
    def setup(ex, p):
        g = sym_ref(p, argname, kindname)
        p.pc.append(Val.is_boolv(p.getf(g.t, run_attr)))
        p.env[argname] = g
        return {argname: g}

    def post(ctx):
        g = ctx.args[argname].t
        H0, H = ctx.H0, ctx.H
        running = Val.b(H0.getf(g, run_attr))
        if extra_running:
            running = And(running, extra_running(H0, g))
        r = ctx.result.t
        susp = And(is_exact_kind(r, "tuple"), H.length(r) == 2, H.at(r, 0) == H0.getf(g, frame_attr), H.at(r, 1) == H0.getf(g, await_attr))
        run = And(is_kind(r, "StackSlice"), H.getf(r, "outer") == H0.getf(g, frame_attr), H.getf(r, "inner") == NONE,
                  H.getf(r, "limit") == NONE)
        return If(running, run, susp)
    return Unit(f"C03.{fname}", G + "glue_builtins." + fname, setup, post=[Clause(f"C03.{fname}.result", post)],
                bindings=dict(EXTRACT_BINDINGS), methods=dict(STD_METHODS), ctors=dict(CTORS), known_classes=KNOWN,
                assumptions=["CPython object model (assumed): a suspended generator/coroutine/async generator propagates a thrown "
                             "exception through gi_frame/cr_frame/ag_frame and then its gi_yieldfrom/cr_await/ag_await; while "
                             "running, its frame is on the thread's f_back chain"])


def referents_unit(fname, attr):
    HAS = hasattr_fn(attr)
    holder = {}
    fq = G + "glue_builtins." + fname

    def setup(ex, p):
        aw = sym_any(p, "aw")
        refs = sym_seq(p, "referents", "list")
        holder["refs"] = refs
        ex.unit.bindings["gc.get_referents"] = lambda ex_, p_, args, kw, node: [("ok", p_, refs)]
        p.env["aw"] = aw
        return dict(aw=aw, refs=refs)

    def none_before(ctx, pth, j):
        refs = holder["refs"].t
        return Implies(And(j >= ctx.H.lo_(refs), j < ctx.H.lo_(refs) + ctx.k), Not(HAS(pth.read(refs, j, ctx.H))))

    def post(ctx):
        refs = ctx.args["refs"].t
        k = ctx.p.ghost.get("exit_k:for#1")
        j = fresh_int("jr")
        return And(k >= 0, k < ctx.H0.length(refs), ctx.result.t == ctx.p.elem(refs, k, ctx.H0), HAS(ctx.result.t),
                   Implies(And(j >= 0, j < k), Not(HAS(ctx.p.elem(refs, j, ctx.H0)))))

    def raise_ok(ctx):
        refs = ctx.args["refs"].t
        j = fresh_int("jr")
        return And(is_kind(ctx.exc.t, "RuntimeError"),
                   Implies(And(j >= 0, j < ctx.H0.length(refs)), Not(HAS(ctx.p.elem(refs, j, ctx.H0)))))

    return Unit(f"C03.{fname}", fq, setup, post=[Clause(f"C03.{fname}.first_referent_with_{attr}", post)],
                bindings=dict(EXTRACT_BINDINGS), methods=dict(STD_METHODS), ctors=dict(CTORS), known_classes=KNOWN,
                invariants={(fq, "for#1"): Inv(f"C03.{fname}.scan", qf=lambda ctx: BoolVal(True),
                                               foralls=[(lambda p_: holder["refs"].t, none_before)])},
                allowed_raise=raise_ok, options=dict(iter_any_seq=True),
                assumptions=["gc.get_referents(aw) lists the objects aw refers to (interpreter behaviour); the asend/athrow awaitable "
                             "and the coroutine_wrapper refer to their async generator / coroutine"])


# ------------------------------------------------------------------------------------------------ C07: unwrap_thread
def thread_setup(ex, p):
    th = sym_ref(p, "thread", "thread")
    frames = sym_ref(p, "current_frames", "dict")
    alive1, alive2 = z3.Bool("alive_before"), z3.Bool("alive_after")
    p.ghost["alive_calls"] = 0

    def is_alive(ex_, p_, args, kw, node):
        n = p_.ghost["alive_calls"]
        p_.ghost["alive_calls"] = n + 1
        p_.trace = p_.trace + [("is_alive", (), None)]
        return [("ok", p_, sv_bool(alive1 if n == 0 else alive2))]

    def current_frames(ex_, p_, args, kw, node):
        p_.trace = p_.trace + [("_current_frames", (), None)]
        return [("ok", p_, SV(frames.t, ty="dict"))]
    ex.unit.methods[("thread", "is_alive")] = is_alive
    ex.unit.bindings["sys._current_frames"] = current_frames
    p.env["thread"] = th
    return dict(thread=th, frames=frames, alive1=alive1, alive2=alive2)


def thread_post(ctx):
    th, fr = ctx.args["thread"].t, ctx.args["frames"].t
    ident = ctx.H0.getf(th, "ident")
    f = If(ctx.H0.dhas(fr, ident), ctx.H0.dget(fr, ident), NONE)
    ok = And(f != NONE, ctx.args["alive1"], ctx.args["alive2"])
    r = ctx.result.t
    order = [t[0] for t in ctx.p.trace]
    # the frame is read BETWEEN the two liveness checks (guards against ident reuse)
    seq_ok = order[:2] == ["is_alive", "_current_frames"] and (len(order) < 3 or order[2] == "is_alive")
    return And(BoolVal(seq_ok),
               If(ok, And(is_kind(r, "StackSlice"), ctx.H.getf(r, "inner") == f, ctx.H.getf(r, "outer") == NONE, ctx.H.getf(r, "limit") == NONE),
                  And(is_exact_kind(r, "list"), ctx.H.length(r) == 0)))


THREAD_UNIT = Unit("C07.unwrap_thread", G + "glue_threading.unwrap_thread", thread_setup,
                   post=[Clause("C07.unwrap_thread.alive_before_and_after", thread_post)],
                   bindings=dict(EXTRACT_BINDINGS), methods=dict(STD_METHODS), ctors=dict(CTORS), known_classes=KNOWN,
                   field_types={}, assumptions=["sys._current_frames() maps thread idents to their current frames; frames reachable by "
                                                "f_back from a thread's current frame belong to that thread"])


# ------------------------------------------------------------------------------------------------ C14: trio glue
def task_setup(ex, p):
    t = sym_ref(p, "task", "task")
    p.env["task"] = t
    return dict(task=t)


TASK_UNIT = Unit("C14.unwrap_task", G + "glue_trio.unwrap_task", task_setup,
                 post=[Clause("C14.unwrap_task.is_coro", lambda ctx: ctx.result.t == ctx.H0.getf(ctx.args["task"].t, "coro"))],
                 bindings=dict(EXTRACT_BINDINGS), methods=dict(STD_METHODS), known_classes=KNOWN)


ec_stack = Function("extract_child_result", Val, Val, Val)     # the Stack extract_child(item, for_task=...) returns (ghost)


def contract_extract_child_glue(ex, p, args, kwargs, node):
    """callee contract of extract_child (unit C13.extract_child) as seen by glue: a fresh Stack, options untouched;
       RuntimeError only outside an extraction (glue runs inside one: precondition)"""
    st = ec_stack(args[0].t, kwargs["for_task"].t)
    p.pc += [is_kind(st, "Stack"), Val.a(st) >= 0]
    p.trace = p.trace + [("extract_child", (args[0].t, kwargs["for_task"].t), ("ret", st))]
    return [("ok", p, SV(st, ty="Stack"))]


def nursery_setup(ex, p):
    mgr = sym_ref(p, "manager", "nursery_manager")
    ctxo = sym_ref(p, "context", "Context")
    nur = sym_ref(p, "the_nursery", "nursery")
    tasks = sym_seq(p, "child_tasks", "list")
    p.setf(mgr.t, "_nursery", nur.t)
    p.setf(nur.t, "child_tasks", tasks.t)
    p.env.update(manager=mgr, context=ctxo)
    ex.unit.bindings["trio.Nursery"] = cls("nursery")
    return dict(manager=mgr, context=ctxo, nursery=nur, tasks=tasks)


def nursery_post(ctx):
    c, nur, tasks = ctx.args["context"].t, ctx.args["nursery"].t, ctx.args["tasks"].t
    H = ctx.H
    ch = H.getf(c, "children")
    j = fresh_int("jc")
    el = ctx.p.read(ch, H.lo_(ch) + j, H)
    # children[j] is the Stack returned by extract_child(child_tasks[j], for_task=True): the comprehension's element
    # schema ties element j to a call of the extract_child contract on task j
    return And(H.getf(c, "obj") == nur, is_exact_kind(ch, "list"), H.length(ch) == ctx.H0.length(tasks),
               Implies(And(j >= 0, j < H.length(ch)), el == ec_stack(ctx.p.elem(tasks, j, ctx.H0), mkbool(True))))


NURSERY_UNIT = Unit("C14.elaborate_nursery", G + "glue_trio.elaborate_nursery", nursery_setup,
                    post=[Clause("C14.elaborate_nursery.obj_and_children", nursery_post)],
                    bindings=dict(EXTRACT_BINDINGS, **{"_extract.extract_child": contract_extract_child_glue}),
                    methods=dict(STD_METHODS), ctors=dict(CTORS), known_classes=KNOWN + ["nursery"],
                    field_types={"child_tasks": "list"}, options=dict(iter_any_seq=True),
                    allowed_raise=lambda ctx: BoolVal(False),
                    assumptions=["Trio (assumed): manager._nursery is the trio.Nursery the manager opened; nursery.child_tasks iterates "
                                 "its child tasks"])

# ------------------------------------------------------------------------------------------------ C15: unwrap_greenlet
reach = Function("fback_reach", Val, Val, BoolSort())     # ghost: b is on the f_back chain starting at a
UG = G + "glue_greenlet.unwrap_greenlet"


def frame_typed(H, f):
    fb = H.getf(f, "f_back")
    return Implies(is_kind(f, "frame"), Or(Val.is_none(fb), And(is_kind(fb, "frame"), Val.a(fb) >= 0)))


def greenlet_setup(ex, p):
    glet = sym_ref(p, "glet", "greenlet")
    cur = sym_ref(p, "cur_greenlet", "greenlet")
    caller = sym_ref(p, "true_caller", "frame")
    gf = p.getf(glet.t, "gr_frame")
    p.pc += [Or(Val.is_none(gf), is_kind(gf, "frame")),
             Or(Val.is_none(p.getf(glet.t, "parent")), is_kind(p.getf(glet.t, "parent"), "greenlet"))]
    par = p.getf(glet.t, "parent")
    pgf = p.getf(par, "gr_frame")
    p.pc.append(Implies(is_kind(par, "greenlet"), Or(Val.is_none(pgf), is_kind(pgf, "frame"))))
    p.pc += [reach(caller.t, caller.t), reach(gf, gf)]        # base case of the ghost reachability definition
    ex.unit.bindings["greenlet_getcurrent"] = lambda ex_, p_, a, k, n: [("ok", p_, cur)]
    ex.unit.bindings["get_true_caller"] = lambda ex_, p_, a, k, n: [("ok", p_, caller)]
    def read_gr_frame(ex_, p_, o):
        # the TARGET's gr_frame may change under our feet (another thread can switch into it): count the reads - one snapshot
        if o.t is glet.t or o.t.eq(glet.t):
            p_.ghost["target_gr_frame_reads"] = p_.ghost.get("target_gr_frame_reads", 0) + 1
        return [("ok", p_, SV(p_.getf(o.t, "gr_frame")))]
    ex.unit.props[("greenlet", "gr_frame")] = read_gr_frame
    p.env["glet"] = glet
    return dict(glet=glet, cur=cur, caller=caller)


def walk_inv(name, start_of):
    def qf(ctx):
        o = ctx.v("outer_frame")
        return And(is_kind(o, "frame"), Val.a(o) >= 0, reach(start_of(ctx), o), ctx.v("inner_frame") == ctx.v0("inner_frame"))
    def defs(ctx):
        o = ctx.v("outer_frame")
        st = start_of(ctx)
        fb = ctx.H.getf(o, "f_back")
        return And(reach(st, st), Implies(And(reach(st, o), Not(Val.is_none(fb))), reach(st, fb)), frame_typed(ctx.H, o))
    return Inv(name, qf=qf, defs=defs)


def greenlet_post(ctx):
    H0, H = ctx.H0, ctx.H
    glet, cur, caller = ctx.args["glet"].t, ctx.args["cur"].t, ctx.args["caller"].t
    gf = H0.getf(glet, "gr_frame")
    par = H0.getf(glet, "parent")
    pgf = H0.getf(par, "gr_frame")
    r = ctx.result.t
    dead = And(Val.is_none(gf), Not(truthy_ref(Val.a(glet))))
    current = And(Val.is_none(gf), truthy_ref(Val.a(glet)), glet == cur)
    susp = Not(Val.is_none(gf))
    o, i = H.getf(r, "outer"), H.getf(r, "inner")
    fbo = H0.getf(o, "f_back")
    return And(
        Implies(dead, And(is_exact_kind(r, "list"), H.length(r) == 0)),
        # current greenlet: exactly its own portion of the running stack: from the caller outwards to the frame whose
        # f_back is the parent's switch-out frame (or the end of the chain); the main greenlet has no outer bound
        Implies(current, And(is_kind(r, "StackSlice"), i == caller, H.getf(r, "limit") == NONE,
                             If(Val.is_none(par), o == NONE, And(reach(caller, o), Or(fbo == pgf, Val.is_none(fbo)))))),
        # suspended: from its switch point outwards to the end of ITS OWN f_back chain, whoever asks
        Implies(susp, And(is_kind(r, "StackSlice"), i == gf, H.getf(r, "limit") == NONE, reach(gf, o), Val.is_none(fbo))))


def greenlet_raise_ok(ctx):
    H0 = ctx.H0
    glet, cur = ctx.args["glet"].t, ctx.args["cur"].t
    return And(is_kind(ctx.exc.t, "RuntimeError"), Val.is_none(H0.getf(glet, "gr_frame")), truthy_ref(Val.a(glet)), glet != cur)


def greenlet_one_snapshot(ctx):
    # every decision and the result come from ONE read of the target's gr_frame ("running elsewhere" is an error, never the
    # stack of whoever runs by the time of a second look)
    return BoolVal(ctx.p.ghost.get("target_gr_frame_reads", 0) == 1)


GREENLET_UNIT = Unit("C15.unwrap_greenlet", UG, greenlet_setup,
                     post=[Clause("C15.unwrap_greenlet.cases", greenlet_post),
                           Clause("C15.unwrap_greenlet.target_state_read_once", greenlet_one_snapshot, on=("any",))],
                     bindings=dict(EXTRACT_BINDINGS), methods=dict(STD_METHODS), ctors=dict(CTORS), known_classes=KNOWN,
                     invariants={(UG, "while#1"): walk_inv("C15.walk_current", lambda ctx: ctx.v0("inner_frame")),
                                 (UG, "while#2"): walk_inv("C15.walk_suspended", lambda ctx: ctx.v0("inner_frame"))},
                     allowed_raise=greenlet_raise_ok,
                     assumptions=["greenlet (assumed): gr_frame is None for a running, dead or unstarted greenlet; bool(glet) is False "
                                  "iff dead or unstarted; a frame's f_back is None or a frame",
                                  "minimality of the outer bound (first frame whose f_back is the parent's frame) is not expressed; the "
                                  "native C15/C04 legs check exactness"])

UNITS_C03 = [
    gen_unit("unwrap_geniter", "gen", "generator", "gi_running", "gi_frame", "gi_yieldfrom"),
    gen_unit("unwrap_coro", "coro", "coroutine", "cr_running", "cr_frame", "cr_await"),
    gen_unit("unwrap_asyncgen", "agen", "async_generator", "ag_running", "ag_frame", "ag_await",
             extra_running=lambda H, g: Val.is_none(H.getf(g, "ag_await"))),
]
UNITS_C03 += [referents_unit("unwrap_async_generator_asend_athrow", "ag_frame"),
              referents_unit("unwrap_coroutine_wrapper", "cr_frame")]
UNITS_C07 = [THREAD_UNIT]
UNITS_C14 = [TASK_UNIT, NURSERY_UNIT]
# ------------------------------------------------------------------------------------------------ C09 / C11: generator-based managers
GC_ = G + "glue_contextlib."


def gcm_setup(ex, p):
    mgr = sym_ref(p, "mgr", "gcm")
    c = sym_ref(p, "context", "Context")
    p.pc.append(Val.is_boolv(p.getf(c.t, "is_exiting")))
    gen = p.getf(mgr.t, "gen")
    p.pc.append(is_kind(gen, ["generator", "async_generator"]))          # _GeneratorContextManagerBase.gen
    inner = p.getf(c.t, "inner_stack")
    fr = p.getf(inner, "frames")
    p.pc.append(Or(Val.is_none(inner), And(is_kind(inner, "Stack"), is_exact_kind(fr, "list"), p.length(fr) >= 0)))
    p.env.update(mgr=mgr, context=c)
    return dict(mgr=mgr, context=c)


def str_oracle(name):
    def model(ex, p, args, kwargs, node):
        return [("ok", p, ex.new_str(p))]
    return model


def gcm_elab_post(ctx):
    c, mgr = ctx.args["context"].t, ctx.args["mgr"].t
    H0, H = ctx.H0, ctx.H
    calls = [t for t in ctx.p.trace if t[0] == "extract_child"]
    exiting = Val.b(H0.getf(c, "is_exiting"))
    gen = H0.getf(mgr, "gen")
    if calls:
        (item, ft), (_, st) = calls[0][1], calls[0][2]
        body = And(Not(exiting), BoolVal(len(calls) == 1), item == gen, ft == mkbool(False), H.getf(c, "inner_stack") == st)
    else:
        body = And(exiting, H.getf(c, "inner_stack") == H0.getf(c, "inner_stack"))
    return And(body, is_exact_kind(H.getf(c, "description"), "str"), H.getf(c, "obj") == H0.getf(c, "obj"),
               H.getf(c, "children") == H0.getf(c, "children"), H.getf(c, "hide") == H0.getf(c, "hide"))


GCM_ELAB = Unit("C09.elaborate_generatorbased_contextmanager", GC_ + "elaborate_generatorbased_contextmanager", gcm_setup,
                post=[Clause("C09.gcm.inner_stack_unless_exiting", gcm_elab_post)],
                bindings=dict(EXTRACT_BINDINGS, format_funcall=str_oracle("format_funcall"),
                              **{"_extract.extract_child": contract_extract_child_glue}),
                methods=dict(STD_METHODS), ctors=dict(CTORS), known_classes=KNOWN,
                assumptions=["format_funcall is total (format_funcname catches AttributeError; reprs are total)"])

# the @async_generator backport's twin of the same hook (glue_async_generator): the manager keeps its generator in `_agen`
AG_ = G + "glue_async_generator."


def gcm_backport_setup(ex, p):
    mgr = sym_ref(p, "mgr", "gcm")
    c = sym_ref(p, "context", "Context")
    p.pc.append(Val.is_boolv(p.getf(c.t, "is_exiting")))
    inner = p.getf(c.t, "inner_stack")
    fr = p.getf(inner, "frames")
    p.pc.append(Or(Val.is_none(inner), And(is_kind(inner, "Stack"), is_exact_kind(fr, "list"), p.length(fr) >= 0)))
    p.pc.append(is_exact_kind(p.getf(mgr.t, "_func_name"), "str"))
    p.env.update(mgr=mgr, context=c)
    return dict(mgr=mgr, context=c)


def gcm_backport_post(ctx):
    c, mgr = ctx.args["context"].t, ctx.args["mgr"].t
    H0, H = ctx.H0, ctx.H
    calls = [t for t in ctx.p.trace if t[0] == "extract_child"]
    exiting = Val.b(H0.getf(c, "is_exiting"))
    gen = H0.getf(mgr, "_agen")
    if calls:
        (item, ft), (_, st) = calls[0][1], calls[0][2]
        body = And(Not(exiting), BoolVal(len(calls) == 1), item == gen, ft == mkbool(False), H.getf(c, "inner_stack") == st)
    else:
        body = And(exiting, H.getf(c, "inner_stack") == H0.getf(c, "inner_stack"))
    return And(body, is_exact_kind(H.getf(c, "description"), "str"), H.getf(c, "obj") == H0.getf(c, "obj"),
               H.getf(c, "children") == H0.getf(c, "children"), H.getf(c, "hide") == H0.getf(c, "hide"))


GCM_ELAB_BACKPORT = Unit("C09.elaborate_generatorbased_contextmanager@async_generator_backport", AG_ + "elaborate_generatorbased_contextmanager",
                         gcm_backport_setup, post=[Clause("C09.gcm_backport.inner_stack_unless_exiting", gcm_backport_post)],
                         bindings=dict(EXTRACT_BINDINGS, **{"_extract.extract_child": contract_extract_child_glue}),
                         methods=dict(STD_METHODS), ctors=dict(CTORS), known_classes=KNOWN, field_types={"_func_name": "str"},
                         assumptions=["the async_generator package is not installed in the sandbox: no native leg exercises this hook"])


def attr_unwrapper(unit, func, param, attr):
    def setup(ex, p):
        x = sym_ref(p, param, "other")
        p.env[param] = x
        return {param: x}
    def post(ctx):
        x = ctx.args[param].t
        names = sorted(set(ctx.H.fields) | set(ctx.H0.fields))
        return And(ctx.result.t == ctx.H0.getf(x, attr), ctx.H.alloc == ctx.H0.alloc, *[ctx.H.field(n) == ctx.H0.field(n) for n in names])
    return Unit(unit, AG_ + func, setup, post=[Clause(unit + ".returns_the_wrapped_object_and_writes_nothing", post)],
                bindings=dict(EXTRACT_BINDINGS), methods=dict(STD_METHODS), known_classes=KNOWN,
                allowed_raise=lambda ctx: BoolVal(False),
                assumptions=["attribute access on the backport's objects is a plain field read (attribute accesses are type-correct)"])


UNITS_BACKPORT = [GCM_ELAB_BACKPORT,
                  attr_unwrapper("C03.unwrap_async_generator_backport", "unwrap_async_generator_backport", "agen", "_coroutine"),
                  attr_unwrapper("C03.unwrap_async_generator_backport_next_iter", "unwrap_async_generator_backport_next_iter", "aw", "_it")]

ucg_result = Function("unwrap_context_generator_result", Val, Val, Val)
eo_frame = Function("extract_outermost_result", Val, Val)
eo_fails = Function("extract_outermost_no_frames", Val, BoolSort())
eo_no_frames = Function("extract_outermost_fails_because_there_are_no_frames", Val, BoolSort())
eo_frame_overridden = Function("extract_outermost_result_under_overridden_options", Val, Val)


def gcm_unwrap_setup(ex, p):
    a = gcm_setup(ex, p)
    reg = sym_ref(p, "ucg_registry", "IdentityDict")
    ex.unit.bindings["unwrap_context_generator.registry"] = SV(reg.t, ty="IdentityDict")

    def ucg(ex_, p_, args, kw, node):
        p_.trace = p_.trace + [("unwrap_context_generator", (args[0].t, args[1].t), None)]
        return oracle("unwrap_context_generator", record=False,
                      post=[lambda pa, r, a_: r == ucg_result(a_[0].t, a_[1].t)])(ex_, p_, args, kw, node)

    def eo(ex_, p_, args, kw, node):
        # extract_outermost(gen): its first frame, or RuntimeError when there are none (unit C13.extract_outermost);
        # other recorded errors propagate
        t, f = ex_.fork(p_, Not(eo_fails(args[0].t)))
        res = []
        if t is not None:
            # the Frame handed to the hook is the one the CURRENT options produce (what the non-exiting path finds in
            # inner_stack.frames[0]); a call that overrides options yields some other view of it
            fr = eo_frame(args[0].t) if (len(args) == 1 and not kw) else eo_frame_overridden(args[0].t)
            t.pc += [is_kind(fr, "Frame"), Val.a(fr) >= 0]
            res.append(("ok", t, SV(fr, ty="Frame")))
        if f is not None:
            for kn in ("RuntimeError", "OtherException"):
                q = f.clone()
                e = q.new_obj(kn)
                # RuntimeError = "no frames" (nothing to dispatch on); anything else is a fault met while extracting
                q.pc.append(eo_no_frames(args[0].t) if kn == "RuntimeError" else Not(eo_no_frames(args[0].t)))
                q.ghost["raised"] = q.ghost.get("raised", ()) + (e,)
                q.ghost["eo_raised"] = kn
                res.append(("raise", q, SV(e, site="extract_outermost")))
        return res
    ex.unit.bindings["unwrap_context_generator"] = ucg
    ex.unit.bindings["_extract.extract_outermost"] = eo
    a["reg"] = reg
    return a


def gcm_unwrap_post(ctx):
    c, mgr, reg = ctx.args["context"].t, ctx.args["mgr"].t, ctx.args["reg"].t
    H0 = ctx.H0
    gen = H0.getf(mgr, "gen")
    has_gi, has_ag = hasattr_fn("gi_code")(gen), hasattr_fn("ag_code")(gen)
    code = If(has_gi, H0.getf(gen, "gi_code"), H0.getf(gen, "ag_code"))
    registered = And(Or(has_gi, has_ag), H0.dhas(reg, code))
    inner = H0.getf(c, "inner_stack")
    frames = H0.getf(inner, "frames")
    calls = [t for t in ctx.p.trace if t[0] == "unwrap_context_generator"]
    r = ctx.result.t
    if calls:
        fr, cc = calls[0][1]
        return And(registered, BoolVal(len(calls) == 1), cc == c, r == ucg_result(fr, c),
                   If(Val.is_none(inner), fr == eo_frame(gen),
                      And(H0.length(frames) > 0, fr == ctx.p.elem(frames, 0, H0))))
    # no dispatch: not registered, or the inner stack exists but is empty, or (exiting) the generator has no frames - a FAULT met
    # while extracting the generator's frame is not "no frames": it must come out (C05), not end as "nothing to unwrap"
    return And(Val.is_none(r), Or(Not(registered), And(Not(Val.is_none(inner)), H0.length(frames) == 0),
                                  And(Val.is_none(inner), eo_fails(gen), eo_no_frames(gen))))


def gcm_unwrap_raise_ok(ctx):
    # only errors of the hook itself or non-RuntimeError errors recorded by extract_outermost propagate
    return BoolVal(ctx.p.ghost.get("eo_raised") != "RuntimeError" and bool(ctx.p.ghost.get("raised")))


from .c12 import IDV_METHODS  # noqa: E402

GCM_UNWRAP = Unit("C11.unwrap_generatorbased_contextmanager", GC_ + "unwrap_generatorbased_contextmanager", gcm_unwrap_setup,
                  post=[Clause("C11.gcm_dispatch", gcm_unwrap_post)],
                  bindings=dict(EXTRACT_BINDINGS), methods={**STD_METHODS, **IDV_METHODS}, ctors=dict(CTORS),
                  known_classes=KNOWN, field_types={"frames": "list"}, allowed_raise=gcm_unwrap_raise_ok,
                  assumptions=["inner_stack.frames is a sequence (Stack dataclass)"])

UNITS_C09 = [GCM_ELAB]
UNITS_C11 = [GCM_UNWRAP]
UNITS_C15 = [GREENLET_UNIT]
UNITS = UNITS_C03 + UNITS_C07 + UNITS_C14 + UNITS_C15 + UNITS_C09 + UNITS_C11


# ------------------------------------------------------------------------------------------------ C09: elaborate_exit_stack
ES = GC_ + "elaborate_exit_stack"
register_class("exit_stack")


def es_setup(ex, p):
    stack = sym_ref(p, "stack", "exit_stack")
    c = sym_ref(p, "context", "Context")
    cbs = sym_seq(p, "_exit_callbacks", "deque")
    p.setf(stack.t, "_exit_callbacks", cbs.t)
    H0 = p.snap()
    # contextlib (assumed): _exit_callbacks is a deque of (is_sync: bool, callback) pairs
    def entry(pth, j):
        e_ = H0.raw(cbs.t, j)
        return Implies(And(j >= H0.lo_(cbs.t), j < H0.hi_(cbs.t)),
                       And(is_exact_kind(e_, "tuple"), H0.length(e_) == 2, Val.a(e_) >= 0, Val.is_boolv(H0.at(e_, 0)),
                           Val.is_ref(H0.at(e_, 1)), Val.a(H0.at(e_, 1)) >= 0,
                           Implies(is_kind(H0.at(e_, 1), "function"), And(Val.is_ref(H0.getf(H0.at(e_, 1), "__code__")), Val.a(H0.getf(H0.at(e_, 1), "__code__")) >= 0)),
                           # a bound method object has a function as __func__
                           Implies(is_kind(H0.at(e_, 1), "method"), And(Val.is_ref(H0.getf(H0.at(e_, 1), "__func__")), Val.a(H0.getf(H0.at(e_, 1), "__func__")) >= 0))))
    p.add_schema(cbs.t, entry)
    p.env.update(stack=stack, context=c)
    p.ghost["filled"] = ()
    return dict(stack=stack, context=c, cbs=cbs)


def es_fill(ex, p, args, kwargs, node):
    p.ghost["filled"] = p.ghost.get("filled", ()) + (args[0].t,)
    from .c11 import HOOK_MAY_SET
    return oracle("fill_context", havoc_fields=HOOK_MAY_SET, record=False)(ex, p, args, kwargs, node)


def list_oracle(ex, p, args, kwargs, node):
    return [("ok", p, SV(p.new_seq("list", length=fresh_int("n"), arr=fresh("fa", AV)), ty="list"))]


def es_before_stmt(ex, n, p):
    src = ast.unparse(n) if isinstance(n, (ast.Assign, ast.Expr, ast.Assert)) else ""
    if src.startswith("args_idx ="):
        cb = p.env["callback"].t
        code = p.getf(cb, "__code__")
        fv = p.getf(code, "co_freevars")
        cl = p.getf(cb, "__closure__")
        # CPython function objects (assumed): co_freevars is a tuple of names, __closure__ is a tuple of cells of the same length
        p.pc += [Val.is_ref(code), is_exact_kind(fv, "tuple"), p.length(fv) >= 0, is_exact_kind(cl, "tuple"), p.length(cl) == p.length(fv),
                 BoolVal(True)]
        Hc = p.snap()
        p.add_schema(cl, lambda pth, j: Implies(And(j >= Hc.lo_(cl), j < Hc.hi_(cl)), And(Val.is_ref(Hc.raw(cl, j)), Val.a(Hc.raw(cl, j)) >= 0)))
    if src.startswith("children.append(child_context)"):
        check_child(ex, p)


def check_child(ex, p):
    env = p.env
    cb, is_sync, ctx, child = env["callback"].t, env["is_sync"].t, env["context"].t, env["child_context"].t
    H = p.h
    has_self = hasattr_fn("__self__")(cb)
    self_obj = H.getf(cb, "__self__")
    is_meth = is_kind(cb, "method")
    fname = H.getf(H.getf(cb, "__func__"), "__name__")
    exitname = Or(ex.eq(p, SV(fname), ex.const(p, "__exit__")), ex.eq(p, SV(fname), ex.const(p, "__aexit__")))
    enter_form = And(has_self, Or(Not(is_meth), exitname))
    sync = Val.b(is_sync)
    method = env["method"].get("pyconst")
    tag = env["tag"].get("pyconst")
    # which of the four registration shapes the path took is visible in the chosen constant; the obligations tie that
    # choice to the observable shape of the callback and to is_sync
    sync_names = {"enter_context": True, "enter_async_context": False, "push": True, "push_async_exit": False,
                  "callback": True, "push_async_callback": False}
    ex.oblig("C09.exit_stack.method_matches_sync_kind", "clause", p, BoolVal(method in sync_names) if method not in sync_names else sync == BoolVal(sync_names[method]))
    ex.oblig("C09.exit_stack.enter_form_iff_exit_method", "clause", p, BoolVal(method in ("enter_context", "enter_async_context")) == enter_form)
    ex.oblig("C09.exit_stack.bound_method_push", "clause", p,
             Implies(And(has_self, Not(enter_form)), BoolVal(method in ("push", "push_async_exit"))))
    ex.oblig("C09.exit_stack.await_tag", "clause", p, BoolVal(tag == "await ") == And(enter_form, Not(sync)))
    manager = If(has_self, self_obj, NONE)
    # the property: "identifying the registered manager or callable as obj" - the manager whenever there is one, however it
    # answers bool() (a falsy manager used to be replaced by its bound __exit__: finding F17)
    obj_exp = If(And(has_self, Not(Val.is_none(self_obj))), self_obj, cb)
    ex.oblig("C09.exit_stack.child_fields", "clause", p,
             And(is_kind(child, "Context"), H.getf(child, "obj") == obj_exp, H.getf(child, "is_async") == mkbool(Not(sync)),
                 H.getf(child, "start_line") == H.getf(ctx, "start_line"), H.getf(child, "is_exiting") == mkbool(False),
                 H.length(env["children"].t) == Val.i(env["idx"].t)))       # appended at position idx: registration order


def es_inv():
    def qf(ctx):
        ch = ctx.v("children")
        c = ctx.v("context")
        return And(ch == ctx.v0("children"), ctx.H.length(ch) == ctx.k, ctx.H.lo_(ch) == 0, ctx.H.getf(c, "children") == ch,
                   ctx.v("callbacks") == ctx.v0("callbacks"), ctx.v("stackname") == ctx.v0("stackname"), c == ctx.v0("context"),
                   ctx.H.getf(c, "start_line") == ctx.H0.getf(c, "start_line"))
    def ghost_havoc(ctx):
        ctx.p.ghost["filled"] = ()
        ctx.p.ghost["raised"] = ()
    def step(ctx):
        # every child is itself unfolded: fill_context ran on exactly the child appended in this iteration
        f = ctx.p.ghost.get("filled", ())
        return And(BoolVal(len(f) == 1), f[0] == ctx.v("child_context")) if len(f) == 1 else BoolVal(False)
    from .c11 import HOOK_MAY_SET
    return Inv("C09.exit_stack.loop", qf=qf, ghost_havoc=ghost_havoc, steps=[("C09.exit_stack.child_unfolded_recursively", step)],
               conts=["children"], fields=[(f, None) for f in ("description",) + tuple(HOOK_MAY_SET)])


def es_post(ctx):
    c = ctx.args["context"].t
    ch = ctx.H.getf(c, "children")
    return And(is_exact_kind(ch, "list"), ctx.H.length(ch) == ctx.H0.length(ctx.args["cbs"].t))


def es_raise_ok(ctx):
    # only an exception of a child's hooks propagates (recorded by the caller); nothing is swallowed on the way
    r = ctx.p.ghost.get("raised", ())
    return And(BoolVal(len(r) == 1), ctx.exc.t == r[0]) if len(r) == 1 else BoolVal(False)


def es_nothing_swallowed(ctx):
    return BoolVal(len(ctx.p.ghost.get("raised", ())) == 0)


EXIT_STACK_UNIT = Unit("C09.elaborate_exit_stack", ES, es_setup,
                       post=[Clause("C09.exit_stack.one_child_per_callback", es_post),
                             Clause("C05.exit_stack.no_hook_exception_swallowed", es_nothing_swallowed)],
                       bindings=dict(EXTRACT_BINDINGS, format_funcname=str_oracle("format_funcname"), format_funcargs=list_oracle,
                                     **{"_extract.fill_context": es_fill}),
                       methods=dict(STD_METHODS), ctors=dict(CTORS), known_classes=KNOWN,
                       invariants={(ES, "for#1"): es_inv()}, before_stmt=es_before_stmt, allowed_raise=es_raise_ok,
                       field_types={"_exit_callbacks": "deque", "co_freevars": "tuple", "__closure__": "tuple"},
                       options=dict(iter_any_seq=True),
                       assumptions=["contextlib storage (assumed, checked against the running contextlib by legs/c09_trees.py): "
                                    "_exit_callbacks is a deque of (is_sync, callback); enter_context/push(cm) store MethodType(__exit__, cm); "
                                    "push(bound method) stores it; push(fn) stores fn; callback(f, ...) stores a closure named _exit_wrapper "
                                    "with __wrapped__ = f and free variables args, kwds",
                                    "CPython functions: len(__closure__) == len(__code__.co_freevars)",
                                    "format_funcname / format_funcargs / repr are total"])
UNITS_C09.append(EXIT_STACK_UNIT)
UNITS.append(EXIT_STACK_UNIT)


# ------------------------------------------------------------------------------------------------ C14: to_thread.run_sync hop
# The worker thread is THE thread whose name object is the frame's thread_name (identity: Trio passes the very str object, and
# names are not unique), its stack is cut just inward of worker_fn, and the Trio task's rest is kept iff the task is not simply
# waiting for the thread (reentrant from_thread call).
TTRS = G + "glue_trio.elaborate_to_thread_run_sync"
register_class("thread")
t_anc = Function("fback_anc_t", Val, IntSort(), Val)         # ghost: n-th f_back ancestor of the thread's current frame


def ttrs_setup(ex, p):
    frame = sym_ref(p, "frame", "Frame")
    nxt = sym_any(p, "next_inner")
    pyf = p.getf(frame.t, "pyframe")
    fl = p.getf(pyf, "f_locals")
    p.pc += [is_kind(pyf, "frame"), Val.a(pyf) >= 0, is_exact_kind(fl, "dict"), Val.a(fl) >= 0]
    threads = sym_seq(p, "all_threads", "list")
    p.pc.append(p.lo(threads.t) == 0)
    H0 = p.snap()
    p.add_schema(threads.t, lambda pth, j: Implies(And(j >= 0, j < H0.length(threads.t)),
                                                   And(is_kind(H0.raw(threads.t, j), "thread"), Val.a(H0.raw(threads.t, j)) >= 0)))
    frames = sym_ref(p, "current_frames", "dict")
    H1 = p.snap()
    p.add_dschema(frames.t, lambda pth, kk: Implies(H1.dhas(frames.t, kk), And(is_kind(H1.dget(frames.t, kk), "frame"), Val.a(H1.dget(frames.t, kk)) >= 0)))
    wf = p.dget(fl, ex.const(p, "worker_fn").t)
    p.pc.append(Or(Val.is_none(wf), And(is_kind(wf, "function"), Val.a(wf) >= 0)))        # Trio's local worker_fn is a function
    ex.unit.bindings["threading.enumerate"] = lambda ex_, p_, a, k, n: [("ok", p_, SV(threads.t, ty="list"))]
    ex.unit.bindings["sys._current_frames"] = lambda ex_, p_, a, k, n: [("ok", p_, SV(frames.t, ty="dict"))]
    p.env.update(frame=frame, next_inner=nxt)
    ex.unit_args = dict(frame=frame, next_inner=nxt, threads=threads, frames=frames, fl=fl, H0=p.snap())
    return ex.unit_args


def ttrs_scan_inv():
    def none_before(ctx, pth, j):
        a = ctx.ex.unit_args
        H0 = a["H0"]
        tn = H0.dget(a["fl"], ctx.ex.const(ctx.p, "thread_name").t)
        return Implies(And(j >= 0, j < ctx.k), H0.getf(pth.read(a["threads"].t, j, H0), "name") != tn)
    return Inv("C14.worker_thread.scan", qf=lambda ctx: BoolVal(True), header="threading.enumerate()",
               foralls=[(lambda p_: p_.ghost["$threads"], none_before)])


def ttrs_walk_inv():
    def setup(ctx):
        ctx.p.ghost["tw_n"] = IntVal(0)
        ctx.p.pc.append(t_anc(ctx.v("inner_frame"), 0) == ctx.v("inner_frame"))
    def ghost_havoc(ctx):
        ctx.p.ghost["tw_n"] = fresh_int("tw_n")
    def qf(ctx):
        n = ctx.p.ghost["tw_n"]
        cur, prev, inner = ctx.v("current"), ctx.v("previous"), ctx.v0("inner_frame")
        return And(n >= 0, cur == t_anc(inner, n), prev == If(n == 0, NONE, t_anc(inner, n - 1)), ctx.v("inner_frame") == inner,
                   Or(Val.is_none(cur), And(is_kind(cur, "frame"), Val.a(cur) >= 0)), ctx.v("thread") == ctx.v0("thread"))
    def defs(ctx):
        n = ctx.p.ghost["tw_n"]
        inner = ctx.v0("inner_frame")
        cur = ctx.v("current")
        fb = ctx.H.getf(cur, "f_back")
        return And(t_anc(inner, 0) == inner, t_anc(inner, n + 1) == fb,
                   Implies(is_kind(cur, "frame"), Or(Val.is_none(fb), And(is_kind(fb, "frame"), Val.a(fb) >= 0))))
    return Inv("C14.worker_thread.walk_to_worker_fn", qf=qf, defs=defs, setup=setup, ghost_havoc=ghost_havoc, header="current is not None")


def ttrs_before_stmt(ex, n, p):
    if isinstance(n, ast.Assign) and ast.unparse(n).replace(" ", "") == "current=current.f_back" and "tw_n" in p.ghost:
        p.ghost["tw_n"] = p.ghost["tw_n"] + 1
    if isinstance(n, ast.For):
        p.ghost["$threads"] = ex.unit_args["threads"].t


def ttrs_post(ctx):
    a = ctx.args
    H0, H = a["H0"], ctx.H
    r = ctx.result.t
    const = lambda s_: ctx.ex.const(ctx.p, s_).t
    tn = H0.dget(a["fl"], const("thread_name"))
    wf = H0.dget(a["fl"], const("worker_fn"))
    k = ctx.p.ghost.get("exit_k:for#1")
    th = ctx.env.get("thread")
    spliced = Not(Val.is_none(r))
    if th is None or k is None:
        return Val.is_none(r)
    T = th.t
    ident = H0.getf(T, "ident")
    n = ctx.p.ghost.get("tw_n")
    inner = ctx.env.get("inner_frame")
    if n is None or inner is None:
        return Val.is_none(r)
    sl = If(is_kind(r, "StackSlice"), r, H.at(r, 0))
    waiting = And(is_kind(a["next_inner"].t, "Frame"), ctx.ex.eq(ctx.p, SV(H0.getf(a["next_inner"].t, "funcname")), ctx.ex.const(ctx.p, "wait_task_rescheduled")))
    return Implies(spliced,
                   And(H0.getf(T, "name") == tn,                                   # identity of the name object, first such thread
                       is_kind(sl, "StackSlice"), H.getf(sl, "inner") == inner.t,
                       inner.t == If(H0.dhas(a["frames"].t, If(ctx.ex.truthy(ctx.p, SV(ident)), ident, mkint(0))),
                                     H0.dget(a["frames"].t, If(ctx.ex.truthy(ctx.p, SV(ident)), ident, mkint(0))), NONE),
                       n >= 1, H.getf(sl, "outer") == t_anc(inner.t, n - 1),                # the frame just inward of worker_fn
                       H0.getf(t_anc(inner.t, n), "f_code") == H0.getf(wf, "__code__"),
                       H.getf(a["frame"].t, "hide") == mkbool(True),
                       If(waiting, r == sl, And(is_exact_kind(r, "tuple"), H.length(r) == 2, H.at(r, 1) == a["next_inner"].t))))


funcname_of_frame = Function("Frame.funcname", Val, Val)


def ttrs_unit():
    from .types_fmt import str_prop
    return Unit("C14.elaborate_to_thread_run_sync", TTRS, ttrs_setup,
                post=[Clause("C14.to_thread.splices_the_frames_of_the_thread_named_by_identity", ttrs_post)],
                bindings=dict(EXTRACT_BINDINGS), methods=dict(STD_METHODS), ctors=dict(CTORS), known_classes=KNOWN,
                props={("Frame", "funcname"): str_prop(funcname_of_frame)},
                invariants={(TTRS, "for#1"): ttrs_scan_inv(), (TTRS, "while#1"): ttrs_walk_inv()}, before_stmt=ttrs_before_stmt,
                field_types={"f_locals": "dict"}, options=dict(iter_any_seq=True),
                allowed_raise=lambda ctx: BoolVal(False),
                assumptions=["threading.enumerate() lists thread objects; sys._current_frames() maps idents to frames; ghost fback_anc_t is the "
                             "n-th f_back ancestor (defining equations)", "Frame.funcname is an abstract str-valued property"])


TTRS_UNIT = ttrs_unit()
UNITS_C14.append(TTRS_UNIT)
UNITS.append(TTRS_UNIT)


# ------------------------------------------------------------------------------------------------ C14: from_thread.run hop
# A tokenless call is a reentrant call from a to_thread worker: hidden, nothing inward of it shown here (the Trio side shows it).
# With a token: the stack continues into the coroutine of a system task of THE runner owning that token, and that task is the
# one serving this very message (its context is the message's, or its coroutine is message.run_system()).
FTR = G + "glue_trio.elaborate_from_thread_run"
register_class("Runner")
register_class("task")
items_key2 = Function("items_key", Val, IntSort(), Val)


def ftr_setup(ex, p):
    frame = sym_ref(p, "frame", "Frame")
    nxt = sym_any(p, "next_inner")
    pyf = p.getf(frame.t, "pyframe")
    fl = p.getf(pyf, "f_locals")
    p.pc += [is_kind(pyf, "frame"), Val.a(pyf) >= 0, is_exact_kind(fl, "dict"), Val.a(fl) >= 0]
    refs = sym_seq(p, "referents", "list")
    p.pc.append(p.lo(refs.t) == 0)
    def get_referents(ex_, p_, a, k, n):
        return [("ok", p_, SV(refs.t, ty="list"))]
    def items(ex_, p_, args, kw, node):
        d = args[0]
        n = fresh_int("n_items")
        p_.pc.append(n >= 0)
        H0 = p_.snap()
        def elem(pth, k):
            key = items_key2(d.t, k)
            return ex_.make_tuple(pth, [SV(key), SV(pth.dget(d.t, key, H0))])
        return [("ok", p_, SV(fresh("items"), special=("custom", n, elem)))]
    ex.unit.bindings["gc.get_referents"] = get_referents
    ex.unit.bindings["trio._core._run.GLOBAL_RUN_CONTEXT"] = sym_any(p, "GLOBAL_RUN_CONTEXT")
    ex.unit.methods[("dict", "items")] = items
    p.env.update(frame=frame, next_inner=nxt)
    ex.unit_args = dict(frame=frame, next_inner=nxt, fl=fl, H0=p.snap())
    return ex.unit_args


def ftr_post(ctx):
    a = ctx.args
    H0, H = a["H0"], ctx.H
    r = ctx.result.t
    const = lambda s_: ctx.ex.const(ctx.p, s_).t
    fl = a["fl"]
    tok = If(H0.dhas(fl, const("trio_token")), H0.dget(fl, const("trio_token")), NONE)
    tp = If(H0.dhas(fl, const("token_provided")), H0.dget(fl, const("token_provided")), NONE)
    provided = If(Val.is_none(tp), Not(Val.is_none(tok)), ctx.ex.truthy(ctx.p, SV(tp)))
    has_token_local = H0.dhas(fl, const("trio_token"))
    runner, task = ctx.env.get("runner"), ctx.env.get("task")
    msg = ctx.env.get("message")
    hidden = H.getf(a["frame"].t, "hide") == mkbool(True)
    is_empty_tuple = And(is_exact_kind(r, "tuple"), H.length(r) == 0)
    cases = [Implies(Not(has_token_local), Val.is_none(r)),
             Implies(And(has_token_local, Not(provided)), And(is_empty_tuple, hidden))]
    if runner is not None and task is not None and msg is not None:
        T, R, M = task.t, runner.t, msg.t
        tf = H0.getf(H0.getf(T, "coro"), "cr_frame")
        serves = Or(H0.getf(T, "context") == H0.getf(M, "context"),
                    And(Not(Val.is_none(tf)), H0.dhas(H0.getf(tf, "f_locals"), const("self")), H0.dget(H0.getf(tf, "f_locals"), const("self")) == M))
        cases.append(Implies(And(has_token_local, provided, Not(Val.is_none(r))),
                             And(r == H0.getf(T, "coro"), H0.getf(R, "trio_token") == tok, serves, hidden, Not(Val.is_none(M)))))
    else:
        cases.append(Implies(And(has_token_local, provided), Val.is_none(r)))
    return And(cases)


def ftr_unit():
    true_inv = lambda name, hdr: Inv(name, qf=lambda ctx: BoolVal(True), header=hdr, fields=[("hide", lambda p_: p_.env["frame"].t)])
    return Unit("C14.elaborate_from_thread_run", FTR, ftr_setup,
                post=[Clause("C14.from_thread.continues_into_the_system_task_serving_this_call", ftr_post)],
                bindings=dict(EXTRACT_BINDINGS), methods=dict(STD_METHODS), ctors=dict(CTORS), known_classes=KNOWN,
                invariants={(FTR, "for#1"): true_inv("C14.from_thread.referents_scan", "gc.get_referents"),
                            (FTR, "for#2"): true_inv("C14.from_thread.dict_scan", "ref.items()"),
                            (FTR, "for#3"): true_inv("C14.from_thread.system_tasks_scan", "child_tasks")},
                field_types={"f_locals": "dict"}, options=dict(iter_any_seq=True),
                allowed_raise=lambda ctx: is_kind(ctx.exc.t, "AttributeError"),
                assumptions=["gc.get_referents returns a list; Trio's thread-local run context is reachable as documented in the source comments "
                             "(which dict holds the runner is interpreter behaviour, decided by the bounded leg)",
                             "attribute reads on Trio objects (trio_token, system_nursery, child_tasks, context, coro) may raise AttributeError only"])


FTR_UNIT = ftr_unit()
UNITS_C14.append(FTR_UNIT)
UNITS.append(FTR_UNIT)


# ------------------------------------------------------------------------------------------------ C15: greenback bridges
# The three elaborate_frame hooks that stitch a greenback-bridged coroutine: each hides its own plumbing frame; when the hook
# is reached through an inner Frame (the bridge is not parked at its switch / yield point) the walk just continues; otherwise it
# redirects into the child greenlet (shim), the original coroutine (trampoline, old shim) or the awaited coroutine (await_).
GB = G + "glue_greenback."


def gb_setup(ex, p):
    frame = sym_ref(p, "frame", "Frame")
    nxt = sym_any(p, "next_inner")
    pyf = p.getf(frame.t, "pyframe")
    fl = p.getf(pyf, "f_locals")
    p.pc += [is_kind(pyf, "frame"), Val.a(pyf) >= 0, is_exact_kind(fl, "dict"), Val.a(fl) >= 0]
    p.env.update(frame=frame, next_inner=nxt)
    ex.unit_args = dict(frame=frame, next_inner=nxt, fl=fl, H0=p.snap())
    return ex.unit_args


def gb_local(ctx, name):
    a = ctx.args
    k = ctx.ex.const(ctx.p, name).t
    return If(a["H0"].dhas(a["fl"], k), a["H0"].dget(a["fl"], k), NONE)


def gb_hidden(ctx):
    return ctx.H.getf(ctx.args["frame"].t, "hide") == mkbool(True)


def shim_post(ctx):
    a = ctx.args
    inner_is_frame = is_kind(a["next_inner"].t, "Frame")
    cg, oc = gb_local(ctx, "child_greenlet"), gb_local(ctx, "orig_coro")
    gf = If(And(Val.is_ref(cg), hasattr_fn("gr_frame")(cg)), a["H0"].getf(cg, "gr_frame"), NONE)
    if ctx.kind == "return":
        r = ctx.result.t
        return And(gb_hidden(ctx), If(inner_is_frame, Val.is_none(r), If(Not(Val.is_none(gf)), r == cg, And(Not(Val.is_none(oc)), r == oc))))
    return And(gb_hidden(ctx), is_kind(ctx.exc.t, "RuntimeError"), Not(inner_is_frame), Val.is_none(gf), Val.is_none(oc))


def tramp_post(ctx):
    a = ctx.args
    inner_is_frame = is_kind(a["next_inner"].t, "Frame")
    oc = gb_local(ctx, "orig_coro")
    truthy = ctx.ex.truthy(ctx.p, SV(oc))
    if ctx.kind == "return":
        r = ctx.result.t
        return And(gb_hidden(ctx), If(inner_is_frame, Val.is_none(r), And(truthy, r == oc)))
    return And(gb_hidden(ctx), is_kind(ctx.exc.t, "RuntimeError"), Not(inner_is_frame), Not(truthy))


def await_post(ctx):
    a = ctx.args
    H0 = a["H0"]
    nx = a["next_inner"].t
    parked = Not(And(is_kind(nx, "Frame"),
                     Not(ctx.ex.eq(ctx.p, SV(H0.getf(H0.getf(H0.getf(nx, "pyframe"), "f_code"), "co_name")), ctx.ex.const(ctx.p, "switch")))))
    r = ctx.result.t
    return And(gb_hidden(ctx), If(parked, r == gb_local(ctx, "coro"), Val.is_none(r)))


def gb_unit(name, fn, post, both=True):
    return Unit("C15." + name, GB + fn, gb_setup,
                post=[Clause("C15." + name + ".redirect_rule", post, on=("return", "raise") if both else ("return",))],
                bindings=dict(EXTRACT_BINDINGS), methods=dict(STD_METHODS), ctors=dict(CTORS), known_classes=KNOWN,
                field_types={"f_locals": "dict"}, allowed_raise=(lambda ctx: is_kind(ctx.exc.t, "RuntimeError")) if both else (lambda ctx: is_kind(ctx.exc.t, "AttributeError")),
                assumptions=["greenback's frame locals (child_greenlet, orig_coro, coro) are read from f_locals as the source does; whether they "
                             "mean what the comments say is greenback's behaviour, decided by the bounded leg"])


GB_UNITS = [gb_unit("greenback_shim", "elaborate_greenback_shim", shim_post), gb_unit("greenback_trampoline", "elaborate_trampoline", tramp_post),
            gb_unit("greenback_await", "elaborate_greenback_await", await_post, both=False)]
UNITS_C15 += GB_UNITS
UNITS += GB_UNITS
UNITS += UNITS_BACKPORT
