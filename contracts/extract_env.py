"""Shared modelling of stackscope._extract's environment: the thread-local options object, the push() context manager
(as the CONTRACT proved by unit C13.push), Stack/Frame/Context constructors, extract_iter generator objects."""
from .common import *  # noqa
import ast
from pyvc import source

EX = "stackscope._extract."
for c in ("Frame", "Stack", "Context", "StackSlice", "FrameIterator", "ExtractOptions", "push_cm", "extract_iter_gen",
          "FormatOptions"):
    register_class(c)


def options_are_thread_local():
    """read from the AST: does ExtractOptions derive from threading.local?"""
    cd = source.get_class(EX + "ExtractOptions")
    return any(ast.unparse(b) in ("threading.local", "local") for b in cd.bases)


def options_setup(p, wc=None, rct=None):
    """current_options for the CURRENT thread.  If the class is not thread-local the two fields are shared cells that
       other threads may overwrite at any time (rely): every read then returns an arbitrary value."""
    co = sym_ref(p, "current_options", "ExtractOptions")
    if wc is not None:
        p.setf(co.t, "with_contexts", wc)
    if rct is not None:
        p.setf(co.t, "recurse_child_tasks", rct)
    return co


def opt_read(field):
    def prop(ex, p, obj):
        if options_are_thread_local():
            return [("ok", p, SV(p.getf(obj.t, field)))]
        v = fresh("interference_" + field)     # another thread may have pushed its own options in between
        p.pc.append(Or(Val.is_none(v), Val.is_boolv(v)))
        return [("ok", p, SV(v))]
    return prop


OPT_PROPS = {("ExtractOptions", "with_contexts"): opt_read("with_contexts"),
             ("ExtractOptions", "recurse_child_tasks"): opt_read("recurse_child_tasks")}


# --- contract of ExtractOptions.push as seen by `with current_options.push(...)` (proved by unit C13.push)
def m_push(ex, p, args, kwargs, node):
    self = args[0]
    if set(kwargs) != {"with_contexts", "recurse_child_tasks"} or len(args) != 1:
        raise Unsupported("push() call shape")
    cm = p.new_obj("push_cm")
    return [("ok", p, SV(cm, ty="push_cm", opts=self, wc=kwargs["with_contexts"], rct=kwargs["recurse_child_tasks"]))]


def push_enter(ex, p, args, kwargs, node):
    cm = args[0]
    o = cm.get("opts")
    prev = (p.getf(o.t, "with_contexts"), p.getf(o.t, "recurse_child_tasks"))
    p.ghost["push_prev"] = p.ghost.get("push_prev", ()) + (prev,)
    p.setf(o.t, "with_contexts", cm.get("wc").t)
    p.setf(o.t, "recurse_child_tasks", cm.get("rct").t)
    p.ghost["push_depth"] = p.ghost.get("push_depth", 0) + 1
    return [("ok", p, NONE_SV)]


def push_exit(ex, p, args, kwargs, node):
    cm = args[0]
    o = cm.get("opts")
    prev = p.ghost["push_prev"][-1]
    p.ghost["push_prev"] = p.ghost["push_prev"][:-1]
    p.setf(o.t, "with_contexts", prev[0])
    p.setf(o.t, "recurse_child_tasks", prev[1])
    p.ghost["push_depth"] = p.ghost.get("push_depth", 0) - 1
    return [("ok", p, sv_bool(False))]


PUSH_METHODS = {("ExtractOptions", "push"): m_push, ("push_cm", "__enter__"): push_enter, ("push_cm", "__exit__"): push_exit}


# --- dataclass constructors (dataclass __init__ assumed to behave as documented)
def ctor(kindname, fields, defaults, post_init=None):
    def model(ex, p, args, kwargs, node):
        vals = dict(defaults)
        for name, a in zip(fields, args):
            vals[name] = a.t
        for k, v in kwargs.items():
            if k not in fields:
                raise Unsupported(f"{kindname}() got unexpected field {k}")
            vals[k] = v.t
        missing = [f for f in fields if f not in vals]
        if missing:
            raise Unsupported(f"{kindname}() missing {missing}")
        o = p.new_obj(kindname, **vals)
        sv = SV(o, ty=kindname)
        if post_init:
            post_init(ex, p, sv)
        return [("ok", p, sv)]
    return model


def empty_tuple_const(p):
    if "EMPTY_TUPLE" not in p.ghost:
        p.ghost["EMPTY_TUPLE"] = p.new_seq("tuple", [])
    return p.ghost["EMPTY_TUPLE"]


def ctor_stack(ex, p, args, kwargs, node):
    return ctor("Stack", ["root", "frames", "leaf", "error"], dict(leaf=NONE, error=NONE))(ex, p, args, kwargs, node)


def ctor_frame(ex, p, args, kwargs, node):
    def post_init(ex_, p_, sv):
        # Frame.__post_init__: lineno defaults to pyframe.f_lineno (unit C03.post_init)
        ln = p_.getf(sv.t, "lineno")
        p_.setf(sv.t, "lineno", If(ln == mkint(-1), p_.getf(p_.getf(sv.t, "pyframe"), "f_lineno"), ln))
    d = dict(lineno=mkint(-1), origin=NONE, contexts=empty_tuple_const(p), hide=mkbool(False), hide_line=mkbool(False))
    return ctor("Frame", ["pyframe", "lineno", "origin", "contexts", "hide", "hide_line"], d, post_init)(ex, p, args, kwargs, node)


def ctor_context(ex, p, args, kwargs, node):
    d = dict(is_exiting=mkbool(False), varname=NONE, start_line=NONE, description=NONE, inner_stack=NONE,
             children=empty_tuple_const(p), hide=mkbool(False))
    return ctor("Context", ["obj", "is_async", "is_exiting", "varname", "start_line", "description", "inner_stack",
                            "children", "hide"], d)(ex, p, args, kwargs, node)


def ctor_stackslice(ex, p, args, kwargs, node):
    return ctor("StackSlice", ["outer", "inner", "limit"], dict(outer=NONE, inner=NONE, limit=NONE))(ex, p, args, kwargs, node)


def ctor_exception_group(ex, p, args, kwargs, node):
    """ExceptionGroup(msg, seq): .exceptions is the tuple of the members of seq, in order (assumed library contract)"""
    e = p.new_obj("ExceptionGroup", arg0=args[0].t, exceptions_src=args[1].t)
    p.ghost["eg_snapshot"] = p.ghost.get("eg_snapshot", ()) + ((e, args[1].t, p.snap()),)
    return [("ok", p, SV(e, ty="ExceptionGroup"))]


CTORS = {"Stack": ctor_stack, "Frame": ctor_frame, "Context": ctor_context, "StackSlice": ctor_stackslice,
         "ExceptionGroup": ctor_exception_group}

EXTRACT_BINDINGS = dict(STD_BINDINGS)
EXTRACT_BINDINGS.update({
    "Stack": cls("Stack"), "Frame": cls("Frame"), "Context": cls("Context"), "StackSlice": cls("StackSlice"),
    "FrameIterator": cls("FrameIterator"),
})
KNOWN = ["Frame", "Stack", "Context", "StackSlice", "FrameIterator", "ExtractOptions"]
