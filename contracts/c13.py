"""C13 — extraction options are scoped to their call tree and thread; stubs honoured.
   Units: ExtractOptions.push, extract, extract_child, extract_outermost (+ C16.outermost clauses), fill_context (outside)."""
from .extract_env import *  # noqa


def fields_now(ctx_or_p, co):
    """what the current thread reads from the options object now (subject to interference if it is not thread-local)"""
    p = ctx_or_p
    if options_are_thread_local():
        return p.getf(co, "with_contexts"), p.getf(co, "recurse_child_tasks")
    return fresh("interference_wc"), fresh("interference_rct")


# ------------------------------------------------------------------------------------------------ push
def push_setup(ex, p):
    co = options_setup(p)
    wc, rct = sym_bool(p, "with_contexts"), sym_bool(p, "recurse_child_tasks")
    p.env.update(self=co, with_contexts=wc, recurse_child_tasks=rct)
    return dict(self=co, with_contexts=wc, recurse_child_tasks=rct)


def push_on_yield(ex, p, v, node):
    co = p.env["self"].t
    a, b = fields_now(p, co)
    ex.oblig("C13.push.body_sees_args", "clause", p, And(a == p.env["with_contexts"].t, b == p.env["recurse_child_tasks"].t))
    p.ghost["yields"] = p.ghost.get("yields", 0) + 1
    ok = p
    bad = p.clone()
    e = bad.new_obj(None)
    bad.pc.append(Or([kind(Val.a(e)) == K(s_) for s_ in subkinds("BaseException")]))
    bad.ghost["thrown"] = e
    bad.note("exception thrown into the with-body")
    return [("ok", ok, NONE_SV), ("raise", bad, SV(e, site="with-body"))]


def push_restored(ctx):
    co = ctx.args["self"].t
    a, b = fields_now(ctx.p, co)
    return And(a == ctx.H0.getf(co, "with_contexts"), b == ctx.H0.getf(co, "recurse_child_tasks"),
               BoolVal(ctx.ghost.get("yields", 0) == 1))


def push_raise_ok(ctx):
    # only the exception thrown into the body propagates
    return ctx.exc.t == ctx.ghost["thrown"] if "thrown" in ctx.ghost else BoolVal(False)


PUSH_UNIT = Unit("C13.push", EX + "ExtractOptions.push", push_setup,
                 post=[Clause("C13.push.restored_on_every_exit", push_restored, on=("any",))],
                 bindings=dict(EXTRACT_BINDINGS), methods=dict(STD_METHODS), props=dict(OPT_PROPS), known_classes=KNOWN,
                 on_yield=push_on_yield, allowed_raise=push_raise_ok,
                 assumptions=["contextlib.contextmanager runs the generator to its first yield on __enter__ and resumes it / throws "
                              "the body's exception into it on __exit__",
                              "threading.local gives each thread its own attribute namespace (class attributes as initial values): "
                              "other threads cannot change what this thread reads; if ExtractOptions is NOT a threading.local the "
                              "model lets any other thread overwrite the fields at any time"])


# ------------------------------------------------------------------------------------------------ extract_iter as a callee
def contract_extract_iter(ex, p, args, kwargs, node):
    """calling the generator function does nothing yet; stepping it is modelled by gen_next (its contract is proved by the
       extract_iter units of C05/C10)"""
    if kwargs or len(args) != 2:
        raise Unsupported("extract_iter called with arguments its contract does not cover")
    item, errors = args
    Y = p.new_seq("list", [])
    g = p.new_obj("extract_iter_gen")
    p.ghost["gens"] = p.ghost.get("gens", ()) + ((g, item.t, errors.t, Y),)
    return [("ok", p, SV(g, ty="extract_iter_gen", item=item, errors=errors, Y=Y))]


def gen_next(ex, p, args, kwargs, node):
    it = args[0]
    errors, Y = it.get("errors"), it.get("Y")
    co = p.env.get("current_options") or ex.unit.bindings.get("current_options")
    # contract precondition of extract_iter: called inside an extraction (with_contexts is not None)
    wc, _ = fields_now(p, co.t)
    ex.oblig("C13.extract_iter.requires_inside_extract", "pre", p, Not(Val.is_none(wc)))
    # (a) save_errors only grows, by Exception instances
    H = p.snap()
    et = errors.t
    ex.write_barrier(p, ("cont", et), node)
    a = Val.a(et)
    nhi = fresh_int("err_hi")
    arr = fresh("err_el", AV)
    p.h.hi = Store(p.h.hi, a, nhi)
    p.h.el = Store(p.h.el, a, arr)
    p.pc.append(nhi >= H.hi_(et))
    p.bump_alloc()
    p.add_schema(et, lambda pth, j: And(Implies(And(j >= H.lo_(et), j < H.hi_(et)), Select(arr, j) == pth.read(et, j, H)),
                                        Implies(And(j >= H.hi_(et), j < nhi), And(is_kind(Select(arr, j), "Exception"),
                                                                                 Val.a(Select(arr, j)) >= -pth.h.alloc))))
    p.trace = p.trace + [("next", (it.t,), None)]
    # (b) yields a Frame or finishes with the leaf; nothing else escapes
    y, r = p.clone(), p.clone()
    f = fresh("yielded_frame")
    y.pc += [is_kind(f, "Frame"), Val.a(f) >= -y.h.alloc, Val.a(f) != Val.a(Y), Val.a(f) != a]
    ex.write_barrier(y, ("cont", Y), node)
    y.seq_append(Y, f)
    leaf = fresh("leaf")
    r.pc.append(Implies(Val.is_ref(leaf), Val.a(leaf) >= -r.h.alloc))
    e = r.new_obj("StopIteration", value=leaf)
    r.ghost["finished"] = r.ghost.get("finished", ()) + (it.t,)
    r.ghost["stop_value"] = leaf
    return [("ok", y, SV(f, ty="Frame")), ("raise", r, SV(e, ty="StopIteration", site="extract_iter returned"))]


GEN_METHODS = {("extract_iter_gen", "__next__"): gen_next}


# ------------------------------------------------------------------------------------------------ extract_child
def child_setup(ex, p):
    co = options_setup(p)
    p.pc.append(Or(Val.is_none(p.getf(co.t, "recurse_child_tasks")), Val.is_boolv(p.getf(co.t, "recurse_child_tasks"))))
    p.pc.append(Val.is_none(p.getf(co.t, "recurse_child_tasks")) == Val.is_none(p.getf(co.t, "with_contexts")))   # OPT: both None or both bool
    p.pc.append(Or(Val.is_none(p.getf(co.t, "with_contexts")), Val.is_boolv(p.getf(co.t, "with_contexts"))))
    item = sym_any(p, "stackitem")
    for_task = sym_bool(p, "for_task")
    p.env.update(stackitem=item, for_task=for_task)
    ex.unit.bindings["current_options"] = co
    return dict(co=co, stackitem=item, for_task=for_task)


def child_inv():
    def qf(ctx):
        fr, er = ctx.v("frames"), ctx.v("errors")
        g = ctx.p.ghost["gens"][0]
        Y = g[3]
        H = ctx.H
        return And(H.length(fr) == H.length(Y), H.lo_(fr) == 0, H.lo_(Y) == 0, H.length(er) >= 0, H.lo_(er) == ctx.H0.lo_(er),
                   ctx.v("it") == ctx.v0("it"), fr == ctx.v0("frames"), er == ctx.v0("errors"),
                   ctx.H.getf(ctx.v0("current_options") if "current_options" in ctx.env0 else ctx.ex.unit.bindings["current_options"].t, "with_contexts") ==
                   ctx.H0.getf(ctx.ex.unit.bindings["current_options"].t, "with_contexts"))
    def same(ctx, pth, j):
        g = ctx.p.ghost["gens"][0]
        Y = g[3]
        fr = ctx.v("frames")
        return Implies(And(j >= 0, j < ctx.H.length(fr)), pth.read(fr, j, ctx.H) == pth.read(Y, j, ctx.H))
    def errs(ctx, pth, j):
        er = ctx.v("errors")
        return Implies(And(j >= ctx.H.lo_(er), j < ctx.H.hi_(er)), And(is_kind(pth.read(er, j, ctx.H), "Exception")))
    return Inv("C13.extract_child.collect", qf=qf, foralls=[("frames", same), ("errors", errs)],
               conts=["frames", "errors", lambda p: p.ghost["gens"][0][3]])


def child_post(ctx):
    co, item, ft = ctx.args["co"].t, ctx.args["stackitem"].t, ctx.args["for_task"].t
    rct0 = ctx.H0.getf(co, "recurse_child_tasks")
    r = ctx.result.t
    H = ctx.H
    stub = And(Val.b(ft), Not(Val.b(rct0)))
    calls = [t for t in ctx.p.trace if t[0] == "next"]
    if not ctx.p.ghost.get("gens"):
        # stub: frameless, root only, and NO hook / generator step was made
        return And(stub, is_kind(r, "Stack"), H.getf(r, "root") == item, H.length(H.getf(r, "frames")) == 0,
                   is_exact_kind(H.getf(r, "frames"), "list"), H.getf(r, "leaf") == NONE, H.getf(r, "error") == NONE,
                   BoolVal(len(calls) == 0))
    g = ctx.p.ghost["gens"][0]
    Y, errors = g[3], g[2]
    fr = H.getf(r, "frames")
    jq = fresh_int("jq")
    ctx.p.read(fr, jq, H)
    nerr = H.length(errors)
    err = H.getf(r, "error")
    stop = ctx.env.get("ex")
    return And(Not(stub), BoolVal(len(ctx.p.ghost["gens"]) == 1), g[1] == item, is_kind(r, "Stack"),
               H.length(fr) == H.length(Y), Implies(And(jq >= 0, jq < H.length(fr)), H.raw(fr, jq) == H.raw(Y, jq)),
               H.getf(r, "root") == If(is_kind(item, "StackSlice"), NONE, item),
               BoolVal(ctx.p.ghost.get("finished") == (ctx.env["it"].t,)), H.getf(r, "leaf") == ctx.p.ghost["stop_value"],
               Implies(nerr == 0, err == NONE),
               Implies(nerr == 1, err == H.at(errors, 0)),
               Implies(nerr > 1, And(is_kind(err, "ExceptionGroup"), H.getf(err, "exceptions_src") == errors)))


def child_leaf(ctx):
    if not ctx.p.ghost.get("gens"):
        return None
    # leaf is the generator's return value
    stops = [o for o in ctx.p.ghost.get("last_stop", ())]
    return None


def child_options_untouched(ctx):
    co = ctx.args["co"].t
    a, b = fields_now(ctx.p, co)
    return And(a == ctx.H0.getf(co, "with_contexts"), b == ctx.H0.getf(co, "recurse_child_tasks"))


def child_raise_ok(ctx):
    co = ctx.args["co"].t
    return And(is_kind(ctx.exc.t, "RuntimeError"), Val.is_none(ctx.H0.getf(co, "recurse_child_tasks")),
               BoolVal(not ctx.p.ghost.get("gens")))


def child_guard(ctx):
    # outside any extraction it refuses to run
    co = ctx.args["co"].t
    return Not(Val.is_none(ctx.H0.getf(co, "recurse_child_tasks")))


CHILD_UNIT = Unit("C13.extract_child", EX + "extract_child", child_setup,
                  post=[Clause("C13.extract_child.result", child_post),
                        Clause("C13.extract_child.refuses_outside_extract", child_guard),
                        Clause("C13.extract_child.options_untouched", child_options_untouched, on=("any",))],
                  bindings=dict(EXTRACT_BINDINGS, extract_iter=contract_extract_iter), methods={**STD_METHODS, **GEN_METHODS},
                  props=dict(OPT_PROPS), ctors=dict(CTORS), known_classes=KNOWN,
                  invariants={(EX + "extract_child", "while#1"): child_inv()},
                  allowed_raise=child_raise_ok,
                  assumptions=["contract of extract_iter as a generator (proved by the C05/C10 units): each step appends only Exception "
                               "instances to save_errors, then yields a Frame or returns the leaf; no other exception escapes",
                               "ExceptionGroup(msg, seq).exceptions == tuple(seq)"])


# ------------------------------------------------------------------------------------------------ extract / extract_outermost
def contract_extract_child(ex, p, args, kwargs, node):
    """callee contract (unit C13.extract_child): RuntimeError iff options unset; otherwise a fresh Stack; options untouched"""
    if set(kwargs) != {"for_task"} or len(args) != 1:
        raise Unsupported("extract_child call shape")
    co = ex.unit.bindings["current_options"]
    wc, rct = fields_now(p, co.t)
    t, f = ex.fork(p, Not(Val.is_none(rct)))
    res = []
    if t is not None:
        st = t.new_obj("Stack")
        t.trace = t.trace + [("extract_child", (args[0].t, kwargs["for_task"].t, wc, rct), ("ret", st))]
        res.append(("ok", t, SV(st, ty="Stack")))
    if f is not None:
        res.append(ex.raise_new(f, "RuntimeError", site="extract_child outside extract"))
    return res


def extract_setup(ex, p):
    co = options_setup(p)
    item = sym_any(p, "stackitem")
    wc, rct = sym_bool(p, "with_contexts"), sym_bool(p, "recurse_child_tasks")
    p.env.update(stackitem=item, with_contexts=wc, recurse_child_tasks=rct)
    ex.unit.bindings["current_options"] = co
    return dict(co=co, stackitem=item, with_contexts=wc, recurse_child_tasks=rct)


def extract_post(ctx):
    calls = [t for t in ctx.p.trace if t[0] == "extract_child"]
    if len(calls) != 1:
        return BoolVal(False)
    (item, ft, wc, rct), (_, st) = calls[0][1], calls[0][2]
    return And(item == ctx.args["stackitem"].t, ft == mkbool(False), wc == ctx.args["with_contexts"].t,
               rct == ctx.args["recurse_child_tasks"].t, ctx.result.t == st)


def options_restored(ctx):
    co = ctx.args["co"].t
    a, b = fields_now(ctx.p, co)
    return And(a == ctx.H0.getf(co, "with_contexts"), b == ctx.H0.getf(co, "recurse_child_tasks"),
               BoolVal(ctx.p.ghost.get("push_depth", 0) == 0))


EXTRACT_UNIT = Unit("C13.extract", EX + "extract", extract_setup,
                    post=[Clause("C13.extract.pushes_exactly_its_arguments", extract_post),
                          Clause("C13.extract.restores_on_every_exit", options_restored, on=("any",))],
                    bindings=dict(EXTRACT_BINDINGS, extract_child=contract_extract_child),
                    methods={**STD_METHODS, **PUSH_METHODS}, props=dict(OPT_PROPS), ctors=dict(CTORS), known_classes=KNOWN)


def outermost_post(ctx):
    gens = ctx.p.ghost.get("gens", ())
    if len(gens) != 1:
        return BoolVal(False)
    g = gens[0]
    Y = g[3]
    nexts = [t for t in ctx.p.trace if t[0] == "next"]
    return And(g[1] == ctx.args["stackitem"].t, BoolVal(len(nexts) == 1), ctx.H.length(Y) == 1, ctx.result.t == ctx.H.at(Y, 0))


def outermost_raise_ok(ctx):
    gens = ctx.p.ghost.get("gens", ())
    if len(gens) != 1 or not ctx.p.ghost.get("finished"):
        return BoolVal(False)
    errors = gens[0][2]
    H = ctx.H
    n = H.length(errors)
    e = ctx.exc.t
    return And(H.length(gens[0][3]) == 0,
               Implies(n > 1, And(is_kind(e, "ExceptionGroup"), H.getf(e, "exceptions_src") == errors)),
               Implies(n == 1, e == H.at(errors, 0)),
               Implies(n == 0, is_kind(e, "RuntimeError")))


OUTERMOST_UNIT = Unit("C13.extract_outermost", EX + "extract_outermost", extract_setup,
                      post=[Clause("C16.extract_outermost.first_yield_of_same_iterator", outermost_post),
                            Clause("C13.extract_outermost.restores_on_every_exit", options_restored, on=("any",))],
                      bindings=dict(EXTRACT_BINDINGS, extract_iter=contract_extract_iter),
                      methods={**STD_METHODS, **PUSH_METHODS, **GEN_METHODS}, props=dict(OPT_PROPS), ctors=dict(CTORS),
                      known_classes=KNOWN, allowed_raise=outermost_raise_ok)

UNITS = [PUSH_UNIT, CHILD_UNIT, EXTRACT_UNIT, OUTERMOST_UNIT]
