"""C04 — running-stack extraction and StackSlice slicing.  Units (deductive): try_from (f_back walk with invariant), the
index/slice block and the limit-trimming block of unwrap_stackslice (extracted mechanically from the real AST by statement
pattern: see body_of below), get_true_caller, extract_since / extract_until argument mapping.  The two greenlet-stitching
loops that BUILD this_thread_frames are covered by the bounded native leg only."""
from .extract_env import *  # noqa
import ast

G = "stackscope._glue."
US = G + "unwrap_stackslice"
anc = Function("fback_anc", Val, IntSort(), Val)         # ghost: n-th f_back ancestor
pos = Function("stack_pos", Val, IntSort())              # ghost: position of a frame in this_thread_frames (distinct frames)


# ------------------------------------------------------------------------------------------------ try_from
TF = US + ".try_from"


def tf_setup(ex, p):
    pif = sym_ref(p, "potential_inner_frame", "frame")
    outer = sym_any(p, "outer_frame")
    p.pc.append(Or(Val.is_none(outer.t), is_kind(outer.t, "frame")))
    p.pc.append(anc(pif.t, 0) == pif.t)
    p.env.update(potential_inner_frame=pif, outer_frame=outer)
    return dict(pif=pif, outer=outer)


def tf_inv():
    def qf(ctx):
        fr, cur = ctx.v("frames"), ctx.v("current")
        H = ctx.H
        n = H.length(fr)
        pif = ctx.v0("potential_inner_frame")
        return And(fr == ctx.v0("frames"), H.lo_(fr) == 0, n >= 0, cur == anc(pif, n), Or(Val.is_none(cur), is_kind(cur, "frame")))
    def defs(ctx):
        fr, cur = ctx.v("frames"), ctx.v("current")
        n = ctx.H.length(fr)
        pif = ctx.v0("potential_inner_frame")
        fb = ctx.H.getf(cur, "f_back")
        return And(anc(pif, n + 1) == fb, Implies(is_kind(cur, "frame"), Or(Val.is_none(fb), And(is_kind(fb, "frame"), Val.a(fb) >= 0))))
    def chain(ctx, pth, j):
        fr = ctx.v("frames")
        pif = ctx.v0("potential_inner_frame")
        outer = ctx.v0("outer_frame")
        return Implies(And(j >= 0, j < ctx.H.length(fr)), And(pth.read(fr, j, ctx.H) == anc(pif, j), anc(pif, j) != outer, anc(pif, j) != NONE))
    return Inv("C04.try_from.walk", qf=qf, defs=defs, foralls=[("frames", chain)], conts=["frames"])


def tf_post(ctx):
    r = ctx.result.t
    H = ctx.H
    pif, outer = ctx.args["pif"].t, ctx.args["outer"].t
    n = H.length(r)
    k = fresh_int("kt")
    el = ctx.p.read(r, H.lo_(r) + k, H)
    walked = ctx.env.get("frames")
    m = H.length(walked.t) if walked is not None else IntVal(0)
    ctx.p.read(walked.t, H.lo_(walked.t) + (m - 1 - k), H) if walked is not None else None
    return And(Or(n == 0, n == m),
               # non-empty: the f_back chain from potential_inner_frame outwards, outermost first ...
               Implies(And(n > 0, k >= 0, k < n), el == anc(pif, n - 1 - k)),
               # ... ending at outer_frame (which is not met earlier), or the whole chain if no outer frame is given
               Implies(And(n > 0, Not(Val.is_none(outer))), anc(pif, n - 1) == outer),
               Implies(And(n > 0, Val.is_none(outer)), Or(Val.is_none(anc(pif, n)), anc(pif, n) == pif)),
               # empty: the walk reached the end of the chain without meeting outer_frame
               Implies(n == 0, And(Not(Val.is_none(outer)), Val.is_none(anc(pif, m)))))


TF_UNIT = Unit("C04.try_from", TF, tf_setup, post=[Clause("C04.try_from.result", tf_post)],
               bindings=dict(EXTRACT_BINDINGS), methods=dict(STD_METHODS), known_classes=KNOWN,
               invariants={(TF, "while#1"): tf_inv()},
               assumptions=["ghost fback_anc(x, n) is the n-th f_back ancestor (introduced by its defining equations)",
                            "a frame's f_back is None or a frame"])


# ------------------------------------------------------------------------------------------------ get_true_caller
GTC = G + "get_true_caller"
from pyvc.exec import str_startswith  # noqa: E402


def gtc_setup(ex, p):
    start = sym_ref(p, "getframe1", "frame")
    p.pc.append(anc(start.t, 0) == start.t)
    wrapper = sym_ref(p, "functools_singledispatch_wrapper", "code")
    def getframe(ex_, p_, args, kw, node):
        ex_.oblig("C04.true_caller.starts_at_own_caller", "clause", p_, And(len(args) == 1, args[0].t == mkint(1)) if len(args) == 1 else BoolVal(False))
        return [("ok", p_, start)]
    def dict_get_name(ex_, p_, args, kw, node):
        # f_globals.get("__name__", ""): the module name of the frame (a str), "" if the globals have none
        d = args[0]
        r = modname_of(d.t)
        p_.pc.append(is_exact_kind(r, "str"))
        return [("ok", p_, SV(r, ty="str"))]
    ex.unit.bindings["sys._getframe"] = getframe
    ex.unit.bindings["functools_singledispatch_wrapper"] = wrapper
    ex.unit.methods[("globals_dict", "get")] = dict_get_name
    ex.unit_args = dict(start=start, wrapper=wrapper)
    return ex.unit_args


modname_of = Function("modname_of", Val, Val)            # f_globals.get("__name__", "")


def skipped(ex, p, H, f, wrapper):
    """the frames get_true_caller walks past: code of the stackscope package outside its tests, and singledispatch's wrapper"""
    name = modname_of(H.getf(f, "f_globals"))
    return Or(And(str_startswith(name, ex.const(p, "stackscope.").t), Not(str_startswith(name, ex.const(p, "stackscope._tests.").t))),
              H.getf(f, "f_code") == wrapper)


def gtc_inv():
    def setup(ctx):
        ctx.p.ghost["gtc_n"] = IntVal(0)
    def qf(ctx):
        cur = ctx.v("caller")
        n = ctx.p.ghost.get("gtc_n")
        return And(n >= 0, cur == anc(ctx.ex.unit_args["start"].t, n), Or(Val.is_none(cur), And(is_kind(cur, "frame"), Val.a(cur) >= 0)))
    def ghost_havoc(ctx):
        ctx.p.ghost["gtc_n"] = fresh_int("gtc_n")
    def defs(ctx):
        cur = ctx.v("caller")
        n = ctx.p.ghost["gtc_n"]
        fb = ctx.H.getf(cur, "f_back")
        return And(anc(ctx.ex.unit_args["start"].t, n + 1) == fb,
                   Implies(is_kind(cur, "frame"), Or(Val.is_none(fb), And(is_kind(fb, "frame"), Val.a(fb) >= 0))))
    return Inv("C04.true_caller.walk", qf=qf, defs=defs, ghost_havoc=ghost_havoc, setup=setup,
               steps=[("C04.true_caller.only_skips_own_and_singledispatch_frames",
                       lambda ctx: skipped(ctx.ex, ctx.p, ctx.H, anc(ctx.ex.unit_args["start"].t, ctx.p.ghost["gtc_n"] - 1), ctx.ex.unit_args["wrapper"].t))])


def gtc_before_iter_end(ex, n, p):
    # ghost: one more ancestor has been walked past when `caller = caller.f_back` executes
    if isinstance(n, ast.Assign) and ast.unparse(n).replace(" ", "") == "caller=caller.f_back" and "gtc_n" in p.ghost:
        p.ghost["gtc_n"] = p.ghost["gtc_n"] + 1


def gtc_post(ctx):
    r = ctx.result.t
    n = ctx.p.ghost["gtc_n"]
    start, wrapper = ctx.args["start"].t, ctx.args["wrapper"].t
    return And(r == anc(start, n), is_kind(r, "frame"), Not(skipped(ctx.ex, ctx.p, ctx.H, r, wrapper)))


GTC_UNIT = Unit("C04.get_true_caller", GTC, gtc_setup,
                post=[Clause("C04.true_caller.first_foreign_frame", gtc_post)],
                bindings=dict(EXTRACT_BINDINGS), methods=dict(STD_METHODS), known_classes=KNOWN,
                invariants={(GTC, "while#1"): gtc_inv()}, before_stmt=gtc_before_iter_end,
                field_types={"f_globals": "globals_dict"},
                allowed_raise=lambda ctx: is_kind(ctx.exc.t, "AssertionError"),
                assumptions=["ghost fback_anc(x, n) is the n-th f_back ancestor (introduced by its defining equations)",
                             "f_globals.get('__name__', '') is a str; str.startswith is an opaque but functional predicate"])


# ------------------------------------------------------------------------------------------------ greenlet stitching loops
# this_thread_frames = the f_back chain of the true caller, then - for every greenlet parent in turn, up to the one without a
# parent - the f_back chain of that parent's gr_frame (nothing for a parent that has no frame: dead or not started).
ganc = Function("greenlet_parent_anc", Val, IntSort(), Val)     # ghost: m-th parent of the current greenlet
goff = Function("C04.goff", IntSort(), IntSort())               # ghost: frames collected for greenlets [0, m)
gown = Function("C04.gown", IntSort(), IntSort())               # ghost: which greenlet a collected frame belongs to


def select_stitch_block(fi):
    """the statements `this_thread_frames = []` ... `while greenlet is not None: ...` inside the cpython/greenlet branch"""
    for n in ast.walk(fi.node):
        if isinstance(n, ast.If) and "greenlet_getcurrent().parent" in ast.unparse(n.test):
            out = []
            for st in n.body:
                if isinstance(st, ast.Try):
                    break
                out.append(st)
            if any(isinstance(st, ast.While) for st in out):
                return out
    raise KeyError("contract anchor lost: greenlet stitching block of unwrap_stackslice not found")


def st_setup(ex, p):
    g0 = sym_ref(p, "current_greenlet", "greenlet")
    c0 = sym_ref(p, "true_caller", "frame")
    p.pc += [ganc(g0.t, 0) == g0.t, anc(c0.t, 0) == c0.t, goff(0) == 0]
    ex.unit.bindings["greenlet_getcurrent"] = lambda ex_, p_, a, k, n: [("ok", p_, g0)]
    ex.unit.bindings["get_true_caller"] = lambda ex_, p_, a, k, n: [("ok", p_, c0)]
    ex.unit_args = dict(g0=g0, c0=c0)
    return ex.unit_args


def st_start(H, a, m):
    return If(m == 0, a["c0"].t, H.getf(ganc(a["g0"].t, m), "gr_frame"))


def st_elem_ok(ctx, pth, j, upper, mmax, frames=None):
    a = ctx.ex.unit_args
    H = ctx.H
    fr = frames if frames is not None else ctx.v("this_thread_frames")
    m = gown(j)
    e = pth.read(fr, j, H)
    return Implies(And(j >= 0, j < upper),
                   And(m >= 0, m <= mmax, j - goff(m) >= 0, e == anc(st_start(ctx.H0, a, m), j - goff(m)), is_kind(e, "frame"),
                       Implies(j + 1 < upper, gown(j) <= gown(j + 1))))


def st_typed(H, g):
    par, gf = H.getf(g, "parent"), H.getf(g, "gr_frame")
    return And(Or(Val.is_none(par), And(is_kind(par, "greenlet"), Val.a(par) >= 0)), Or(Val.is_none(gf), And(is_kind(gf, "frame"), Val.a(gf) >= 0)))


def st_outer_inv():
    def setup(ctx):
        ctx.p.ghost["st_m"] = IntVal(0)
    def ghost_havoc(ctx):
        ctx.p.ghost["st_m"] = fresh_int("st_m")
    def qf(ctx):
        a = ctx.ex.unit_args
        m = ctx.p.ghost["st_m"]
        g, cur, fr = ctx.v("greenlet"), ctx.v("current"), ctx.v("this_thread_frames")
        return And(m >= 0, g == ganc(a["g0"].t, m), fr == ctx.v0("this_thread_frames"), ctx.H.lo_(fr) == 0, ctx.H.length(fr) == goff(m), goff(m) >= 0,
                   Or(Val.is_none(g), And(is_kind(g, "greenlet"), Val.a(g) >= 0)),
                   Implies(Not(Val.is_none(g)), cur == st_start(ctx.H0, a, m)),
                   Or(Val.is_none(cur), And(is_kind(cur, "frame"), Val.a(cur) >= 0)))
    def defs(ctx):
        a = ctx.ex.unit_args
        m = ctx.p.ghost["st_m"]
        g = ctx.v("greenlet")
        par = ctx.H0.getf(g, "parent")
        return And(ganc(a["g0"].t, m + 1) == par, Implies(is_kind(g, "greenlet"), st_typed(ctx.H0, g)),
                   Implies(is_kind(par, "greenlet"), st_typed(ctx.H0, par)),
                   anc(st_start(ctx.H0, a, m), 0) == st_start(ctx.H0, a, m))
    return Inv("C04.stitch.greenlets", qf=qf, defs=defs, setup=setup, ghost_havoc=ghost_havoc, conts=["this_thread_frames"],
               header="greenlet is not None",
               foralls=[("this_thread_frames", lambda ctx, pth, j: st_elem_ok(ctx, pth, j, goff(ctx.p.ghost["st_m"]), ctx.p.ghost["st_m"] - 1))])


def st_inner_inv():
    def qf(ctx):
        a = ctx.ex.unit_args
        m = ctx.p.ghost["st_m"]
        cur, fr = ctx.v("current"), ctx.v("this_thread_frames")
        n = ctx.H.length(fr)
        return And(fr == ctx.v0("this_thread_frames"), ctx.H.lo_(fr) == 0, n >= goff(m), goff(m) >= 0, ctx.v("greenlet") == ctx.v0("greenlet"),
                   cur == anc(st_start(ctx.ex.unit_args["H_outer"], a, m), n - goff(m)),
                   Or(Val.is_none(cur), And(is_kind(cur, "frame"), Val.a(cur) >= 0)))
    def defs(ctx):
        a = ctx.ex.unit_args
        m = ctx.p.ghost["st_m"]
        cur, fr = ctx.v("current"), ctx.v("this_thread_frames")
        n = ctx.H.length(fr)
        fb = ctx.H.getf(cur, "f_back")
        return And(anc(st_start(ctx.ex.unit_args["H_outer"], a, m), n - goff(m) + 1) == fb,
                   Implies(is_kind(cur, "frame"), Or(Val.is_none(fb), And(is_kind(fb, "frame"), Val.a(fb) >= 0))))
    def step(ctx):
        m = ctx.p.ghost["st_m"]
        n = ctx.H.length(ctx.v("this_thread_frames"))
        ctx.p.pc.append(gown(n - 1) == m)        # ghost: the frame just appended belongs to greenlet m
        return None
    return Inv("C04.stitch.f_back_walk", qf=qf, defs=defs, conts=["this_thread_frames"], steps=[("C04.stitch.ghost_owner", step)],
               header="current is not None",
               foralls=[("this_thread_frames", lambda ctx, pth, j: st_elem_ok_inner(ctx, pth, j))])


def st_elem_ok_inner(ctx, pth, j):
    import types as _t
    c2 = _t.SimpleNamespace(ex=ctx.ex, H=ctx.H, H0=ctx.ex.unit_args["H_outer"], v=ctx.v, p=ctx.p)
    return st_elem_ok(c2, pth, j, ctx.H.length(ctx.v("this_thread_frames")), ctx.p.ghost["st_m"])


def st_before_stmt(ex, n, p):
    # remember the heap at the head of the outer loop body (the inner invariant speaks about start(m) in that heap)
    if isinstance(n, ast.While) and "current is not None" in ast.unparse(n.test):
        ex.unit_args["H_outer"] = p.snap()
    if isinstance(n, ast.Assign) and ast.unparse(n).replace(" ", "") == "greenlet=greenlet.parent" and "st_m" in p.ghost:
        # the inner walk of greenlet m is over: it must have ended exactly where that greenlet's f_back chain ends; the running
        # count moves on (ghost definition of goff(m+1): each m is closed once)
        a = ex.unit_args
        m_old = p.ghost["st_m"]
        H = p.snap()
        n_now = H.length(p.env["this_thread_frames"].t)
        ex.oblig("C04.stitch.each_greenlet_chain_walked_to_its_end", "clause", p,
                 Val.is_none(anc(st_start(a["H_outer"], a, m_old), n_now - goff(m_old))))
        p.pc.append(goff(m_old + 1) == n_now)
        p.ghost["st_m"] = m_old + 1


def st_post(ctx):
    a = ctx.args
    fr = ctx.env["this_thread_frames"].t
    M = ctx.p.ghost["st_m"]
    j = fresh_int("js")
    import types as _t
    c2 = _t.SimpleNamespace(ex=ctx.ex, H=ctx.H, H0=ctx.H0, v=lambda nm: fr, p=ctx.p)
    return And(Val.is_none(ganc(a["g0"].t, M)), M >= 1, ctx.H.length(fr) == goff(M),
               st_elem_ok(c2, ctx.p, j, goff(M), M - 1, frames=fr))


STITCH_UNIT = Unit("C04.stitch_greenlet_parents", US, st_setup,
                   post=[Clause("C04.stitch.all_parents_visited_and_every_frame_is_on_its_greenlets_chain", st_post, on=("normal",))],
                   bindings=dict(EXTRACT_BINDINGS), methods=dict(STD_METHODS), known_classes=KNOWN, body_of=select_stitch_block,
                   invariants={(US, "while#1"): st_outer_inv(), (US, "while#2"): st_inner_inv()}, before_stmt=st_before_stmt,
                   allowed_raise=lambda ctx: BoolVal(False),
                   assumptions=["ghost functions: greenlet_parent_anc (m-th parent), fback_anc (n-th f_back ancestor), C04.goff / C04.gown (running "
                                "count / owner of a collected frame), each introduced by its defining equations",
                                "a greenlet's parent is None or a greenlet, its gr_frame None or a frame; a frame's f_back None or a frame",
                                "extraction: only the statements that build this_thread_frames are executed here"])


# ------------------------------------------------------------------------------------------------ index / slice block
def select_slice_block(fi):
    """the `try: from_idx ... except ValueError: pass else: frames = this_thread_frames[to_idx:from_idx:-1]` statement"""
    for n in ast.walk(fi.node):
        if isinstance(n, ast.Try) and any("this_thread_frames.index" in ast.unparse(x) for x in n.body):
            return [n]
    raise KeyError("contract anchor lost: index/slice block of unwrap_stackslice not found")


def sb_setup(ex, p):
    L = sym_seq(p, "this_thread_frames", "list")
    inner, outer = sym_any(p, "inner_frame"), sym_any(p, "outer_frame")
    n = p.length(L.t)
    p.pc += [n >= 1, p.lo(L.t) == 0, Or(Val.is_none(inner.t), is_kind(inner.t, "frame")), Or(Val.is_none(outer.t), is_kind(outer.t, "frame"))]
    H0 = p.snap()
    # the frames of a stack are pairwise distinct (acyclic f_back / greenlet parent chain): position function
    p.add_schema(L.t, lambda pth, j: Implies(And(j >= 0, j < n), And(pos(H0.raw(L.t, j)) == j, is_kind(H0.raw(L.t, j), "frame"))))
    frames0 = ex.make_tuple(p, [], "list")
    p.env.update(this_thread_frames=L, inner_frame=inner, outer_frame=outer, frames=frames0)
    return dict(L=L, inner=inner, outer=outer, frames0=frames0)


def sb_post(ctx):
    H0, H = ctx.H0, ctx.H
    L, inner, outer = ctx.args["L"].t, ctx.args["inner"].t, ctx.args["outer"].t
    n = H0.length(L)
    F = ctx.env["frames"].t
    miss = ctx.p.ghost.get("index_missing", ())
    k = fresh_int("ks")
    if miss:
        # an anchor is not in the list: frames stays empty (the other strategies take over)
        (lst, x, _) = miss[0]
        return And(F == ctx.args["frames0"].t, Or(x == inner, x == outer))
    hi = If(Val.is_none(outer), n - 1, pos(outer))          # outermost requested index (list is innermost-first)
    lo = If(Val.is_none(inner), 0, pos(inner))
    ln = If(hi - lo + 1 > 0, hi - lo + 1, 0)
    el = ctx.p.read(F, H.lo_(F) + k, H)
    ctx.p.read(L, H0.lo_(L) + (hi - k), H0)
    return And(H.length(F) == ln, Implies(And(k >= 0, k < ln), el == H0.at(L, hi - k)),
               Implies(Not(Val.is_none(inner)), And(pos(inner) >= 0, pos(inner) < n, H0.at(L, pos(inner)) == inner)),
               Implies(Not(Val.is_none(outer)), And(pos(outer) >= 0, pos(outer) < n, H0.at(L, pos(outer)) == outer)))


def sb_pre_instances(ex, n, p):
    pass


SLICE_UNIT = Unit("C04.slice_block", US, sb_setup, post=[Clause("C04.slice.is_the_requested_contiguous_subsequence", sb_post)],
                  bindings=dict(EXTRACT_BINDINGS), methods=dict(STD_METHODS), known_classes=KNOWN, body_of=select_slice_block,
                  options=dict(identity_eq=True),
                  assumptions=["frames of one stack are pairwise distinct objects (position function stack_pos)",
                               "list.index compares frames by identity (frame objects have default __eq__)",
                               "extraction: only the index/slice try-statement of unwrap_stackslice is executed; the stitching loops "
                               "that build this_thread_frames are covered by the bounded leg"])


# ------------------------------------------------------------------------------------------------ limit trimming block
def select_limit_block(fi):
    for n in ast.walk(fi.node):
        if isinstance(n, ast.If) and ast.unparse(n.test).startswith("spec.limit is not None"):
            return [n]
    raise KeyError("contract anchor lost: limit block of unwrap_stackslice not found")


def lb_setup(ex, p):
    spec = sym_ref(p, "spec", "StackSlice")
    frames = sym_seq(p, "frames", "list")
    inner, outer = sym_any(p, "inner_frame"), sym_any(p, "outer_frame")
    lim = p.getf(spec.t, "limit")
    p.pc += [Or(Val.is_none(lim), And(Val.is_intv(lim), Val.i(lim) >= 1)), p.lo(frames.t) == 0]
    p.env.update(spec=spec, frames=frames, inner_frame=inner, outer_frame=outer)
    return dict(spec=spec, frames=frames, inner=inner, outer=outer)


def lb_post(ctx):
    H0, H = ctx.H0, ctx.H
    F = ctx.args["frames"].t
    lim = H0.getf(ctx.args["spec"].t, "limit")
    n0 = H0.length(F)
    trim = And(Not(Val.is_none(lim)), n0 > Val.i(lim))
    head = And(Val.is_none(ctx.args["inner"].t), Not(Val.is_none(ctx.args["outer"].t)))
    k = fresh_int("kl")
    el = ctx.p.read(F, H.lo_(F) + k, H)
    l = Val.i(lim)
    return And(Implies(Not(trim), And(H.length(F) == n0, Implies(And(k >= 0, k < n0), el == H0.at(F, k)))),
               # a limit keeps the frames nearest the given anchor: outer if only outer is given, otherwise inner / the caller
               Implies(trim, And(H.length(F) == l,
                                 Implies(And(k >= 0, k < l), el == If(head, H0.at(F, k), H0.at(F, n0 - l + k))))))


LIMIT_UNIT = Unit("C04.limit_block", US, lb_setup, post=[Clause("C04.limit.keeps_frames_nearest_the_anchor", lb_post)],
                  bindings=dict(EXTRACT_BINDINGS), methods=dict(STD_METHODS), known_classes=KNOWN, body_of=select_limit_block,
                  assumptions=["limit is None or a positive int (documented)"])


# ------------------------------------------------------------------------------------------------ extract_since / extract_until
def contract_extract(ex, p, args, kwargs, node):
    p.trace = p.trace + [("extract", (args[0].t,), dict((k, v.t) for k, v in kwargs.items()))]
    st = p.new_obj("Stack")
    return [("ok", p, SV(st, ty="Stack"))]


def since_setup(ex, p):
    o = sym_any(p, "outer_frame")
    wc, rct = sym_bool(p, "with_contexts"), sym_bool(p, "recurse_child_tasks")
    p.env.update(outer_frame=o, with_contexts=wc, recurse_child_tasks=rct)
    return dict(outer=o, wc=wc, rct=rct)


def since_post(ctx):
    calls = [t for t in ctx.p.trace if t[0] == "extract"]
    if len(calls) != 1:
        return BoolVal(False)
    sl = calls[0][1][0]
    kw = calls[0][2]
    H = ctx.H
    return And(is_kind(sl, "StackSlice"), H.getf(sl, "outer") == ctx.args["outer"].t, H.getf(sl, "inner") == NONE, H.getf(sl, "limit") == NONE,
               kw.get("with_contexts", mkbool(True)) == ctx.args["wc"].t, kw.get("recurse_child_tasks", mkbool(False)) == ctx.args["rct"].t,
               Or(Val.is_none(ctx.args["outer"].t), is_kind(ctx.args["outer"].t, "frame")))


SINCE_UNIT = Unit("C04.extract_since", EX + "extract_since", since_setup, post=[Clause("C04.extract_since.maps_to_StackSlice_outer", since_post)],
                  bindings=dict(EXTRACT_BINDINGS, extract=contract_extract), methods=dict(STD_METHODS), ctors=dict(CTORS), known_classes=KNOWN,
                  allowed_raise=lambda ctx: And(is_kind(ctx.exc.t, "TypeError"), Not(Val.is_none(ctx.args["outer"].t)),
                                                Not(is_kind(ctx.args["outer"].t, "frame"))))


# ------------------------------------------------------------------------------------------------ extract_until
UNTIL = EX + "extract_until"
u_anc = Function("fback_anc_u", Val, IntSort(), Val)


def until_setup(ex, p):
    inner = sym_ref(p, "inner_frame", "frame")
    limit = sym_any(p, "limit")
    wc, rct = sym_bool(p, "with_contexts"), sym_bool(p, "recurse_child_tasks")
    p.pc.append(u_anc(inner.t, 0) == inner.t)
    p.env.update(inner_frame=inner, limit=limit, with_contexts=wc, recurse_child_tasks=rct)
    ex.unit_args = dict(inner=inner, limit=limit, wc=wc, rct=rct)
    return ex.unit_args


def until_inv():
    def setup(ctx):
        ctx.p.ghost["un_n"] = IntVal(0)
    def ghost_havoc(ctx):
        ctx.p.ghost["un_n"] = fresh_int("un_n")
    def qf(ctx):
        n = ctx.p.ghost["un_n"]
        o = ctx.v("outer_frame")
        return And(n >= 0, o == u_anc(ctx.ex.unit_args["inner"].t, n), Or(Val.is_none(o), And(is_kind(o, "frame"), Val.a(o) >= 0)),
                   ctx.v("limit") == ctx.v0("limit"), ctx.v("inner_frame") == ctx.v0("inner_frame"))
    def defs(ctx):
        n = ctx.p.ghost["un_n"]
        o = ctx.v("outer_frame")
        fb = ctx.H.getf(o, "f_back")
        return And(u_anc(ctx.ex.unit_args["inner"].t, n + 1) == fb,
                   Implies(is_kind(o, "frame"), Or(Val.is_none(fb), And(is_kind(fb, "frame"), Val.a(fb) >= 0))))
    def not_limit_before(ctx):
        # every frame walked past is neither the limit nor None
        n = ctx.p.ghost["un_n"]
        prev = u_anc(ctx.ex.unit_args["inner"].t, n - 1)
        return And(prev != ctx.v0("limit"), Not(Val.is_none(prev)))
    return Inv("C04.extract_until.walk", qf=qf, defs=defs, setup=setup, ghost_havoc=ghost_havoc, header="outer_frame is not limit",
               steps=[("C04.extract_until.limit_not_passed", not_limit_before)])


def until_before_stmt(ex, n, p):
    if isinstance(n, ast.Assign) and ast.unparse(n).replace(" ", "") == "outer_frame=outer_frame.f_back" and "un_n" in p.ghost:
        p.ghost["un_n"] = p.ghost["un_n"] + 1


def until_post(ctx):
    a = ctx.args
    calls = [t for t in ctx.p.trace if t[0] == "extract"]
    if len(calls) != 1:
        return BoolVal(False)
    sl, kw = calls[0][1][0], calls[0][2]
    H = ctx.H
    lim = a["limit"].t
    n = ctx.p.ghost.get("un_n")
    # an option that is not forwarded takes extract()'s default (with_contexts=True, recurse_child_tasks=False)
    common = And(is_kind(sl, "StackSlice"), H.getf(sl, "inner") == a["inner"].t, kw.get("with_contexts", mkbool(True)) == a["wc"].t,
                 kw.get("recurse_child_tasks", mkbool(False)) == a["rct"].t)
    if n is not None:
        o = H.getf(sl, "outer")
        # frame limit: the slice starts at the limit frame, which is an f_back ancestor of inner_frame (or, on a cyclic chain,
        # at the last frame before the chain returns to inner_frame)
        return And(common, is_kind(lim, "frame"), H.getf(sl, "limit") == NONE, o == u_anc(a["inner"].t, n), Not(Val.is_none(o)),
                   Or(o == lim, H.getf(o, "f_back") == a["inner"].t))
    return And(common, Or(Val.is_intv(lim), Val.is_boolv(lim), Val.is_none(lim)), H.getf(sl, "outer") == NONE, H.getf(sl, "limit") == lim)


def until_raise(ctx):
    lim = ctx.args["limit"].t
    n = ctx.p.ghost.get("un_n")
    if n is not None:
        return And(is_kind(ctx.exc.t, "RuntimeError"), is_kind(lim, "frame"), Val.is_none(u_anc(ctx.args["inner"].t, n)))
    return And(is_kind(ctx.exc.t, "TypeError"), Not(is_kind(lim, "frame")), Not(Val.is_intv(lim)), Not(Val.is_boolv(lim)), Not(Val.is_none(lim)))


UNTIL_UNIT = Unit("C04.extract_until", UNTIL, until_setup, post=[Clause("C04.extract_until.maps_to_StackSlice", until_post)],
                  bindings=dict(EXTRACT_BINDINGS, extract=contract_extract), methods=dict(STD_METHODS), ctors=dict(CTORS), known_classes=KNOWN,
                  invariants={(UNTIL, "while#1"): until_inv()}, before_stmt=until_before_stmt, allowed_raise=until_raise,
                  assumptions=["ghost fback_anc_u(x, n) is the n-th f_back ancestor (defining equations); a frame's f_back is None or a frame"])

# ------------------------------------------------------------------------------------------------ search through the other threads (C07)
# `if not frames and inner_frame is None: for ident, inner_frame in sys._current_frames().items(): ...` - when the outer frame is not on
# the calling thread's stack, the stacks of the OTHER threads are searched: the result is try_from(top frame) of the first thread in
# the snapshot's order that is not the calling thread and whose walk finds the outer frame; the calling thread's own entry is never
# walked; nothing happens when frames were found already or an inner frame was given.
try_from_result = Function("C04.try_from_result", Val, Val)       # callee contract of try_from (unit C04.try_from): a list, function of the start frame


def select_other_threads_block(fi):
    for n in ast.walk(fi.node):
        if isinstance(n, ast.If) and "sys._current_frames()" in ast.unparse(n) and "inner_frame is None" in ast.unparse(n.test):
            return [n]
    raise KeyError("contract anchor lost: other-threads search of unwrap_stackslice not found")


def ot_setup(ex, p):
    frames0 = sym_seq(p, "frames", "list")
    inner = sym_any(p, "inner_frame")
    p.pc.append(Or(Val.is_none(inner.t), is_kind(inner.t, "frame")))
    snap_items = sym_seq(p, "current_frames_items", "list")
    H0 = p.snap()
    n = H0.length(snap_items.t)
    p.pc.append(H0.lo_(snap_items.t) == 0)
    def pair(pth, j):
        e = H0.raw(snap_items.t, j)
        return Implies(And(j >= 0, j < n), And(is_exact_kind(e, "tuple"), H0.length(e) == 2, H0.lo_(e) == 0, Val.a(e) >= 0,
                                               Val.is_intv(H0.at(e, 0)), is_kind(H0.at(e, 1), "frame"), Val.a(H0.at(e, 1)) >= 0))
    p.add_schema(snap_items.t, pair)
    me = fresh_int("calling_thread_ident")
    def m_current_frames(ex_, p_, args, kw, node):
        return [("ok", p_, SV(fresh("frames_snapshot"), ty="framesnapshot"))]
    def m_items(ex_, p_, args, kw, node):
        return [("ok", p_, SV(snap_items.t, ty="list"))]
    def m_get_ident(ex_, p_, args, kw, node):
        return [("ok", p_, sv_int(me))]
    def m_try_from(ex_, p_, args, kw, node):
        r = try_from_result(args[0].t)
        p_.pc += [is_exact_kind(r, "list"), Val.is_ref(r), p_.length(r) >= 0]
        p_.ghost["walked"] = p_.ghost.get("walked", ()) + (args[0].t,)
        return [("ok", p_, SV(r, ty="list"))]
    ex.unit.bindings.update({"sys._current_frames": m_current_frames, "threading.get_ident": m_get_ident, "try_from": m_try_from})
    ex.unit.methods[("framesnapshot", "items")] = m_items
    p.env.update(frames=frames0, inner_frame=inner)
    ex.unit_args = dict(frames0=frames0, inner0=inner, items=snap_items, H0=H0, me=me)
    return ex.unit_args


def ot_no_match(a, H0, j):
    e = H0.at(a["items"].t, j)
    return Or(Val.i(H0.at(e, 0)) == a["me"], H0.length(try_from_result(H0.at(e, 1))) == 0)


def ot_inv():
    def none_before(ctx, pth, j):
        a = ctx.ex.unit_args
        pth.read(a["items"].t, j, a["H0"])
        return Implies(And(j >= 0, j < ctx.k), ot_no_match(a, a["H0"], j))
    def qf(ctx):
        return And(ctx.H.length(ctx.v("frames")) == 0, is_exact_kind(ctx.v("frames"), "list"))
    def ghost_havoc(ctx):
        ctx.p.ghost["walked"] = ()
    def step(ctx):
        # per iteration: the entry's frame is walked iff the entry belongs to ANOTHER thread - the calling thread's own entry never is
        a = ctx.ex.unit_args
        e = a["H0"].at(a["items"].t, ctx.k - 1)
        w = ctx.p.ghost.get("walked", ())
        if len(w) == 0:
            return Val.i(a["H0"].at(e, 0)) == a["me"]
        if len(w) == 1:
            return And(Val.i(a["H0"].at(e, 0)) != a["me"], w[0] == a["H0"].at(e, 1))
        return BoolVal(False)
    return Inv("C07.other_threads.first_foreign_match_scan", qf=qf, header="sys._current_frames().items()", ghost_havoc=ghost_havoc, var_types={"frames": "list"},
               steps=[("C07.other_threads.own_entry_never_walked", step)],
               foralls=[(lambda p_: p_.env["$items"].t, none_before)])


def ot_before_stmt(ex, n, p):
    if isinstance(n, ast.For):
        p.env["$items"] = ex.unit_args["items"]


def ot_post(ctx):
    a = ctx.ex.unit_args
    H0 = a["H0"]
    F = ctx.env["frames"].t
    k = ctx.p.ghost.get("exit_k:for#1")
    searched = And(H0.length(a["frames0"].t) == 0, Val.is_none(a["inner0"].t))
    if k is None:
        return And(Not(searched), F == a["frames0"].t, BoolVal(not ctx.p.ghost.get("walked")))
    n = H0.length(a["items"].t)
    jq = fresh_int("jq")
    ctx.p.read(a["items"].t, jq, H0)
    ctx.p.read(a["items"].t, k, H0)
    e = H0.at(a["items"].t, k)
    hit = And(k < n, Val.i(H0.at(e, 0)) != a["me"], F == try_from_result(H0.at(e, 1)), ctx.H.length(F) > 0)
    return And(searched, Implies(And(jq >= 0, jq < k), ot_no_match(a, H0, jq)), Or(hit, And(k == n, ctx.H.length(F) == 0)))


OTHER_THREADS_UNIT = Unit("C07.other_threads_search", US, ot_setup,
                          post=[Clause("C07.other_threads.first_foreign_thread_whose_walk_finds_the_outer_frame", ot_post)],
                          bindings=dict(EXTRACT_BINDINGS), methods=dict(STD_METHODS), known_classes=KNOWN, body_of=select_other_threads_block,
                          invariants={(US, "for#1"): ot_inv()}, before_stmt=ot_before_stmt, allowed_raise=lambda ctx: BoolVal(False),
                          assumptions=["sys._current_frames() is a snapshot mapping idents to top frames; its items() order is modelled as a list of pairs "
                                       "; threading.get_ident() is the calling "
                                       "thread's ident on every call; callee contract of try_from (unit C04.try_from): a list determined by its start frame",
                                       "extraction: only this one `if` statement of unwrap_stackslice is executed here; the race with running threads is the "
                                       "property's bounded part (c07_threads / c07_preempt)"])

UNITS = [TF_UNIT, GTC_UNIT, STITCH_UNIT, SLICE_UNIT, LIMIT_UNIT, SINCE_UNIT, UNTIL_UNIT, OTHER_THREADS_UNIT]
