"""pyvc.source — reads /repo's working tree on every run and extracts functions by qualified name.

Nothing is imported and nothing is re-typed: the AST of the real file is what gets executed symbolically.
What the extraction drops is stated in DESIGN.md section 2.2 (annotations are read, not executed; docstrings;
`if TYPE_CHECKING:` blocks; branches whose sys.version_info / sys.implementation test is false in the configuration).
"""
from __future__ import annotations
import ast
import hashlib
import os

REPO = os.environ.get("PYVC_REPO", "/repo")


class FuncInfo:
    def __init__(s, module, qualname, node, parent=None, cls=None):
        s.module, s.qualname, s.node, s.parent, s.cls = module, qualname, node, parent, cls
        s.loop_keys = {}
        w = f = 0
        # loop ordinals are assigned from the AST in source order (not execution order), nested defs excluded
        for n in _walk_own(node):
            if isinstance(n, ast.While):
                w += 1
                s.loop_keys[id(n)] = f"while#{w}"
            elif isinstance(n, (ast.For, ast.AsyncFor)):
                f += 1
                s.loop_keys[id(n)] = f"for#{f}"

    @property
    def name(s):
        return f"{s.module}.{s.qualname}"

    def source_hash(s):
        return hashlib.sha256(ast.dump(s.node).encode()).hexdigest()[:16]

    def is_generator(s):
        return any(isinstance(n, (ast.Yield, ast.YieldFrom)) for n in _walk_own(s.node))

    def __repr__(s):
        return f"<FuncInfo {s.name}>"


def _walk_own(fn):
    """walk a function body in SOURCE order (depth-first, pre-order) without descending into nested defs/classes"""
    def rec(n):
        yield n
        for c in ast.iter_child_nodes(n):
            if isinstance(c, (ast.FunctionDef, ast.AsyncFunctionDef, ast.ClassDef, ast.Lambda)):
                continue
            yield from rec(c)
    for st in fn.body:
        if isinstance(st, (ast.FunctionDef, ast.AsyncFunctionDef, ast.ClassDef)):
            continue
        yield from rec(st)


class Module:
    def __init__(s, name, path):
        s.name, s.path = name, path
        s.src = open(path, encoding="utf-8").read()
        s.tree = ast.parse(s.src)
        s.funcs = {}      # qualname -> FuncInfo (last definition wins: @overload stubs precede the real def)
        s.classes = {}    # qualname -> ClassDef
        s._index(s.tree.body, "", None, None)

    def _index(s, body, prefix, parent, cls):
        for n in body:
            if isinstance(n, (ast.FunctionDef, ast.AsyncFunctionDef)):
                q = prefix + n.name
                fi = FuncInfo(s.name, q, n, parent, cls)
                s.funcs[q] = fi
                s._index(n.body, q + ".", fi, None)
            elif isinstance(n, ast.ClassDef):
                q = prefix + n.name
                s.classes[q] = n
                s._index(n.body, q + ".", parent, n)
            elif isinstance(n, (ast.If, ast.Try, ast.With, ast.For, ast.While)):
                for fld in ("body", "orelse", "finalbody"):
                    s._index(getattr(n, fld, []) or [], prefix, parent, cls)
                for h in getattr(n, "handlers", []) or []:
                    s._index(h.body, prefix, parent, cls)


_MODS = {}


def load_module(name):
    """name like 'stackscope._extract'"""
    if name not in _MODS:
        path = os.path.join(REPO, *name.split(".")) + ".py"
        _MODS[name] = Module(name, path)
    return _MODS[name]


def get_func(qual):
    """'stackscope._extract.extract_iter' or 'stackscope._customization.customize.customize_it'"""
    parts = qual.split(".")
    for i in range(len(parts) - 1, 0, -1):
        modname = ".".join(parts[:i])
        path = os.path.join(REPO, *parts[:i]) + ".py"
        if os.path.exists(path):
            m = load_module(modname)
            q = ".".join(parts[i:])
            if q in m.funcs:
                return m.funcs[q]
            raise KeyError(f"contract anchor lost: function {q} not found in {path}")
    raise KeyError(f"contract anchor lost: no module for {qual}")


def get_class(qual):
    parts = qual.split(".")
    for i in range(len(parts) - 1, 0, -1):
        path = os.path.join(REPO, *parts[:i]) + ".py"
        if os.path.exists(path):
            m = load_module(".".join(parts[:i]))
            q = ".".join(parts[i:])
            if q in m.classes:
                return m.classes[q]
            raise KeyError(f"contract anchor lost: class {q} not found in {path}")
    raise KeyError(f"contract anchor lost: no module for {qual}")


def reset():
    _MODS.clear()


# ---------------------------------------------------------------------------------------------------------------
# partial evaluation of interpreter-version tests
def static_test(node, cfg):
    """Return True/False if `node` is a test decidable from the configuration, else None.
       cfg: dict(version=(3,12,1,'final',0), impl='cpython', type_checking=False)"""
    try:
        src = ast.unparse(node)
    except Exception:
        return None
    if "sys.version_info" in src or "sys.implementation.name" in src or "TYPE_CHECKING" in src:
        names = {n.id for n in ast.walk(node) if isinstance(n, ast.Name)}
        if names <= {"sys", "TYPE_CHECKING"}:
            class _Impl:
                name = cfg.get("impl", "cpython")

            class _Sys:
                version_info = tuple(cfg["version"])
                implementation = _Impl
                platform = "linux"
            try:
                return bool(eval(compile(ast.Expression(node), "<cfg>", "eval"),
                                 {"sys": _Sys, "TYPE_CHECKING": False, "__builtins__": {}}))
            except Exception:
                return None
    return None
