"""pyvc.source — reads /repo's working tree on every run and extracts functions by qualified name.

Nothing is imported and nothing is re-typed: the AST of the real file is what gets executed symbolically.
What the extraction drops is stated in DESIGN.md section 2.2 (annotations are read, not executed; docstrings;
`if TYPE_CHECKING:` blocks; branches whose sys.version_info / sys.implementation test is false in the configuration).
"""
from __future__ import annotations
import ast
import hashlib
import os

import json

REPO = os.environ.get("PYVC_REPO", "/repo")
HERE = os.path.dirname(os.path.dirname(os.path.abspath(__file__)))
LOCALS_LOCK_PATH = os.path.join(HERE, "locals.lock.json")
try:
    LOCALS_LOCK = json.load(open(LOCALS_LOCK_PATH))
except Exception:
    LOCALS_LOCK = {}
RENAMES = {}        # function -> {new local name: locked name} applied on this run (reported in evidence)


def own_locals(fn):
    """non-parameter names bound in fn's own scope, in order of first binding (source order)"""
    params = {a.arg for a in fn.args.posonlyargs + fn.args.args + fn.args.kwonlyargs}
    for a in (fn.args.vararg, fn.args.kwarg):
        if a is not None:
            params.add(a.arg)
    out, declared = [], set()
    def add(nm):
        if nm and nm not in params and nm not in out and nm not in declared:
            out.append(nm)
    def rec(n):
        if isinstance(n, (ast.Global, ast.Nonlocal)):
            declared.update(n.names)
        elif isinstance(n, ast.Name) and isinstance(n.ctx, (ast.Store, ast.Del)):
            add(n.id)
        elif isinstance(n, ast.ExceptHandler):
            add(n.name)
        elif isinstance(n, ast.alias):
            add((n.asname or n.name).split(".")[0])
        for c in ast.iter_child_nodes(n):
            if isinstance(c, (ast.FunctionDef, ast.AsyncFunctionDef, ast.ClassDef)):
                add(c.name)
                continue
            if isinstance(c, ast.Lambda):
                continue
            rec(c)
    for st in fn.body:
        if isinstance(st, (ast.FunctionDef, ast.AsyncFunctionDef, ast.ClassDef)):
            add(st.name)
            continue
        rec(st)
    return out


def loop_headers(fi):
    """loop key -> header text (`while <test>` / `for <target> in <iter>`) of fi's own loops"""
    out = {}
    for n in _walk_own(fi.node):
        k = fi.loop_keys.get(id(n))
        if k is not None:
            out[k] = ("while " + ast.unparse(n.test)) if isinstance(n, ast.While) else f"for {ast.unparse(n.target)} in {ast.unparse(n.iter)}"
    return out


def binding_kinds(fn):
    """how each own local is FIRST bound: 'for' (loop / comprehension-free for target), 'with', 'except', 'import', 'def', 'assign'"""
    kinds = {}
    def note(nm, k):
        if nm and nm not in kinds:
            kinds[nm] = k
    def targets(t, k):
        for n in ast.walk(t):
            if isinstance(n, ast.Name) and isinstance(n.ctx, (ast.Store, ast.Del)):
                note(n.id, k)
    def rec(n):
        if isinstance(n, (ast.For, ast.AsyncFor)):
            targets(n.target, "for")
        elif isinstance(n, (ast.With, ast.AsyncWith)):
            for it in n.items:
                if it.optional_vars is not None:
                    targets(it.optional_vars, "with")
        elif isinstance(n, ast.ExceptHandler):
            note(n.name, "except")
        elif isinstance(n, ast.alias):
            note((n.asname or n.name).split(".")[0], "import")
        elif isinstance(n, ast.Name) and isinstance(n.ctx, (ast.Store, ast.Del)):
            note(n.id, "assign")
        for ch in ast.iter_child_nodes(n):
            if isinstance(ch, (ast.FunctionDef, ast.AsyncFunctionDef, ast.ClassDef)):
                note(ch.name, "def")
                continue
            if isinstance(ch, ast.Lambda):
                continue
            rec(ch)
    for st in fn.body:
        rec(st)
    return kinds


def write_locals_lock():
    """record the local names and the loop headers of every function of the package (PYVC_WRITE_LOCK=1, unchanged tree)"""
    lock = {}
    pkg = os.path.join(REPO, "stackscope")
    for fnm in sorted(os.listdir(pkg)):
        if fnm.endswith(".py"):
            m = Module("stackscope." + fnm[:-3], os.path.join(pkg, fnm))
            for q, fi in m.funcs.items():
                lock[f"{m.name}.{q}"] = own_locals(fi.node)
                lock[f"loops:{m.name}.{q}"] = loop_headers(fi)
                lock[f"hash:{m.name}.{q}"] = fi.source_hash()
                lock[f"kinds:{m.name}.{q}"] = binding_kinds(fi.node)
    json.dump(lock, open(LOCALS_LOCK_PATH, "w"), indent=0, sort_keys=True)
    return len(lock)


def source_changed(fn):
    """True when the function's source text differs from what it was when the contracts were locked (None: not locked)"""
    locked = LOCALS_LOCK.get("hash:" + fn)
    if locked is None:
        return None
    try:
        return get_func(fn).source_hash() != locked
    except KeyError:
        return True


def changed_loops(func_loop_pairs):
    """which of the given (function, loop key) pairs have a header that differs from the locked one (after alpha-normalisation)"""
    out = []
    for fn, key in func_loop_pairs:
        locked = LOCALS_LOCK.get("loops:" + fn)
        if locked is None:
            continue
        try:
            cur = loop_headers(get_func(fn))
        except KeyError:
            continue
        if cur.get(key) != locked.get(key):
            out.append(f"{fn}:{key} was `{locked.get(key)}`, is `{cur.get(key)}`")
    return out


def _binds_any(fn, names):
    """does a nested def/lambda/class inside fn (not fn itself) bind one of `names`?"""
    for n in ast.walk(fn):
        if n is fn:
            continue
        if isinstance(n, (ast.FunctionDef, ast.AsyncFunctionDef, ast.Lambda)):
            a = n.args
            ps = {x.arg for x in a.posonlyargs + a.args + a.kwonlyargs} | {x.arg for x in (a.vararg, a.kwarg) if x is not None}
            if ps & names:
                return True
            if not isinstance(n, ast.Lambda) and set(own_locals(n)) & names:
                return True
    return False


def alpha_normalise(name, fn):
    """If the only difference between fn's local names and the locked ones is a renaming (some names vanished, equally many
    new ones appeared), rename the new ones back (paired in order of first binding) so that sidecar contracts, which name
    locals, keep applying.  Purely syntactic, capture-checked; a bijective renaming of locals preserves behaviour."""
    old = LOCALS_LOCK.get(name)
    if not old or os.environ.get("PYVC_WRITE_LOCK"):
        return
    cur = own_locals(fn)
    new_names = [c for c in cur if c not in old]
    gone = [o for o in old if o not in cur]
    if not new_names or not gone:
        return
    if len(new_names) == len(gone):
        mapping = dict(zip(new_names, gone))
    else:
        # a renaming PLUS new helper locals (or dropped ones): pair the vanished names with the new ones that are first bound
        # the same way (loop target with loop target, ...), in order - only when that is unambiguous for every vanished name
        old_kinds = LOCALS_LOCK.get("kinds:" + name)
        if not old_kinds:
            return
        cur_kinds = binding_kinds(fn)
        mapping = {}
        for k in set(old_kinds.get(g) for g in gone):
            g_k = [g for g in gone if old_kinds.get(g) == k]
            n_k = [n_ for n_ in new_names if cur_kinds.get(n_) == k]
            if k is None or len(g_k) != len(n_k):
                return
            mapping.update(zip(n_k, g_k))
    used = {n.id for n in ast.walk(fn) if isinstance(n, ast.Name)} | {a.arg for a in ast.walk(fn) if isinstance(a, ast.arg)}
    if set(gone) & used or _binds_any(fn, set(mapping) | set(gone)):
        return          # would capture another variable: leave the code alone (contracts will report a lost anchor)
    for n in ast.walk(fn):
        if isinstance(n, ast.Name) and n.id in mapping:
            n.id = mapping[n.id]
        elif isinstance(n, ast.ExceptHandler) and n.name in mapping:
            n.name = mapping[n.name]
        elif isinstance(n, ast.alias) and (n.asname or n.name) in mapping:
            n.asname = mapping[n.asname or n.name]
        elif isinstance(n, (ast.Global, ast.Nonlocal)):
            n.names = [mapping.get(x, x) for x in n.names]
        elif isinstance(n, (ast.FunctionDef, ast.AsyncFunctionDef, ast.ClassDef)) and n is not fn and n.name in mapping:
            n.name = mapping[n.name]
    RENAMES[name] = mapping


class FuncInfo:
    def __init__(s, module, qualname, node, parent=None, cls=None):
        s.module, s.qualname, s.node, s.parent, s.cls = module, qualname, node, parent, cls
        s.loop_keys = {}
        w = f = 0
        # loop ordinals are assigned from the AST in source order (not execution order), nested defs excluded
        for n in _walk_own(node):
            if isinstance(n, ast.While):
                w += 1
                s.loop_keys[id(n)] = f"while#{w}"
            elif isinstance(n, (ast.For, ast.AsyncFor)):
                f += 1
                s.loop_keys[id(n)] = f"for#{f}"

    @property
    def name(s):
        return f"{s.module}.{s.qualname}"

    def source_hash(s):
        return hashlib.sha256(ast.dump(s.node).encode()).hexdigest()[:16]

    def is_generator(s):
        return any(isinstance(n, (ast.Yield, ast.YieldFrom)) for n in _walk_own(s.node))

    def __repr__(s):
        return f"<FuncInfo {s.name}>"


def _walk_own(fn):
    """walk a function body in SOURCE order (depth-first, pre-order) without descending into nested defs/classes"""
    def rec(n):
        yield n
        for c in ast.iter_child_nodes(n):
            if isinstance(c, (ast.FunctionDef, ast.AsyncFunctionDef, ast.ClassDef, ast.Lambda)):
                continue
            yield from rec(c)
    for st in fn.body:
        if isinstance(st, (ast.FunctionDef, ast.AsyncFunctionDef, ast.ClassDef)):
            continue
        yield from rec(st)


class Module:
    def __init__(s, name, path):
        s.name, s.path = name, path
        s.src = open(path, encoding="utf-8").read()
        s.tree = ast.parse(s.src)
        s.funcs = {}      # qualname -> FuncInfo (last definition wins: @overload stubs precede the real def)
        s.classes = {}    # qualname -> ClassDef
        s._index(s.tree.body, "", None, None)

    def _index(s, body, prefix, parent, cls):
        for n in body:
            if isinstance(n, (ast.FunctionDef, ast.AsyncFunctionDef)):
                q = prefix + n.name
                alpha_normalise(f"{s.name}.{q}", n)
                fi = FuncInfo(s.name, q, n, parent, cls)
                s.funcs[q] = fi
                s._index(n.body, q + ".", fi, None)
            elif isinstance(n, ast.ClassDef):
                q = prefix + n.name
                s.classes[q] = n
                s._index(n.body, q + ".", parent, n)
            elif isinstance(n, (ast.If, ast.Try, ast.With, ast.For, ast.While)):
                for fld in ("body", "orelse", "finalbody"):
                    s._index(getattr(n, fld, []) or [], prefix, parent, cls)
                for h in getattr(n, "handlers", []) or []:
                    s._index(h.body, prefix, parent, cls)


_MODS = {}


def load_module(name):
    """name like 'stackscope._extract'"""
    if name not in _MODS:
        path = os.path.join(REPO, *name.split(".")) + ".py"
        _MODS[name] = Module(name, path)
    return _MODS[name]


def get_func(qual):
    """'stackscope._extract.extract_iter' or 'stackscope._customization.customize.customize_it'"""
    parts = qual.split(".")
    for i in range(len(parts) - 1, 0, -1):
        modname = ".".join(parts[:i])
        path = os.path.join(REPO, *parts[:i]) + ".py"
        if os.path.exists(path):
            m = load_module(modname)
            q = ".".join(parts[i:])
            if q in m.funcs:
                return m.funcs[q]
            raise KeyError(f"contract anchor lost: function {q} not found in {path}")
    raise KeyError(f"contract anchor lost: no module for {qual}")


def get_class(qual):
    parts = qual.split(".")
    for i in range(len(parts) - 1, 0, -1):
        path = os.path.join(REPO, *parts[:i]) + ".py"
        if os.path.exists(path):
            m = load_module(".".join(parts[:i]))
            q = ".".join(parts[i:])
            if q in m.classes:
                return m.classes[q]
            raise KeyError(f"contract anchor lost: class {q} not found in {path}")
    raise KeyError(f"contract anchor lost: no module for {qual}")


def reset():
    _MODS.clear()


# ---------------------------------------------------------------------------------------------------------------
# partial evaluation of interpreter-version tests
def static_test(node, cfg):
    """Return True/False if `node` is a test decidable from the configuration, else None.
       cfg: dict(version=(3,12,1,'final',0), impl='cpython', type_checking=False)"""
    try:
        src = ast.unparse(node)
    except Exception:
        return None
    if "sys.version_info" in src or "sys.implementation.name" in src or "TYPE_CHECKING" in src:
        names = {n.id for n in ast.walk(node) if isinstance(n, ast.Name)}
        if names <= {"sys", "TYPE_CHECKING"}:
            class _Impl:
                name = cfg.get("impl", "cpython")

            class _Sys:
                version_info = tuple(cfg["version"])
                implementation = _Impl
                platform = "linux"
            try:
                return bool(eval(compile(ast.Expression(node), "<cfg>", "eval"),
                                 {"sys": _Sys, "TYPE_CHECKING": False, "__builtins__": {}}))
            except Exception:
                return None
    return None
