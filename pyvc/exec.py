"""pyvc.exec — path-forking symbolic executor over the real ASTs of /repo (expressions part + infrastructure).

Results of expression evaluation are lists of (status, path, SV) with status 'ok' or 'raise' (value = exception).
"""
from __future__ import annotations
import ast
import z3
from z3 import And, Or, Not, Implies, If, IntVal, BoolVal, Select, Store, StringVal, Concat, Length, PrefixOf
from .values import *  # noqa
from .state import Path, SV, Heap, STATS
from .obligations import Obligation, discharge
from . import source


def sys_stdout_flush():
    import sys
    sys.stdout.flush()
    sys.stderr.flush()


class Unsupported(Exception):
    pass


class Out:
    __slots__ = ("kind", "path", "value")

    def __init__(s, kind, path, value=None):
        s.kind, s.path, s.value = kind, path, value


NONE_SV = SV(NONE)
str_startswith = z3.Function("str_startswith", Val, Val, z3.BoolSort())   # prefix test on opaque strings
str_contains = z3.Function("str_contains", Val, Val, z3.BoolSort())       # substring test on opaque strings


def sv_int(x):
    return SV(mkint(x), ty="int")


def sv_bool(x):
    return SV(mkbool(x), ty="bool")


def num(v):
    return If(Val.is_boolv(v), If(Val.b(v), 1, 0), Val.i(v))


def is_num(v):
    return Or(Val.is_boolv(v), Val.is_intv(v))


class ExecBase:
    def __init__(s, unit):
        s.unit = unit
        s.cfg = unit.cfg
        s.obls = []
        s.func_stack = []        # FuncInfo stack (inlining)
        s.par_k = 0
        s.par_depth = unit.options.get("par_depth", 14)
        s.sem = None
        s.is_child = False
        s.root_bits = None
        s.kids = []
        s.obls_base = 0
        s.worker = 0
        s.axioms = list(unit.axioms)
        s.precise_strings = unit.options.get("strings", False)

    # ------------------------------------------------------------------ obligations
    def oblig(s, name, cls, path, goal, axioms=None, quiet=False):
        if not s.owns(path):
            return "SKIPPED"
        if z3.is_true(goal):
            verdict, ms, backend, model, smt2 = "PROVED", 0.0, "syntactic", None, None
        else:
            verdict, ms, backend, model, smt2 = discharge(path.pc, goal, axioms if axioms is not None else ())
            if verdict != "PROVED" and axioms is None and s.axioms:
                verdict, ms2, backend, model, smt2 = discharge(path.pc, goal, s.axioms)
                ms += ms2
        ob = Obligation(name, cls, verdict, ms, backend, model, list(path.notes),
                        s.func_stack[-1].name if s.func_stack else None, smt2)
        if verdict != "PROVED" and model is not None:
            ob.model = s.render_model(model, path)
        s.obls.append(ob)
        if s.unit.options.get("verbose") and not quiet:
            print(f"    [{verdict} {ms:.0f}ms] {name}", flush=True)
        return verdict

    def render_model(s, model, path):
        out = {}
        try:
            for n, v in path.env.items():
                if isinstance(v, SV):
                    out[n] = str(model.eval(v.t, model_completion=False))
            for n, fn in s.unit.model_views.items():
                try:
                    out[n] = str(fn(model, path))
                except Exception as e:  # pragma: no cover
                    out[n] = f"<view failed: {e}>"
        except Exception as e:  # pragma: no cover
            out["<render error>"] = str(e)
        return out

    # ------------------------------------------------------------------ forking
    def fork(s, path, cond):
        cond = z3.simplify(cond) if z3.is_expr(cond) else BoolVal(bool(cond))
        if z3.is_true(cond):
            return path, None
        if z3.is_false(cond):
            return None, path
        res = []
        for c in (cond, Not(cond)):
            p = path.clone()
            p.pc.append(c)
            res.append(p if p.feasible() else None)
        if s.par_k and path.par_on and res[0] is not None and res[1] is not None and s.active(path):
            res[0].bits = path.bits + (0,)
            res[1].bits = path.bits + (1,)
            if len(path.bits) < s.par_depth and s.sem is not None and s.sem.acquire(False):
                # dynamic work sharing: hand the subtree of the TRUE branch to a forked process, keep the FALSE branch here
                import os
                sys_stdout_flush()
                pid = os.fork()
                if pid == 0:
                    s.is_child = True
                    s.root_bits = res[0].lineage
                    s.kids = []
                    s.obls_base = len(s.obls)
                    res[1] = None
                else:
                    s.kids.append(pid)
                    res[0] = None
        return res

    def active(s, path):
        """in a forked explorer only the paths of its own subtree are alive; everything else belongs to another process"""
        rb = s.root_bits
        return rb is None or path.lineage[:len(rb)] == rb

    def owns(s, path):
        return s.active(path)

    def raise_new(s, path, kindname, site="", **fields):
        e = path.new_obj(kindname, **fields)
        path.note(f"raise {kindname} @ {site}")
        return ("raise", path, SV(e, ty=kindname, site=site))

    # ------------------------------------------------------------------ helpers
    def truthy(s, p, sv):
        v = sv.t
        ty = sv.get("ty")
        if ty == "bool":
            return Val.b(v)
        if ty == "int":
            return Val.i(v) != 0
        if sv.get("special") is not None or sv.get("fn") is not None or sv.get("cls") is not None or sv.get("model"):
            return BoolVal(True)
        strt = Length(strval(Val.a(v))) != 0 if s.precise_strings else truthy_ref(Val.a(v))
        return If(Val.is_none(v), False, If(Val.is_boolv(v), Val.b(v), If(Val.is_intv(v), Val.i(v) != 0,
               If(is_kind(v, list(CONTAINER_KINDS)), p.length(v) != 0,
                  If(is_exact_kind(v, "dict"), p.dlen(v) != 0,
                     If(is_exact_kind(v, "str"), strt, truthy_ref(Val.a(v))))))))

    def const(s, p, value):
        if value is None:
            return NONE_SV
        if isinstance(value, bool):
            return sv_bool(value)
        if isinstance(value, int):
            return sv_int(value)
        if isinstance(value, str):
            key = ("str", value)
            if key not in p.consts:
                a = IntVal(10_000_000 + len(p.consts))     # interned constants live at fixed non-negative addresses
                p.consts[key] = SV(Val.ref(a), ty="str", pyconst=value)
            sv = p.consts[key]
            fact = And(kind(Val.a(sv.t)) == K("str"), strval(Val.a(sv.t)) == StringVal(value)) if s.precise_strings \
                else kind(Val.a(sv.t)) == K("str")
            if not any(fact.eq(x) for x in p.pc[-50:]) and ("c", key) not in p.done:
                p.done.add(("c", key))
                p.pc.append(fact)
            return sv
        if isinstance(value, tuple) and len(value) == 0:
            return s.make_tuple(p, [])
        if value is Ellipsis:
            return SV(fresh("ellipsis"))
        raise Unsupported(f"constant {value!r}")

    def make_tuple(s, p, svs, kindname="tuple"):
        t = p.new_seq(kindname, [x.t for x in svs])
        return SV(t, ty=kindname, tup=list(svs) if kindname == "tuple" else None)

    def new_str(s, p, content=None):
        v = p.new_obj("str")
        if content is not None and s.precise_strings:
            p.pc.append(strval(Val.a(v)) == content)
        return SV(v, ty="str")

    def to_string(s, p, sv):
        """z3 String for str()/format() of a value"""
        if sv.get("pyconst") is not None and isinstance(sv.get("pyconst"), str):
            return StringVal(sv.get("pyconst"))
        if sv.get("ty") == "str":
            return strval(Val.a(sv.t))
        return If(is_exact_kind(sv.t, "str"), strval(Val.a(sv.t)), repr_of(sv.t))

    def eq(s, p, a, b):
        """python == as a z3 Bool"""
        for x, y in ((a, b), (b, a)):
            tup = x.get("tup")
            if tup is not None:
                if y.get("tup") is not None and len(y.get("tup")) != len(tup):
                    return BoolVal(False)
                conj = [is_exact_kind(y.t, "tuple"), p.length(y.t) == len(tup)]
                for i, e in enumerate(tup):
                    conj.append(s.eq(p, e, SV(p.elem(y.t, i))))
                return And(conj)
        av, bv = a.t, b.t
        both_str = And(is_exact_kind(av, "str"), is_exact_kind(bv, "str"))
        streq = strval(Val.a(av)) == strval(Val.a(bv)) if s.precise_strings else \
            Or(av == bv, py_eq(av, bv))
        if isinstance(a.get("pyconst"), str) and isinstance(b.get("pyconst"), str):
            return BoolVal(a.get("pyconst") == b.get("pyconst"))
        return If(And(is_num(av), is_num(bv)), num(av) == num(bv),
                  If(Or(Val.is_none(av), Val.is_none(bv)), av == bv,
                     If(av == bv, True, If(both_str, streq, py_eq(av, bv)))))

    def resolve_class_names(s, p, node_or_sv):
        """class argument of isinstance / except: resolved syntactically, through local tuples of classes"""
        if isinstance(node_or_sv, SV):
            sv = node_or_sv
            if sv.get("cls"):
                return [sv.get("cls")]
            if sv.get("tup") is not None:
                out = []
                for e in sv.get("tup"):
                    out += s.resolve_class_names(p, e)
                return out
            raise Unsupported(f"class argument not statically known: {sv}")
        node = node_or_sv
        if isinstance(node, ast.Tuple):
            out = []
            for e in node.elts:
                out += s.resolve_class_names(p, e)
            return out
        if isinstance(node, ast.Name) and node.id in p.env:
            return s.resolve_class_names(p, p.env[node.id])
        src = ast.unparse(node)
        b = s.unit.bindings.get(src)
        if isinstance(b, SV) and (b.get("cls") or b.get("tup") is not None):
            return s.resolve_class_names(p, b)
        if src in CLASS_ALIASES:
            return [CLASS_ALIASES[src]]
        last = src.split(".")[-1]
        if src in ("int", "bool", "object"):
            return [src]                  # value-sort classes, handled by isinstance_term (bool is a subclass of int)
        if last in CLASS_PARENT or last in VIRTUAL:
            return [last]
        if last in CLASS_ALIASES:
            return [CLASS_ALIASES[last]]
        if last in s.unit.known_classes:
            return [last]
        if isinstance(node, ast.Name) and s.func_stack:
            # a tuple of classes hoisted to a module constant (see module_constant): resolve its defining expression syntactically
            mod = source.load_module(s.func_stack[-1].module)
            defs = [st for st in mod.tree.body if isinstance(st, ast.Assign) and len(st.targets) == 1 and isinstance(st.targets[0], ast.Name)
                    and st.targets[0].id == node.id]
            if len(defs) == 1 and isinstance(defs[0].value, ast.Tuple) and \
                    not any(isinstance(n_, (ast.Global, ast.Nonlocal)) and node.id in n_.names for n_ in ast.walk(mod.tree)):
                return s.resolve_class_names(p, defs[0].value)
        raise Unsupported(f"unknown class {src}")

    def isinstance_term(s, v, names):
        disj = []
        rest = []
        for n in names:
            if n == "int":
                disj += [Val.is_intv(v), Val.is_boolv(v)]
            elif n == "bool":
                disj.append(Val.is_boolv(v))
            elif n in ("NoneType",):
                disj.append(Val.is_none(v))
            elif n == "object":
                return BoolVal(True)
            else:
                rest.append(n)
        if rest:
            disj.append(is_kind(v, rest))
        return Or(disj) if disj else BoolVal(False)

    # ------------------------------------------------------------------ expression evaluation
    def ev(s, n, p):
        if s.root_bits is not None and not s.active(p):
            return []
        m = getattr(s, "e_" + type(n).__name__, None)
        if m is None:
            raise Unsupported(f"expression {type(n).__name__} @ line {getattr(n, 'lineno', '?')}")
        return m(n, p)

    def seq(s, nodes, p, k):
        """evaluate nodes left-to-right, then k(path, values) -> list of results"""
        def go(i, path, acc):
            if i == len(nodes):
                return k(path, acc)
            res = []
            for st, p1, v in s.ev(nodes[i], path):
                if st != "ok":
                    res.append((st, p1, v))
                    continue
                res += go(i + 1, p1, acc + [v])
            return res
        return go(0, p, [])

    def e_Constant(s, n, p):
        return [("ok", p, s.const(p, n.value))]

    def e_Name(s, n, p):
        return [("ok", p, s.lookup(n.id, p, n))]

    def lookup(s, name, p, node=None):
        if name in p.env:
            return p.env[name]
        if name in p.ghost.get("$globals", ()) and s.unit.bindings.get("$module") is not None:
            # a module global declared `global` in this function: one cell shared by all threads.  The unit may model
            # reads as volatile (option global_read: fn(ex, path, name) may havoc the cell before the read)
            hook = s.unit.options.get("global_read")
            if hook is not None:
                hook(s, p, name)
            return SV(p.getf(s.unit.bindings["$module"].t, name))
        b = s.unit.bindings.get(name)
        if b is not None:
            return b if isinstance(b, SV) else SV(fresh("model"), model=b, name=name)
        if s.func_stack:
            mod = source.load_module(s.func_stack[-1].module)
            # a def of an enclosing function (a sibling or outer helper of a nested function), innermost scope first
            q = s.func_stack[-1].qualname.split(".")
            for i in range(len(q) - 1, 0, -1):
                cand = ".".join(q[:i] + [name])
                if cand in mod.funcs and not mod.funcs[cand].node.decorator_list:
                    return SV(fresh("fn_" + name), fn=mod.funcs[cand], name=name, closure={})
            if name in mod.funcs:
                return SV(fresh("fn_" + name), fn=mod.funcs[name], name=name)
        if name in BUILTIN_NAMES:
            return SV(fresh("bi_" + name), builtin=name, **({"cls": name} if name in CLASS_PARENT else {}))
        if name in CLASS_PARENT or name in s.unit.known_classes:
            return SV(fresh("cls_" + name), cls=name)
        if s.func_stack:
            c = s.module_constant(name, p)
            if c is not None:
                return c
        raise Unsupported(f"unbound name {name} @ line {getattr(node, 'lineno', '?')}")

    def module_constant(s, name, p):
        """a module-level NAME = <literal / tuple / frozenset of literals, names and dotted names> assigned exactly once at top level and
           never declared global anywhere: its defining expression is evaluated in place (hoisting a literal to a module constant is a
           common harmless edit).  Assumes nobody rebinds module constants at run time."""
        mod = source.load_module(s.func_stack[-1].module)
        defs = [st for st in mod.tree.body if (isinstance(st, ast.Assign) and len(st.targets) == 1 and isinstance(st.targets[0], ast.Name)
                                               and st.targets[0].id == name)
                or (isinstance(st, ast.AnnAssign) and isinstance(st.target, ast.Name) and st.target.id == name and st.value is not None)]
        if len(defs) != 1:
            return None
        if any(isinstance(n_, (ast.Global, ast.Nonlocal)) and name in n_.names for n_ in ast.walk(mod.tree)):
            return None
        val = defs[0].value
        def pure(e):
            if isinstance(e, ast.Constant):
                return True
            if isinstance(e, (ast.Tuple, ast.List, ast.Set)):
                return all(pure(x) for x in e.elts)
            if isinstance(e, ast.Attribute):
                return pure(e.value) if not isinstance(e.value, ast.Name) else True
            if isinstance(e, ast.Name):
                return e.id != name
            if isinstance(e, ast.Call) and isinstance(e.func, ast.Name) and e.func.id in ("frozenset", "tuple") and len(e.args) == 1 and not e.keywords:
                return pure(e.args[0])
            return False
        if not pure(val):
            return None
        if isinstance(val, ast.Call):
            val = val.args[0]              # frozenset((...)) / tuple([...]) of literals: membership and iteration as for the literal
            if isinstance(val, (ast.List, ast.Set)):
                val = ast.Tuple(elts=val.elts, ctx=ast.Load())
        if isinstance(val, (ast.List, ast.Set)) :
            return None                    # a mutable module-level container is state, not a constant
        outs = s.ev(val, p)
        if len(outs) != 1 or outs[0][0] != "ok":
            return None
        return outs[0][2]

    def e_JoinedStr(s, n, p):
        if not s.precise_strings:
            # evaluate the interpolated expressions for their effects (none are expected) and return an opaque str
            vals = [v.value for v in n.values if isinstance(v, ast.FormattedValue)]
            return s.seq(vals, p, lambda p1, vs: [("ok", p1, s.new_str(p1))])
        parts = list(n.values)            # FormattedValue nodes go through e_FormattedValue (conversion !r)
        def k(p1, vs):
            strs = [s.to_string(p1, v) for v in vs]
            content = strs[0] if len(strs) == 1 else (Concat(*strs) if strs else StringVal(""))
            return [("ok", p1, s.new_str(p1, content))]
        return s.seq(parts, p, k)

    def e_FormattedValue(s, n, p):
        if n.conversion == ord("r") and s.precise_strings:
            # {x!r}: the repr of x, also when x is itself a str (opaque: repr_of)
            return s.seq([n.value], p, lambda p1, vs: [("ok", p1, s.new_str(p1, repr_of(vs[0].t)))])
        return s.ev(n.value, p)

    def e_Tuple(s, n, p):
        return s._seq_literal(n, p, "tuple")

    def e_List(s, n, p):
        return s._seq_literal(n, p, "list")

    def _seq_literal(s, n, p, kindname):
        nodes = [e.value if isinstance(e, ast.Starred) else e for e in n.elts]
        def k(p1, vs):
            elems = []
            segs = []        # list of ('elems', [SV]) / ('seq', SV) when a starred operand has unknown arity
            for node, v in zip(n.elts, vs):
                if isinstance(node, ast.Starred):
                    tup = v.get("tup")
                    if tup is not None:
                        elems += tup
                        continue
                    ar = s.unit.star_arity.get(ast.unparse(node.value))
                    if ar is None:
                        if elems:
                            segs.append(("elems", elems))
                            elems = []
                        segs.append(("seq", v))
                        continue
                    s.oblig(f"safe.star_arity[{ast.unparse(node.value)}]", "site", p1, p1.length(v.t) == ar)
                    p1.pc.append(p1.length(v.t) == ar)
                    elems += [SV(p1.elem(v.t, i)) for i in range(ar)]
                else:
                    elems.append(v)
            if not segs:
                return [("ok", p1, s.make_tuple(p1, elems, kindname))]
            if elems:
                segs.append(("elems", elems))
            acc = None
            for kind_, x in segs:
                part = s.make_tuple(p1, x, kindname) if kind_ == "elems" else SV(x.t, ty=kindname)
                acc = part if acc is None else s.concat_seq(p1, acc, part)
            return [("ok", p1, SV(acc.t, ty=kindname))]
        return s.seq(nodes, p, k)

    def e_Set(s, n, p):
        return s.seq(list(n.elts), p, lambda p1, vs: [("ok", p1, SV(fresh("setlit"), special=("setlit", list(vs))))])

    def e_Dict(s, n, p):
        if any(k is None for k in n.keys):
            raise Unsupported("dict unpacking in literal")
        def k(p1, vs):
            d = p1.new_dict()
            half = len(n.keys)
            static = {}
            for kk, vv in zip(vs[:half], vs[half:]):
                p1.dset(d, kk.t, vv.t)
                if isinstance(kk.get("pyconst"), str):
                    static[kk.get("pyconst")] = vv
            return [("ok", p1, SV(d, ty="dict", static_dict=static))]
        return s.seq(list(n.keys) + list(n.values), p, k)

    def e_BoolOp(s, n, p):
        def go(i, path):
            res = []
            stc = source.static_test(n.values[i], s.cfg)
            if stc is not None:         # interpreter-version operand decided by the configuration
                if i == len(n.values) - 1 or stc != isinstance(n.op, ast.And):
                    return [("ok", path, sv_bool(z3.BoolVal(stc)))]
                return go(i + 1, path)
            for st, p1, v in s.ev(n.values[i], path):
                if st != "ok" or i == len(n.values) - 1:
                    res.append((st, p1, v))
                    continue
                t, f = s.fork(p1, s.truthy(p1, v))
                cont, stop = (t, f) if isinstance(n.op, ast.And) else (f, t)
                if stop is not None:
                    res.append(("ok", stop, v))
                if cont is not None:
                    res += go(i + 1, cont)
            return res
        return go(0, p)

    def e_UnaryOp(s, n, p):
        if isinstance(n.op, ast.USub):
            return s.seq([n.operand], p, lambda p1, vs: [("ok", p1, sv_int(-Val.i(vs[0].t)))])
        if isinstance(n.op, ast.Not):
            return s.seq([n.operand], p, lambda p1, vs: [("ok", p1, sv_bool(Not(s.truthy(p1, vs[0]))))])
        raise Unsupported(f"unary {type(n.op).__name__}")

    def e_IfExp(s, n, p):
        st = source.static_test(n.test, s.cfg)      # interpreter-version tests are decided by the configuration
        if st is not None:
            return s.ev(n.body if st else n.orelse, p)
        res = []
        for st, p1, c in s.ev(n.test, p):
            if st != "ok":
                res.append((st, p1, c))
                continue
            t, f = s.fork(p1, s.truthy(p1, c))
            if t is not None:
                res += s.ev(n.body, t)
            if f is not None:
                res += s.ev(n.orelse, f)
        return res

    def _pure_ifexp(s, n, p):
        """`a if c else b` as ONE value If(c, a, b) when the test and both arms are single-outcome and write nothing (used for
        comprehension elements, which may not fork): facts learned in an arm are kept under that arm's condition.
        Returns ("ok", path, SV) or None when the expression does not qualify."""
        if source.static_test(n.test, s.cfg) is not None:
            return None
        rt = s.ev(n.test, p.clone())
        if len(rt) != 1 or rt[0][0] != "ok":
            return None
        q = rt[0][1]
        c = z3.simplify(s.truthy(q, rt[0][2]))
        arms = []
        for node, cnd in ((n.body, c), (n.orelse, Not(c))):
            a = q.clone()
            a.pc.append(cnd)
            ra = s.ev(node, a)
            if len(ra) != 1 or ra[0][0] != "ok":
                return None
            a2 = ra[0][1]
            same_heap = all(getattr(a2.h, comp).eq(getattr(q.h, comp)) for comp in ("lo", "hi", "el", "dk", "dv", "dn")) and \
                a2.h.alloc.eq(q.h.alloc) and all(a2.h.fields[f].eq(q.h.field(f)) for f in a2.h.fields)
            if not same_heap:
                return None
            arms.append((cnd, ra[0][2], a2.pc[len(q.pc) + 1:]))
        for cnd, _, facts in arms:
            q.pc += [Implies(cnd, f) for f in facts]
        (_, va, _), (_, vb, _) = arms
        st = {"ty": va.get("ty")} if va.get("ty") is not None and va.get("ty") == vb.get("ty") else {}
        return ("ok", q, SV(If(c, va.t, vb.t), **st))

    def e_NamedExpr(s, n, p):
        def k(p1, vs):
            p1.env[n.target.id] = vs[0]
            return [("ok", p1, vs[0])]
        return s.seq([n.value], p, k)

    def e_Compare(s, n, p):
        # chained comparisons: a op b op c  ==  (a op b) and (b op c), middle operands evaluated once
        def k(p1, vs):
            conj = []
            for i, op in enumerate(n.ops):
                conj.append(s.compare(p1, op, vs[i], vs[i + 1], n))
            return [("ok", p1, sv_bool(And(conj) if len(conj) > 1 else conj[0]))]
        return s.seq([n.left] + list(n.comparators), p, k)

    def compare(s, p, op, a, b, node):
        if isinstance(op, ast.Is):
            return a.t == b.t
        if isinstance(op, ast.IsNot):
            return a.t != b.t
        if isinstance(op, ast.Eq):
            return s.eq(p, a, b)
        if isinstance(op, ast.NotEq):
            return Not(s.eq(p, a, b))
        if isinstance(op, ast.GtE) and a.get("special") and a.get("special")[0] == "set" and \
                b.get("special") and b.get("special")[0] == "setlit":
            # set(seq) >= {c1, c2, ...}: every constant is a member of the sequence
            from .calls import seq_member
            return And([seq_member(a.get("special")[1].t, c.t) for c in b.get("special")[1]])
        if isinstance(op, (ast.Lt, ast.LtE, ast.Gt, ast.GtE)):
            x, y = num(a.t), num(b.t)
            return {ast.Lt: x < y, ast.LtE: x <= y, ast.Gt: x > y, ast.GtE: x >= y}[type(op)]
        if isinstance(op, (ast.In, ast.NotIn)):
            r = s.contains(p, b, a, node)
            return r if isinstance(op, ast.In) else Not(r)
        raise Unsupported(f"comparison {type(op).__name__}")

    def contains(s, p, container, item, node):
        m = s.unit.methods.get((container.get("ty"), "__contains__"))
        if m is not None:
            return m(s, p, container, item)
        tup = container.get("tup")
        if tup is not None:
            return Or([s.eq(p, item, e) for e in tup]) if tup else BoolVal(False)
        if container.get("ty") == "dict":
            return p.dhas(container.t, item.t)
        if container.get("ty") == "str":
            from z3 import Contains
            if s.precise_strings:
                return Contains(s.to_string(p, container), s.to_string(p, item))
            return str_contains(container.t, item.t)
        raise Unsupported(f"`in` on {container} @ line {getattr(node, 'lineno', '?')}")

    def e_BinOp(s, n, p):
        def k(p1, vs):
            a, b = vs
            op = type(n.op)
            hook = s.unit.methods.get((a.get("ty"), "__binop__"))
            if hook is not None:
                return hook(s, p1, [a, b], {"op": op.__name__}, n)
            if op is ast.Add:
                if a.get("ty") == "str" or b.get("ty") == "str":
                    content = Concat(s.to_string(p1, a), s.to_string(p1, b)) if s.precise_strings else None
                    return [("ok", p1, s.new_str(p1, content))]
                if a.get("ty") in ("list", "tuple") and b.get("ty") in ("list", "tuple"):
                    return [("ok", p1, s.concat_seq(p1, a, b))]
                return [("ok", p1, sv_int(Val.i(a.t) + Val.i(b.t)))]
            x, y = Val.i(a.t), Val.i(b.t)
            if op is ast.Sub:
                return [("ok", p1, sv_int(x - y))]
            if op is ast.Mult:
                return [("ok", p1, sv_int(x * y))]
            if op is ast.FloorDiv:
                return [("ok", p1, sv_int(x / y))]      # z3 Int division with positive divisor == floor division
            if op is ast.Mod:
                return [("ok", p1, sv_int(x % y))]
            cy = z3.simplify(y)
            if op is ast.LShift and z3.is_int_value(cy):
                return [("ok", p1, sv_int(x * (2 ** cy.as_long())))]
            if op is ast.RShift and z3.is_int_value(cy):
                return [("ok", p1, sv_int(x / (2 ** cy.as_long())))]
            if op is ast.BitAnd and z3.is_int_value(cy):
                c = cy.as_long()
                if c > 0 and (c & (c + 1)) == 0:          # mask 2^k - 1
                    return [("ok", p1, sv_int(x % (c + 1)))]
                if c > 0 and (c & (c - 1)) == 0:          # single bit 2^k
                    return [("ok", p1, sv_int(((x / c) % 2) * c))]
            if op is ast.BitOr:
                r = fresh_int("bor")
                # true facts about | on non-negative operands with disjoint bit ranges (6- and 8-bit fields)
                for kbits in (6, 8):
                    m = 2 ** kbits
                    p1.pc.append(Implies(And(x >= 0, x % m == 0, y >= 0, y < m), r == x + y))
                p1.pc.append(Implies(And(x >= 0, y >= 0), r >= 0))
                return [("ok", p1, sv_int(r))]
            raise Unsupported(f"binary operator {op.__name__} @ line {n.lineno}")
        return s.seq([n.left, n.right], p, k)

    def concat_seq(s, p, a, b):
        H = p.snap()
        la, lb = H.length(a.t), H.length(b.t)
        arr = fresh("cat_el", AV)
        kindname = a.get("ty") or "list"
        new = p.new_seq(kindname, length=la + lb, arr=arr)
        at, bt = a.t, b.t
        p.add_schema(new, lambda pth, j: And(
            Implies(And(j >= 0, j < la), Select(arr, j) == pth.read(at, H.lo_(at) + j, H)),
            Implies(And(j >= la, j < la + lb), Select(arr, j) == pth.read(bt, H.lo_(bt) + (j - la), H))))
        return SV(new, ty=kindname)

    def e_Attribute(s, n, p):
        # dotted names bound as a whole (module attributes, classes): types.FrameType, collections.abc.Sequence, ...
        try:
            src = ast.unparse(n)
        except Exception:  # pragma: no cover
            src = None
        if src in s.unit.bindings and not _root_is_local(n, p):
            b = s.unit.bindings[src]
            return [("ok", p, b if isinstance(b, SV) else SV(fresh("model"), model=b, name=src))]
        if src in CLASS_ALIASES and not _root_is_local(n, p):
            return [("ok", p, SV(fresh("cls"), cls=CLASS_ALIASES[src]))]
        def k(p1, vs):
            return s.getattr_(p1, vs[0], n.attr, n)
        return s.seq([n.value], p, k)

    def getattr_(s, p, obj, attr, node=None):
        prop = s.unit.props.get((obj.get("ty"), attr)) or s.unit.props.get(("*", attr))
        if prop is not None:
            return prop(s, p, obj)
        if obj.get("cls") and s.func_stack:
            # class attribute: evaluate the class body's assignment to that name (e.g. ExtractOptions.with_contexts)
            mod = source.load_module(s.func_stack[-1].module)
            cd = mod.classes.get(obj.get("cls"))
            if cd is not None:
                for st in cd.body:
                    tgt = st.target if isinstance(st, ast.AnnAssign) else (st.targets[0] if isinstance(st, ast.Assign) else None)
                    if isinstance(tgt, ast.Name) and tgt.id == attr and getattr(st, "value", None) is not None:
                        return s.ev(st.value, p)
        if obj.get("special") or obj.get("fn") or obj.get("cls") or obj.get("model"):
            raise Unsupported(f"attribute {attr} of static object {obj} @ line {getattr(node, 'lineno', '?')}")
        ok, bad = s.fork(p, Val.is_ref(obj.t))
        res = []
        if ok is not None:
            ty = s.unit.field_types.get(attr)
            res.append(("ok", ok, SV(ok.getf(obj.t, attr), ty_key=attr, **({"ty": ty} if ty else {}))))
        if bad is not None:
            res.append(s.raise_new(bad, "AttributeError", site=f"{attr}@{getattr(node, 'lineno', '?')}"))
        return res

    def e_Subscript(s, n, p):
        if isinstance(n.slice, ast.Slice):
            sl = n.slice
            parts = [x for x in (sl.lower, sl.upper, sl.step) if x is not None]
            def ks(p1, vs):
                it = iter(vs[1:])
                lo = next(it) if sl.lower is not None else None
                hi = next(it) if sl.upper is not None else None
                st = next(it) if sl.step is not None else None
                return [("ok", p1, s.slice_seq(p1, vs[0], lo, hi, st, n))]
            return s.seq([n.value] + parts, p, ks)
        def k(p1, vs):
            return s.index(p1, vs[0], vs[1], n)
        return s.seq([n.value, n.slice], p, k)

    def index(s, p, obj, idx, node=None):
        m = s.unit.methods.get((obj.get("ty"), "__getitem__"))
        if m is not None:
            return m(s, p, [obj, idx], {}, node)
        site = f"{ast.unparse(node) if node is not None else '?'}"
        if obj.get("ty") == "dict":
            ok, bad = s.fork(p, p.dhas(obj.t, idx.t))
            res = []
            if ok is not None:
                res.append(("ok", ok, SV(ok.dget(obj.t, idx.t))))
            if bad is not None:
                res.append(s.raise_new(bad, "KeyError", site=site))
            return res
        tup = obj.get("tup")
        ci = z3.simplify(Val.i(idx.t)) if idx.get("ty") == "int" or True else None
        if tup is not None and z3.is_int_value(ci):
            i = ci.as_long()
            if -len(tup) <= i < len(tup):
                return [("ok", p, tup[i])]
            return [s.raise_new(p, "IndexError", site=site)]
        i = Val.i(idx.t)
        ln = p.length(obj.t)
        pos = If(i >= 0, i, ln + i)
        ok, bad = s.fork(p, And(pos >= 0, pos < ln))
        res = []
        if ok is not None:
            ety = s.unit.elem_types.get(obj.get("ty_key"))
            res.append(("ok", ok, SV(ok.elem(obj.t, pos), **({"ty": ety} if ety else {}))))
        if bad is not None:
            res.append(s.raise_new(bad, "IndexError", site=site))
        return res

    def slice_seq(s, p, obj, lo, hi, st, node, kind_override=None):
        """seq[lo:hi:step] with exact PySlice_AdjustIndices semantics for step in {+1, -1}"""
        step = 1
        if st is not None:
            cs = z3.simplify(Val.i(st.t))
            if not z3.is_int_value(cs) or cs.as_long() not in (1, -1):
                raise Unsupported(f"slice step must be literal +-1 @ line {node.lineno}")
            step = cs.as_long()
        H = p.snap()
        v = obj.t
        ln = H.length(v)
        def adjust(x, is_start):
            if x is None or (x.t.eq(NONE)):
                if step > 0:
                    return IntVal(0) if is_start else ln
                return (ln - 1) if is_start else IntVal(-1)
            i = Val.i(x.t)
            isnone = Val.is_none(x.t)
            if step > 0:
                adj = If(i < 0, If(i + ln < 0, 0, i + ln), If(i > ln, ln, i))
                dflt = IntVal(0) if is_start else ln
            else:
                adj = If(i < 0, If(i + ln < 0, -1, i + ln), If(i >= ln, ln - 1, i))
                dflt = (ln - 1) if is_start else IntVal(-1)
            return If(isnone, dflt, adj)
        start, stop = adjust(lo, True), adjust(hi, False)
        if step > 0:
            newlen = If(stop > start, stop - start, 0)
        else:
            newlen = If(start > stop, start - stop, 0)
        arr = fresh("slice_el", AV)
        kindname = kind_override or (obj.get("ty") if obj.get("ty") in ("tuple", "list") else "list")
        new = p.new_seq(kindname, length=newlen, arr=arr)
        p.add_schema(new, lambda pth, j: Implies(And(j >= 0, j < newlen),
                                                Select(arr, j) == pth.read(v, H.lo_(v) + start + step * j, H)))
        out = SV(new, ty=kindname, ty_key=obj.get("ty_key"))
        out.st["slice_of"] = (obj, start, stop, step, newlen)
        return out

    def _comprehension(s, n, p, elt, kindname, lazy):
        """[elt for x in seq] / (elt for x in seq): a map over one sequence: element j is elt[x := seq[j]].
           With `if` clauses: a fresh sequence with a ghost strictly increasing source-index map src (recorded in
           p.ghost["filter:<line>"]): element j is elt[x := seq[src(j)]], the tests hold at src(j), and every source index
           whose tests hold is hit (inverse map pos)."""
        if len(n.generators) != 1 or n.generators[0].is_async:
            raise Unsupported(f"comprehension shape @ line {n.lineno}")
        gen = n.generators[0]
        def k(p1, vs):
            seqv = vs[0]
            def build(ex, pb, kname):
                nn, elem, static = ex.iter_desc(pb, seqv, n)
                arr = fresh("comp_el", AV)
                def at_source(i):
                    """(tests term, element term, side facts) with the target bound to source item i"""
                    tmp = base.clone()
                    tmp.pc.append(And(i >= 0, i < nn))      # only ever used under this guard
                    if bulk[0]:
                        tmp.h.alloc = z3.simplify(A0 + i * bulk[0])      # element i owns addresses -(A0+i*N+1) .. -(A0+i*N+N)
                    last_tmp[0] = tmp
                    for o0 in ex.assign(gen.target, elem(tmp, i), tmp):
                        if o0.kind != "normal":
                            raise Unsupported("comprehension target")
                    cond = []
                    def only_ok(rs, what):
                        # an element / test that may raise: the raising outcome is a separate outcome of the whole
                        # comprehension (see may_raise below); the facts of the normal outcome include "did not raise"
                        oks = [r for r in rs if r[0] == "ok"]
                        if len(oks) != 1:
                            raise Unsupported(f"comprehension {what} forks @ line {n.lineno}: {[(r[0], r[1].notes[-2:]) for r in rs]}")
                        if len(rs) > 1:
                            raised.append(True)
                        return oks[0]
                    for t in gen.ifs:
                        r = only_ok(ex.ev(t, tmp), "test")
                        tmp = r[1]
                        cond.append(ex.truthy(tmp, r[2]))
                    merged_if = ex._pure_ifexp(elt, tmp) if isinstance(elt, ast.IfExp) else None
                    rs = [merged_if] if merged_if is not None else [only_ok(ex.ev(elt, tmp), "element")]
                    last_tmp[0] = rs[0][1]
                    return And(cond) if cond else BoolVal(True), rs[0][2].t, rs[0][1].pc[len(base.pc) + 1:]
                raised = []
                bulk = [0]
                last_tmp = [None]
                if gen.ifs:
                    m = fresh_int("comp_len")
                    pb.pc += [m >= 0, m <= nn, nn >= 0]
                    new = pb.new_seq(kname, length=m, arr=arr)
                else:
                    new = pb.new_seq(kname, length=nn, arr=arr)
                base = pb.clone()
                A0 = base.h.alloc
                at_source(fresh_int("probe"))
                nalloc = z3.simplify(last_tmp[0].h.alloc - A0)
                if not z3.is_int_value(nalloc):
                    raise Unsupported(f"comprehension element allocates a non-constant number of objects @ line {n.lineno}")
                if nalloc.as_long() > 0:
                    # the elements allocate: element i gets its own address block; the heap after the comprehension is the
                    # base heap overridden on the bulk region [-(A0+nn*N), -A0) by what element (index of the address) wrote
                    bulk[0] = N = nalloc.as_long()
                    jv = fresh_int("cj")
                    at_source(jv)
                    T = last_tmp[0].h
                    x = z3.Int(fresh_name("bulk_x"))
                    jx = ((-x) - A0 - 1) / N
                    inreg = And(x < -A0, x >= -(A0 + nn * N))
                    def merged(Tarr, Farr, label):
                        if Tarr.eq(Farr):
                            return Farr
                        # the element may write only into its own freshly allocated block
                        y = fresh_int("y")
                        own = And(y < -(A0 + jv * N), y >= -(A0 + jv * N + N))
                        r = discharge(base.pc + [jv >= 0, jv < nn], Implies(Not(own), Select(Tarr, y) == Select(Farr, y)), ex.axioms)[0]
                        if r != "PROVED":
                            raise Unsupported(f"comprehension element writes outside its own allocations ({label}) @ line {n.lineno}")
                        return z3.Lambda([x], If(inreg, Select(z3.substitute(Tarr, (jv, jx)), x), Select(Farr, x)))
                    for fname in list(T.fields):
                        pb.h.fields[fname] = merged(T.fields[fname], base.h.field(fname), fname)
                    for comp in ("lo", "hi", "el", "dk", "dv", "dn"):
                        setattr(pb.h, comp, merged(getattr(T, comp), getattr(base.h, comp), comp))
                    pb.h.alloc = z3.simplify(A0 + nn * N)
                outs = []
                if raised:
                    outs.append(ex.raise_new(pb.clone(), "Exception", site=f"comprehension@{n.lineno}"))
                if not gen.ifs:
                    def sch(pth, j):
                        _, v, facts = at_source(j)
                        return And([Implies(And(j >= 0, j < nn), Select(arr, j) == v)] +
                                   [Implies(And(j >= 0, j < nn), f) for f in facts])
                    pb.add_schema(new, sch)
                    return outs + [("ok", pb, SV(new, ty=kname, comp_of=seqv, aligned=True))]
                src = z3.Function(fresh_name("comp_src"), z3.IntSort(), z3.IntSort())
                pos = z3.Function(fresh_name("comp_pos"), z3.IntSort(), z3.IntSort())
                def sch(pth, j):
                    c, v, facts = at_source(src(j))
                    inr = And(j >= 0, j < m)
                    return And([Implies(inr, And(src(j) >= 0, src(j) < nn, c, Select(arr, j) == v, pos(src(j)) == j)),
                                Implies(And(inr, j + 1 < m), src(j) < src(j + 1)),
                                Implies(And(inr, j >= 1), src(j - 1) < src(j))] +
                               [Implies(inr, f) for f in facts])
                pb.add_schema(new, sch)
                def complete(i):
                    c, _, facts = at_source(i)
                    return Implies(And(i >= 0, i < nn, c), And(pos(i) >= 0, pos(i) < m, src(pos(i)) == i))
                cn = z3.simplify(nn)
                if z3.is_int_value(cn) and cn.as_long() <= 16:
                    for i_ in range(cn.as_long()):          # concrete source: completeness at every index, eagerly
                        pb.pc.append(complete(IntVal(i_)))
                elif seqv.get("special") is None and seqv.get("ty") in ("list", "tuple", "deque"):
                    Hs = base.snap()                          # symbolic source: completeness wherever the source is read
                    pb.add_schema(seqv.t, lambda pth, ja: complete(ja - Hs.lo_(seqv.t)))
                pb.ghost[f"filter:{n.lineno}"] = dict(new=new, m=m, src=src, pos=pos, n=nn, source=seqv, complete=complete, elem=elem)
                return outs + [("ok", pb, SV(new, ty=kname, comp_of=seqv))]
            if lazy:
                return [("ok", p1, SV(fresh("genexp"), special=("genexp", build)))]
            return build(s, p1, kindname)
        return s.seq([gen.iter], p, k)

    def e_DictComp(s, n, p):
        """{k: v for x in seq} without `if` clauses: a fresh dict D described through the two sequences K = [k for x in seq] and
        V = [v for x in seq] (built by the list-comprehension machinery from the SAME generator): a key is present iff it is
        some K[j]; the value stored under a present key is V[w] for an index w with K[w] == key (with distinct keys: THE
        index; with repeated keys Python keeps the last one - here it is only known to be one of them, a weaker fact).
        With `if` clauses, or several generators: an opaque fresh dict (contents not modelled)."""
        if len(n.generators) != 1:
            raise Unsupported("dict comprehension shape")
        gen = n.generators[0]
        if gen.ifs or gen.is_async:
            def k0(p1, vs):
                d = p1.new_dict()
                p1.havoc_dict(d)
                return [("ok", p1, SV(d, ty="dict", dictcomp=True))]
            return s.seq([gen.iter], p, k0)
        def k(p0, vs):
            keep = p0.clone()
            try:
                return modelled(p0, vs)
            except Unsupported:
                # target shapes / elements the list-comprehension machinery cannot describe: the old opaque dict
                d = keep.new_dict()
                keep.havoc_dict(d)
                return [("ok", keep, SV(d, ty="dict", dictcomp=True))]

        def modelled(p0, vs):
            tmpname = f"$dictcomp_src_{n.lineno}_{n.col_offset}"
            p0.env[tmpname] = vs[0]                      # the iterable is evaluated ONCE; both helper comprehensions range over it
            g2 = [ast.comprehension(target=gen.target, iter=ast.copy_location(ast.Name(id=tmpname, ctx=ast.Load()), gen.iter), ifs=[], is_async=0)]
            kcomp = ast.copy_location(ast.ListComp(elt=n.key, generators=g2), n)
            vcomp = ast.copy_location(ast.ListComp(elt=n.value, generators=g2), n)
            res = []
            for st1, p1, K in s._comprehension(kcomp, p0, n.key, "list", False):
                if st1 != "ok":
                    res.append((st1, p1, K))
                    continue
                for st2, p2, V in s._comprehension(vcomp, p1, n.value, "list", False):
                    if st2 != "ok":
                        res.append((st2, p2, V))
                        continue
                    res.append(s._dict_from_kv(p2, K, V))
            return res
        return s.seq([gen.iter], p, k)

    def _dict_from_kv(s, p2, K, V):
        H = p2.snap()
        Kt, Vt = K.t, V.t
        nn = H.length(Kt)
        d = p2.new_dict()
        p2.havoc_dict(d)
        wit = z3.Function(fresh_name("dictcomp_wit"), Val, z3.IntSort())
        dk, dv = p2.h.dk, p2.h.dv                        # the dict as it is right after the comprehension
        def per_key(pth, key):
            w = wit(key)
            return Implies(Select(Select(dk, Val.a(d)), key),
                           And(w >= 0, w < nn, pth.read(Kt, H.lo_(Kt) + w, H) == key,
                               Select(Select(dv, Val.a(d)), key) == pth.read(Vt, H.lo_(Vt) + w, H)))
        p2.add_dschema(d, per_key)
        def present(pth, j):
            return Implies(And(j >= H.lo_(Kt), j < H.hi_(Kt)), Select(Select(dk, Val.a(d)), H.raw(Kt, j)))
        p2.add_schema(Kt, present)
        srcv = K.get("comp_of")
        if K.get("aligned") and srcv is not None and srcv.get("special") is None and srcv.get("ty") in ("list", "tuple", "deque"):
            # whoever reads source item j also learns that its key is present
            def via_source(pth, ja, st=srcv.t):
                pth.read(Kt, z3.simplify(H.lo_(Kt) + (ja - H.lo_(st))), H)
                return BoolVal(True)
            p2.add_schema(srcv.t, via_source)
        cn = z3.simplify(nn)
        if z3.is_int_value(cn) and cn.as_long() <= 16:
            for j_ in range(cn.as_long()):              # concrete source: every key is present, eagerly
                p2.read(Kt, z3.simplify(H.lo_(Kt) + j_), H)
        p2.pc.append(And(p2.h.dlen(d) >= 0, p2.h.dlen(d) <= nn))
        return ("ok", p2, SV(d, ty="dict", dictcomp=True, keys_seq=K, values_seq=V))

    def e_ListComp(s, n, p):
        return s._comprehension(n, p, n.elt, "list", False)

    def e_GeneratorExp(s, n, p):
        return s._comprehension(n, p, n.elt, "list", True)

    def e_Lambda(s, n, p):
        return [("ok", p, SV(fresh("lambda"), lam=n, closure=dict(p.env)))]

    def e_Starred(s, n, p):
        raise Unsupported(f"starred expression in unsupported position @ line {n.lineno}")

    def e_Yield(s, n, p):
        def k(p1, vs):
            return s.do_yield(p1, vs[0], n)
        if n.value is None:
            return s.do_yield(p, NONE_SV, n)
        return s.seq([n.value], p, k)

    def e_YieldFrom(s, n, p):
        """yield from <sequence>: every element is yielded in order (recorded as one ghost 'all-of' entry)"""
        def k(p1, vs):
            seqv = vs[0]
            if seqv.get("ty") not in ("list", "tuple") and not s.unit.options.get("iter_any_seq"):
                raise Unsupported(f"yield from {seqv} @ line {n.lineno}")
            p1.yielded.append(SV(seqv.t, all_of=(seqv, p1.snap())))
            return [("ok", p1, NONE_SV)]
        return s.seq([n.value], p, k)

    def do_yield(s, p, v, node):
        p.yielded.append(v)
        hook = s.unit.on_yield
        if hook is not None:
            return hook(s, p, v, node)
        return [("ok", p, NONE_SV)]


def _root_is_local(n, p):
    while isinstance(n, ast.Attribute):
        n = n.value
    return isinstance(n, ast.Name) and n.id in p.env


BUILTIN_NAMES = {"len", "isinstance", "reversed", "list", "tuple", "id", "hasattr", "getattr", "callable", "repr", "str",
                 "next", "iter", "range", "enumerate", "set", "bool", "type", "int", "dict", "bytes", "super", "setattr",
                 "sorted", "zip", "min", "max", "any", "all", "print", "object", "hash"}
