"""pyvc.calls — call dispatch: builtins, container/dict/str methods, inlining of local closures, contracts, oracles."""
from __future__ import annotations
import ast
import z3
from z3 import And, Or, Not, Implies, If, IntVal, BoolVal, Select, Store, StringVal, Concat, Length, PrefixOf, Function, BoolSort
from .values import *  # noqa
from .state import SV
from .exec import ExecBase, Unsupported, Out, NONE_SV, sv_int, sv_bool, num, _root_is_local

_HASATTR = {}


def hasattr_fn(name):
    if name not in _HASATTR:
        _HASATTR[name] = Function(f"hasattr_{name}", Val, BoolSort())
    return _HASATTR[name]


callable_fn = Function("callable_", Val, BoolSort())
hash_of = Function("hash_of", Val, z3.IntSort())
seq_member = Function("seq_member", Val, Val, BoolSort())      # x occurs in the sequence (definition of membership)
strip_of = Function("strip_of", z3.StringSort(), z3.StringSort())


class Star:
    def __init__(s, sv):
        s.sv = sv


class CallMixin(ExecBase):
    # ------------------------------------------------------------------ entry
    def e_Call(s, n, p):
        f = n.func
        argnodes = [a.value if isinstance(a, ast.Starred) else a for a in n.args]
        kwnodes = [k.value for k in n.keywords]

        def with_args(p0, recv, callee):
            def k(p1, vs):
                args = []
                for node, v in zip(n.args, vs[:len(n.args)]):
                    args.append(Star(v) if isinstance(node, ast.Starred) else v)
                kwargs = {}
                for kw, v in zip(n.keywords, vs[len(n.args):]):
                    if kw.arg is None:
                        sd = v.get("static_dict")
                        if sd is None:
                            raise Unsupported(f"**kwargs of unknown shape @ line {n.lineno}")
                        kwargs.update(sd)
                    else:
                        kwargs[kw.arg] = v
                if recv is not None:
                    return s.call_method(p1, recv, f.attr, args, kwargs, n)
                return s.call_value(p1, callee, args, kwargs, n)
            return s.seq(argnodes + kwnodes, p0, k)

        if isinstance(f, ast.Name) and f.id in s.unit.options.get("typing_casts", ("cast",)) and len(n.args) == 2 \
                and f.id not in p.env:
            return s.ev(n.args[1], p)        # typing.cast(T, v) is v; the type expression is not executed
        if isinstance(f, ast.Attribute):
            src = ast.unparse(f)
            if src in s.unit.bindings and not _root_is_local(f, p):
                b = s.unit.bindings[src]
                callee = b if isinstance(b, SV) else SV(fresh("model"), model=b, name=src)
                return with_args(p, None, callee)
            res = []
            for st, p1, recv in s.ev(f.value, p):
                if st != "ok":
                    res.append((st, p1, recv))
                    continue
                res += with_args(p1, recv, None)
            return res
        res = []
        for st, p1, callee in s.ev(f, p):
            if st != "ok":
                res.append((st, p1, callee))
                continue
            res += with_args(p1, None, callee)
        return res

    # ------------------------------------------------------------------ values that are called
    def call_value(s, p, f, args, kwargs, node):
        if f.get("model") is not None:
            return f.get("model")(s, p, args, kwargs, node)
        if f.get("builtin") and f.get("cls") and f.get("cls") in s.unit.ctors:
            return s.unit.ctors[f.get("cls")](s, p, args, kwargs, node)
        if f.get("builtin"):
            m = getattr(s, "b_" + f.get("builtin"), None)
            if m is None:
                raise Unsupported(f"builtin {f.get('builtin')} @ line {node.lineno}")
            return m(p, args, kwargs, node)
        if f.get("fn") is not None:
            fi = f.get("fn")
            c = s.unit.contracts.get(fi.name)
            if c is not None:
                return c(s, p, args, kwargs, node)
            if fi.parent is not None or fi.name in s.unit.inline or \
                    (s.unit.options.get("auto_inline", True) and not fi.node.decorator_list and not fi.is_generator()
                     and fi.name != s.unit.func):
                # local closures, and plain (undecorated) helpers of the same module that have no contract of their own,
                # are verified by inlining their real body at the call site
                return s.inline(p, fi, args, kwargs, f.get("closure") or {}, node)
            raise Unsupported(f"call to {fi.name} without contract @ line {node.lineno}")
        if f.get("lam") is not None:
            return s.inline_lambda(p, f, args, kwargs, node)
        if f.get("cls"):
            ctor = s.unit.ctors.get(f.get("cls"))
            if ctor is not None:
                return ctor(s, p, args, kwargs, node)
            if "BaseException" in _ancestors(f.get("cls")):
                a0 = args[0].t if args and not isinstance(args[0], Star) else NONE
                e = p.new_obj(f.get("cls"), arg0=a0)
                return [("ok", p, SV(e, ty=f.get("cls")))]
            raise Unsupported(f"constructor {f.get('cls')} @ line {node.lineno}")
        if f.get("bound") is not None:
            recv, name = f.get("bound")
            return s.call_method(p, recv, name, args, kwargs, node)
        oc = s.unit.opaque_call
        if oc is not None:
            return oc(s, p, f, args, kwargs, node)
        raise Unsupported(f"call of opaque value {ast.unparse(node.func)} @ line {node.lineno}")

    # ------------------------------------------------------------------ inlining
    def bind_params(s, p, fdef, args, kwargs, defenv, node):
        a = fdef.args
        env = dict(defenv)
        pos = list(a.posonlyargs) + list(a.args)
        flat = []
        star_tail = None
        for x in args:
            if isinstance(x, Star):
                tup = x.sv.get("tup")
                if tup is not None:
                    flat += tup
                else:
                    star_tail = x.sv
            else:
                if star_tail is not None:
                    raise Unsupported("positional after symbolic *args")
                flat.append(x)
        ndef = len(a.defaults)
        for i, prm in enumerate(pos):
            if i < len(flat):
                env[prm.arg] = flat[i]
            elif prm.arg in kwargs:
                env[prm.arg] = kwargs.pop(prm.arg)
            else:
                di = i - (len(pos) - ndef)
                if di < 0:
                    raise Unsupported(f"missing argument {prm.arg} @ line {node.lineno}")
                env[prm.arg] = s.eval_default(p, a.defaults[di], defenv)
        extra = flat[len(pos):]
        if a.vararg is not None:
            if star_tail is not None and not extra:
                env[a.vararg.arg] = star_tail
            elif star_tail is None:
                env[a.vararg.arg] = s.make_tuple(p, extra)
            else:
                raise Unsupported("mixed concrete and symbolic *args")
        elif extra or star_tail is not None:
            raise Unsupported(f"too many positional arguments @ line {node.lineno}")
        for prm, d in zip(a.kwonlyargs, a.kw_defaults):
            if prm.arg in kwargs:
                env[prm.arg] = kwargs.pop(prm.arg)
            elif d is not None:
                env[prm.arg] = s.eval_default(p, d, defenv)
            else:
                raise Unsupported(f"missing keyword argument {prm.arg}")
        if kwargs:
            raise Unsupported(f"unexpected keyword arguments {list(kwargs)} @ line {node.lineno}")
        return env

    def eval_default(s, p, node, defenv):
        if isinstance(node, ast.Constant):
            return s.const(p, node.value)
        saved = p.env
        p.env = dict(defenv)
        try:
            rs = s.ev(node, p)
        finally:
            p.env = saved
        if len(rs) != 1 or rs[0][0] != "ok":
            raise Unsupported("default argument expression forks")
        return rs[0][2]

    def inline(s, p, fi, args, kwargs, closure, node):
        if fi.is_generator():
            if s.unit.options.get("opaque_generators"):
                # calling a generator function runs nothing: an opaque generator object (its effects happen at send/next,
                # which the unit models as oracles)
                return [("ok", p, SV(p.new_obj("generator"), ty="generator", genfn=fi))]
            raise Unsupported(f"inlining generator function {fi.name}")
        if len(s.func_stack) > 12:
            raise Unsupported("inline depth")
        base = dict(closure)
        if s.func_stack and fi.parent is s.func_stack[-1]:
            base.update(p.env)          # late binding: a closure called from its defining frame sees current values
        env = s.bind_params(p, fi.node, args, dict(kwargs), base, node)
        saved = p.env
        p.env = env
        s.func_stack.append(fi)
        try:
            outs = s.block(fi.node.body, p)
        finally:
            s.func_stack.pop()
        res = []
        nl = _nonlocals(fi.node)
        for o in outs:
            restored = dict(saved)
            for nm in nl:                # closure variables written through `nonlocal` flow back to the defining frame
                if nm in o.path.env and nm in saved:
                    restored[nm] = o.path.env[nm]
            if "$globals" in saved.get("$ghost", {}):
                pass
            o.path.env = restored
            if o.kind == "raise":
                res.append(("raise", o.path, o.value))
            elif o.kind == "return":
                res.append(("ok", o.path, o.value))
            elif o.kind == "normal":
                res.append(("ok", o.path, NONE_SV))
            else:
                raise Unsupported(f"{o.kind} escaped function {fi.name}")
        return res

    def inline_lambda(s, p, f, args, kwargs, node):
        lam = f.get("lam")
        env = s.bind_params(p, lam, args, dict(kwargs), f.get("closure") or {}, node)
        saved = p.env
        p.env = env
        try:
            rs = s.ev(lam.body, p)
        finally:
            pass
        for st, p1, v in rs:
            p1.env = dict(saved)
        return rs

    # ------------------------------------------------------------------ builtins
    def b_len(s, p, args, kwargs, node):
        x = args[0]
        m = s.unit.methods.get((x.get("ty"), "__len__"))
        if m is not None:
            return m(s, p, [x], {}, node)
        if x.get("ty") == "dict":
            return [("ok", p, sv_int(p.dlen(x.t)))]
        if x.get("special") is not None and x.get("special")[0] == "set":
            n_ = fresh_int("setlen")      # cardinality of a set built from a sequence: some non-negative number
            p.pc.append(n_ >= 0)
            return [("ok", p, sv_int(n_))]
        return [("ok", p, sv_int(p.length(x.t)))]

    def b_isinstance(s, p, args, kwargs, node):
        names = s.resolve_class_names(p, node.args[1])
        return [("ok", p, sv_bool(s.isinstance_term(args[0].t, names)))]

    def b_reversed(s, p, args, kwargs, node):
        return [("ok", p, SV(fresh("reversed"), special=("reversed", args[0], p.snap())))]

    def b_range(s, p, args, kwargs, node):
        if len(args) != 1:
            raise Unsupported("range with several arguments")
        return [("ok", p, SV(fresh("range"), special=("range", args[0])))]

    def b_enumerate(s, p, args, kwargs, node):
        return [("ok", p, SV(fresh("enumerate"), special=("enumerate", args[0], p.snap())))]

    def b_iter(s, p, args, kwargs, node):
        x = args[0]
        m = s.unit.methods.get((x.get("ty"), "__iter__"))
        if m is not None:
            return m(s, p, [x], {}, node)
        raise Unsupported(f"iter() of {x} @ line {node.lineno}")

    def b_next(s, p, args, kwargs, node):
        it = args[0]
        m = s.unit.methods.get((it.get("ty"), "__next__"))
        if m is None:
            # the static type is unknown: use the class the path condition implies (e.g. after an isinstance test)
            for (ty, nm), mm in s.unit.methods.items():
                if nm == "__next__" and ty and not p.feasible([Not(is_kind(it.t, ty))]):
                    m = mm
                    break
        if m is None:
            raise Unsupported(f"next() of {it} @ line {node.lineno}")
        res = m(s, p, [it], {}, node)
        if len(args) > 1:
            out = []
            for st, p1, v in res:
                if st == "raise" and v.get("ty") == "StopIteration":
                    out.append(("ok", p1, args[1]))
                else:
                    out.append((st, p1, v))
            return out
        return res

    def b_list(s, p, args, kwargs, node):
        return s._copy_seq(p, args, "list", node)

    def b_tuple(s, p, args, kwargs, node):
        return s._copy_seq(p, args, "tuple", node)

    def _copy_seq(s, p, args, kindname, node):
        if not args:
            return [("ok", p, s.make_tuple(p, [], kindname))]
        x = args[0]
        sp = x.get("special")
        if sp is not None and sp[0] == "genexp":
            return sp[1](s, p, kindname)
        m = s.unit.methods.get((x.get("ty"), "__tolist__"))
        if m is not None:
            return m(s, p, [x, kindname], {}, node)
        if x.get("ty") in ("list", "tuple", "deque") or x.get("ty") is None:
            H = p.snap()
            ln = H.length(x.t)
            arr = fresh("copy_el", AV)
            new = p.new_seq(kindname, length=ln, arr=arr)
            xt = x.t
            p.add_schema(new, lambda pth, j: Implies(And(j >= 0, j < ln), Select(arr, j) == pth.read(xt, H.lo_(xt) + j, H)))
            return [("ok", p, SV(new, ty=kindname, ty_key=x.get("ty_key"), copy_of=(x, H)))]
        raise Unsupported(f"{kindname}() of {x} @ line {node.lineno}")

    def b_id(s, p, args, kwargs, node):
        v = args[0].t
        r = If(Val.is_ref(v), Val.a(v), id_of(v))
        p.pc.append(obj_of_id(r) == v)      # id() is injective on live objects
        return [("ok", p, sv_int(r))]

    def _extreme_of_seq(s, p, seqv, node, ge):
        """max(seq) / min(seq) over ONE sequence of ints: ValueError when it is empty, else an int m that bounds every element
        (index-quantified fact, instantiated at every read of the sequence and at the witness) and IS one of them"""
        sp = seqv.get("special")
        if sp is not None and sp[0] == "genexp":
            res = []
            for st, p1, v in sp[1](s, p, "list"):
                res += s._extreme_of_seq(p1, v, node, ge) if st == "ok" else [(st, p1, v)]
            return res
        if seqv.get("ty") not in ("list", "tuple") and not s.unit.options.get("iter_any_seq"):
            raise Unsupported(f"max()/min() of {seqv} @ line {getattr(node, 'lineno', '?')}")
        H = p.snap()
        n = H.length(seqv.t)
        some, none = s.fork(p, n > 0)
        res = []
        if some is not None:
            m, w = fresh_int("extreme"), fresh_int("extreme_at")
            t = seqv.t
            some.pc += [w >= 0, w < n, Val.i(some.elem(t, w, H)) == m]
            def bound(pth, j):
                e = Val.i(H.raw(t, j))
                return Implies(And(j >= H.lo_(t), j < H.hi_(t)), (m >= e) if ge else (m <= e))
            some.add_schema(t, bound)
            srcv = seqv.get("comp_of")
            if seqv.get("aligned") and srcv is not None and srcv.get("special") is None and srcv.get("ty") in ("list", "tuple", "deque"):
                # a map over a stored sequence: whoever reads source item j also learns the bound for element j
                def via_source(pth, ja, st=srcv.t):
                    pth.read(t, z3.simplify(H.lo_(t) + (ja - H.lo_(st))), H)
                    return BoolVal(True)
                some.add_schema(srcv.t, via_source)
            cn = z3.simplify(n)
            if z3.is_int_value(cn) and cn.as_long() <= 16:
                for j_ in range(cn.as_long()):             # concrete length: the bound at every index, eagerly
                    some.read(t, z3.simplify(H.lo_(t) + j_), H)
            res.append(("ok", some, sv_int(m)))
        if none is not None:
            res.append(s.raise_new(none, "ValueError", site="max/min of an empty sequence"))
        return res

    def b_max(s, p, args, kwargs, node):
        if len(args) == 1 and not kwargs:
            return s._extreme_of_seq(p, args[0], node, True)
        if len(args) != 2 or kwargs:
            raise Unsupported("max() shape")
        a, b = Val.i(args[0].t), Val.i(args[1].t)
        return [("ok", p, sv_int(If(a >= b, a, b)))]

    def b_min(s, p, args, kwargs, node):
        if len(args) == 1 and not kwargs:
            return s._extreme_of_seq(p, args[0], node, False)
        if len(args) != 2 or kwargs:
            raise Unsupported("min() shape")
        a, b = Val.i(args[0].t), Val.i(args[1].t)
        return [("ok", p, sv_int(If(a <= b, a, b)))]

    def b_object(s, p, args, kwargs, node):
        if args or kwargs:
            raise Unsupported("object() takes no arguments")
        return [("ok", p, SV(p.new_obj("object"), ty="object"))]      # a fresh sentinel: distinct from everything that exists

    def b_hash(s, p, args, kwargs, node):
        return [("ok", p, sv_int(hash_of(args[0].t)))]      # not injective: equal objects share a hash

    def b_hasattr(s, p, args, kwargs, node):
        name = args[1].get("pyconst")
        if not isinstance(name, str):
            raise Unsupported("hasattr with non-constant name")
        return [("ok", p, sv_bool(hasattr_fn(name)(args[0].t)))]

    def b_getattr(s, p, args, kwargs, node):
        name = args[1].get("pyconst")
        if not isinstance(name, str):
            raise Unsupported("getattr with non-constant name")
        if len(args) == 2:
            return s.getattr_(p, args[0], name, node)
        ha = hasattr_fn(name)(args[0].t)
        return [("ok", p, SV(If(And(Val.is_ref(args[0].t), ha), p.getf(args[0].t, name), args[2].t)))]

    def b_callable(s, p, args, kwargs, node):
        x = args[0]
        if x.get("fn") or x.get("lam") or x.get("cls") or x.get("model"):
            return [("ok", p, sv_bool(True))]
        return [("ok", p, sv_bool(And(Val.is_ref(x.t), callable_fn(x.t))))]

    def b_repr(s, p, args, kwargs, node):
        return [("ok", p, s.new_str(p, repr_of(args[0].t)))]

    def b_str(s, p, args, kwargs, node):
        return [("ok", p, s.new_str(p, s.to_string(p, args[0])))]

    def b_bool(s, p, args, kwargs, node):
        return [("ok", p, sv_bool(s.truthy(p, args[0])))]

    def b_type(s, p, args, kwargs, node):
        v = args[0].t
        return [("ok", p, SV(fresh("type"), special=("type", args[0])))]

    def b_set(s, p, args, kwargs, node):
        return [("ok", p, SV(fresh("set"), special=("set", args[0] if args else None)))]

    # ------------------------------------------------------------------ methods
    def call_method(s, p, recv, name, args, kwargs, node):
        m = s.unit.methods.get((recv.get("ty"), name)) or s.unit.methods.get(("*", name))
        if m is None and recv.get("ty") is None:
            # no static type: use the class the path condition implies (e.g. after an isinstance test)
            for (ty_, nm), mm in s.unit.methods.items():
                if nm == name and ty_ and ty_ != "*" and not p.feasible([Not(is_kind(recv.t, ty_))]):
                    m = mm
                    break
        if m is not None:
            return m(s, p, [recv] + list(args), kwargs, node)
        ty = recv.get("ty")
        h = getattr(s, "m_" + name, None)
        if h is not None and ty is None and recv.get("special") is None and not recv.get("model") and not recv.get("fn"):
            # builtin container methods: use the builtin class the path condition implies (e.g. after isinstance(x, dict))
            for k_ in ("dict", "list", "tuple", "str", "deque"):
                if not p.feasible([Not(is_exact_kind(recv.t, k_))]):
                    recv = SV(recv.t, **dict(recv.st, ty=k_))
                    ty = k_
                    break
        if h is not None and (ty in ("list", "deque", "tuple", "dict", "str", None)):
            ok, bad = s.fork(p, Val.is_ref(recv.t))
            res = []
            if bad is not None:
                res.append(s.raise_new(bad, "AttributeError", site=f"{name}@{getattr(node, 'lineno', '?')} on a non-object"))
            if ok is None:
                return res
            r = h(ok, recv, args, kwargs, node)
            if r is not None:
                return res + r
            p = ok
        # fall back: fetch attribute, call the value
        res = []
        for st, p1, fv in s.getattr_(p, recv, name, node):
            if st != "ok":
                res.append((st, p1, fv))
                continue
            fv = SV(fv.t, method_of=(recv, name), **{k: v for k, v in fv.st.items()})
            res += s.call_value(p1, fv, args, kwargs, node)
        return res

    def _mut(s, p, recv, node):
        """write barrier: inside a loop cut by an invariant, mutated containers must be in the loop's havoc set"""
        s.write_barrier(p, ("cont", recv.t), node)

    def m_append(s, p, recv, args, kwargs, node):
        if recv.get("ty") not in ("list", "deque", None):
            return None
        s._mut(p, recv, node)
        p.seq_append(recv.t, args[0].t)
        return [("ok", p, NONE_SV)]

    def m_appendleft(s, p, recv, args, kwargs, node):
        s._mut(p, recv, node)
        p.seq_appendleft(recv.t, args[0].t)
        return [("ok", p, NONE_SV)]

    def _pop_end(s, p, recv, left, node):
        site = f"{'popleft' if left else 'pop'}[{ast.unparse(node.func.value)}]@{s.site_label(node)}"
        ok, bad = s.fork(p, p.length(recv.t) > 0)
        res = []
        if ok is not None:
            s._mut(ok, recv, node)
            v = ok.seq_popleft(recv.t) if left else ok.seq_pop(recv.t)
            ety = s.unit.elem_types.get(recv.get("ty_key"))
            res.append(("ok", ok, SV(v, **({"ty": ety} if ety else {}))))
        if bad is not None:
            res.append(s.raise_new(bad, "IndexError", site=site))
        return res

    def m_popleft(s, p, recv, args, kwargs, node):
        return s._pop_end(p, recv, True, node)

    def m_pop(s, p, recv, args, kwargs, node):
        if recv.get("ty") == "dict" or (recv.get("ty") is None and args):
            key = args[0]
            has = p.dhas(recv.t, key.t)
            t, f = s.fork(p, has)
            res = []
            if t is not None:
                v = t.dget(recv.t, key.t)
                s.write_barrier(t, ("dict", recv.t), node)
                t.ddel(recv.t, key.t)
                res.append(("ok", t, SV(v)))
            if f is not None:
                if len(args) > 1:
                    res.append(("ok", f, args[1]))
                else:
                    res.append(s.raise_new(f, "KeyError", site=f"pop@{node.lineno}"))
            return res
        if args:
            raise Unsupported("list.pop(i)")
        return s._pop_end(p, recv, False, node)

    def m_extend(s, p, recv, args, kwargs, node):
        x = args[0]
        if x.get("special") is not None or x.get("ty") not in ("list", "tuple", "deque"):
            m = s.unit.methods.get((x.get("ty"), "__tolist__"))
            if m is None:
                raise Unsupported(f"extend with {x} @ line {node.lineno}")
            res = []
            for st, p1, lst in m(s, p, [x, "list"], {}, node):
                if st != "ok":
                    res.append((st, p1, lst))
                else:
                    res += s.m_extend(p1, recv, [lst], kwargs, node)
            return res
        s._mut(p, recv, node)
        H = p.snap()
        rt, xt = recv.t, x.t
        n0, n1 = H.length(rt), H.length(xt)
        a = Val.a(rt)
        arr = fresh("ext_el", AV)
        hi0, lo0 = H.hi_(rt), H.lo_(rt)
        p.h.el = Store(p.h.el, a, arr)
        p.h.hi = Store(p.h.hi, a, hi0 + n1)
        p.add_schema(rt, lambda pth, j: And(
            Implies(And(j >= lo0, j < hi0), Select(arr, j) == pth.read(rt, j, H)),
            Implies(And(j >= hi0, j < hi0 + n1), Select(arr, j) == pth.read(xt, H.lo_(xt) + (j - hi0), H))))
        return [("ok", p, NONE_SV)]

    def m_reverse(s, p, recv, args, kwargs, node):
        s._mut(p, recv, node)
        H = p.snap()
        rt = recv.t
        a = Val.a(rt)
        arr = fresh("rev_el", AV)
        lo0, hi0 = H.lo_(rt), H.hi_(rt)
        p.h.el = Store(p.h.el, a, arr)
        p.add_schema(rt, lambda pth, j: Implies(And(j >= lo0, j < hi0), Select(arr, j) == pth.read(rt, lo0 + hi0 - 1 - j, H)))
        return [("ok", p, NONE_SV)]

    def m_index(s, p, recv, args, kwargs, node):
        """list.index(x): first position holding x (identity or ==), ValueError if absent"""
        rt, x = recv.t, args[0]
        H = p.snap()
        ln = H.length(rt)
        found, missing = p.clone(), p.clone()
        k = fresh_int("idx")
        found.pc += [k >= 0, k < ln, s.eq_elem(found, SV(found.elem(rt, k, H)), x), seq_member(rt, x.t)]
        missing.pc.append(Not(seq_member(rt, x.t)))
        found.add_schema(rt, lambda pth, j: Implies(And(j >= H.lo_(rt), j < H.lo_(rt) + k),
                                                   Not(s.eq_elem(pth, SV(H.raw(rt, j)), x))))
        missing.add_schema(rt, lambda pth, j: Implies(And(j >= H.lo_(rt), j < H.hi_(rt)),
                                                     Not(s.eq_elem(pth, SV(H.raw(rt, j)), x))))
        missing.ghost["index_missing"] = missing.ghost.get("index_missing", ()) + ((rt, x.t, H),)
        res = []
        if found.feasible():
            found.note(f"index found @{node.lineno}")
            res.append(("ok", found, sv_int(k)))
        if s.unit.options.get("index_may_miss", True) and missing.feasible():
            res.append(s.raise_new(missing, "ValueError", site=f"index@{node.lineno}"))
        return res

    def eq_elem(s, p, a, b):
        """== between container elements of opaque object type: identity (default object __eq__)"""
        if s.unit.options.get("identity_eq", True):
            return a.t == b.t
        return s.eq(p, a, b)

    def m_get(s, p, recv, args, kwargs, node):
        if recv.get("ty") not in ("dict",):
            return None
        key = args[0]
        dflt = args[1].t if len(args) > 1 else NONE
        return [("ok", p, SV(If(p.dhas(recv.t, key.t), p.dget(recv.t, key.t), dflt)))]

    def m_setdefault(s, p, recv, args, kwargs, node):
        if recv.get("ty") != "dict":
            return None
        key = args[0]
        dflt = args[1].t if len(args) > 1 else NONE
        had = p.dhas(recv.t, key.t)
        old = p.dget(recv.t, key.t)
        r = If(had, old, dflt)
        s.write_barrier(p, ("dict", recv.t), node)
        p.dset(recv.t, key.t, r)
        return [("ok", p, SV(r))]

    def m_clear(s, p, recv, args, kwargs, node):
        if recv.get("ty") != "dict":
            return None
        s.write_barrier(p, ("dict", recv.t), node)
        a = Val.a(recv.t)
        p.h.dk = Store(p.h.dk, a, z3.K(Val, BoolVal(False)))
        p.h.dn = Store(p.h.dn, a, 0)
        return [("ok", p, NONE_SV)]

    def m_popitem(s, p, recv, args, kwargs, node):
        if recv.get("ty") != "dict":
            return None
        t, f = s.fork(p, p.dlen(recv.t) > 0)
        res = []
        if t is not None:
            k = fresh("popitem_k")
            t.pc.append(t.dhas(recv.t, k))       # dict order is not modelled: some present key (LIFO assumed, not used)
            v = t.dget(recv.t, k)
            s.write_barrier(t, ("dict", recv.t), node)
            t.ddel(recv.t, k)
            res.append(("ok", t, s.make_tuple(t, [SV(k), SV(v)])))
        if f is not None:
            f.pc.append(s.dict_empty_fact(f, recv.t))
            res.append(s.raise_new(f, "KeyError", site=f"popitem@{node.lineno}"))
        return res

    def dict_empty_fact(s, p, d):
        return BoolVal(True)

    def m_startswith(s, p, recv, args, kwargs, node):
        x = args[0]
        if x.get("tup") is not None:
            return [("ok", p, sv_bool(Or([PrefixOf(s.to_string(p, e), s.to_string(p, recv)) for e in x.get("tup")])))]
        if not s.precise_strings:
            from .exec import str_startswith
            return [("ok", p, sv_bool(str_startswith(recv.t, x.t)))]      # opaque but functional
        return [("ok", p, sv_bool(PrefixOf(s.to_string(p, x), s.to_string(p, recv))))]

    def m_join(s, p, recv, args, kwargs, node):
        if recv.get("ty") != "str":
            return None
        return [("ok", p, s.new_str(p))]        # content not modelled

    def m_strip(s, p, recv, args, kwargs, node):
        if recv.get("ty") != "str":
            return None
        return [("ok", p, s.new_str(p, strip_of(s.to_string(p, recv)) if s.precise_strings else None))]

    def m_format(s, p, recv, args, kwargs, node):
        if recv.get("ty") != "str":
            return None
        return [("ok", p, s.new_str(p))]

    def site_label(s, node):
        return s.unit.site_labels.get(node.lineno, f"L{_rel_line(s, node)}")


def _rel_line(s, node):
    if s.func_stack:
        return node.lineno - s.func_stack[-1].node.lineno
    return node.lineno


def _ancestors(c):
    out = []
    while c is not None:
        out.append(c)
        c = CLASS_PARENT.get(c)
    return out


def _nonlocals(fdef):
    out = []
    for n in ast.walk(fdef):
        if isinstance(n, ast.Nonlocal):
            out += n.names
    return out
