"""pyvc.values — sorts, the universal value datatype, class/kind tables, heap snapshots.

Everything the executor manipulates is a z3 term of sort Val:
    none | boolv(b) | intv(i) | ref(a)
Objects (tuples, lists, deques, dicts, strings, frames, exceptions, functions, classes, ...) are `ref(a)` with an
integer address `a`; `kind(a)` is the class tag.  Input objects have addresses >= 0, objects allocated during
symbolic execution have negative addresses below a symbolic watermark (allocation freshness).
"""
from __future__ import annotations
import itertools
import z3
from z3 import (And, Or, Not, Implies, If, IntVal, BoolVal, Select, Store, IntSort, BoolSort, ArraySort, Function,
                Const, Datatype, StringSort, StringVal)

Val = Datatype("Val")
Val.declare("none")
Val.declare("boolv", ("b", BoolSort()))
Val.declare("intv", ("i", IntSort()))
Val.declare("ref", ("a", IntSort()))
Val = Val.create()
NONE = Val.none
AV = ArraySort(IntSort(), Val)          # Int -> Val
AB = ArraySort(Val, BoolSort())         # Val -> Bool   (dict domain)
AVV = ArraySort(Val, Val)               # Val -> Val    (dict values)

kind = Function("kind", IntSort(), IntSort())            # class tag of an address
truthy_ref = Function("truthy_ref", IntSort(), BoolSort())  # truthiness of an opaque object
strval = Function("strval", IntSort(), StringSort())     # content of a str object
py_eq = Function("py_eq", Val, Val, BoolSort())          # opaque == on objects (reflexive, see Exec.eq)
repr_of = Function("repr_of", Val, StringSort())         # repr()/str()/format() of an arbitrary object: total, opaque
id_of = Function("id_of", Val, IntSort())                # id(obj)
obj_of_id = Function("obj_of_id", IntSort(), Val)         # inverse of id_of on live objects (id is injective)

_ctr = itertools.count()


def fresh(prefix="v", sort=None):
    return Const(f"{prefix}!{next(_ctr)}", Val if sort is None else sort)


def fresh_name(prefix="f"):
    return f"{prefix}!{next(_ctr)}"


def fresh_int(prefix="n"):
    return Const(f"{prefix}!{next(_ctr)}", IntSort())


def mkint(x):
    return Val.intv(x if z3.is_expr(x) else IntVal(x))


def mkbool(x):
    return Val.boolv(x if z3.is_expr(x) else BoolVal(bool(x)))


# ----------------------------------------------------------------------------------------------------------------
# class table: name -> parent (single inheritance is enough for what the code tests with isinstance/except).
# Extra "virtual" memberships (abc registration) are listed in VIRTUAL.
CLASS_PARENT = {
    "object": None,
    # exceptions
    "BaseException": "object", "Exception": "BaseException",
    "KeyboardInterrupt": "BaseException", "GeneratorExit": "BaseException", "SystemExit": "BaseException",
    "OtherBaseException": "BaseException",
    "StopIteration": "Exception", "StopAsyncIteration": "Exception", "ArithmeticError": "Exception",
    "AssertionError": "Exception", "AttributeError": "Exception", "LookupError": "Exception",
    "IndexError": "LookupError", "KeyError": "LookupError", "RuntimeError": "Exception",
    "NotImplementedError": "RuntimeError", "TypeError": "Exception", "ValueError": "Exception",
    "ImportError": "Exception", "OSError": "Exception", "ExceptionGroup": "Exception",
    "OtherException": "Exception",
    # containers / builtins
    "tuple": "object", "list": "object", "deque": "object", "dict": "object", "str": "object", "bytes": "object",
    "set": "object", "range": "object", "UserSequence": "object", "function": "object", "code": "object",
    "frame": "object", "method": "object", "builtin_method": "object", "partial": "object", "classmethod": "object", "staticmethod": "object",
    "generator": "object", "coroutine": "object", "async_generator": "object", "module": "object",
    "type": "object", "lock": "object", "cell": "object", "other": "object", "weakref": "object",
    "thread": "object", "greenlet": "object", "mappingproxy": "object", "iterator": "object",
}
VIRTUAL = {
    # collections.abc.Sequence: registered/derived builtin members the code can meet
    "Sequence": ["tuple", "list", "deque", "str", "bytes", "range", "UserSequence"],
    "Mapping": ["dict", "mappingproxy", "IdentityDict"],
}
# python-level names (as written in source, last dotted component or full dotted name) -> kind names
CLASS_ALIASES = {
    "types.FrameType": "frame", "FrameType": "frame", "types.CoroutineType": "coroutine", "CoroutineType": "coroutine",
    "types.GeneratorType": "generator", "GeneratorType": "generator",
    "types.AsyncGeneratorType": "async_generator", "AsyncGeneratorType": "async_generator",
    "types.MethodType": "method", "MethodType": "method", "types.BuiltinMethodType": "builtin_method", "types.BuiltinFunctionType": "builtin_method",
    "types.FunctionType": "function", "FunctionType": "function",
    "types.CodeType": "code", "CodeType": "code", "functools.partial": "partial",
    "collections.abc.Sequence": "Sequence", "collections.deque": "deque", "threading.Thread": "thread",
}

_KINDS: dict = {}


def K(name: str) -> int:
    """integer tag of a class name (stable within a run)"""
    if name not in _KINDS:
        _KINDS[name] = len(_KINDS) + 1
    return _KINDS[name]


def kind_name(tag: int) -> str:
    for n, t in _KINDS.items():
        if t == tag:
            return n
    return f"<kind {tag}>"


def register_class(name: str, parent: str = "object"):
    CLASS_PARENT.setdefault(name, parent)
    K(name)


def subkinds(name: str):
    """all registered class names that are `name` or derive from it (including virtual members)"""
    name = CLASS_ALIASES.get(name, name)
    if name in VIRTUAL:
        out = []
        for m in VIRTUAL[name]:
            out += subkinds(m)
        return out
    if name not in CLASS_PARENT:
        register_class(name)
    out = [name]
    changed = True
    while changed:
        changed = False
        for c, par in CLASS_PARENT.items():
            if par in out and c not in out:
                out.append(c)
                changed = True
    return out


def is_kind(v, names):
    """v is a ref whose class is one of `names` or a subclass"""
    if isinstance(names, str):
        names = [names]
    ks = []
    for n in names:
        for s in subkinds(n):
            if s not in ks:
                ks.append(s)
    return And(Val.is_ref(v), Or([kind(Val.a(v)) == K(s) for s in ks]))


def is_exact_kind(v, name):
    return And(Val.is_ref(v), kind(Val.a(v)) == K(name))


CONTAINER_KINDS = ("tuple", "list", "deque", "UserSequence")
