"""pyvc.obligations — named proof obligations and their discharge (z3 API first, cvc5 / z3-4.8 CLI on unknown)."""
from __future__ import annotations
import os
import subprocess
import tempfile
import time
import z3
from z3 import Solver, Not, BoolVal
from .state import STATS

TIMEOUT_MS = int(os.environ.get("PYVC_TIMEOUT_MS", "60000"))     # typical obligations take milliseconds; the slowest seen under 4x contention ~ 5 s
SEED = int(os.environ.get("VERIF_SEED", "0") or 0)


class Obligation:
    __slots__ = ("name", "cls", "verdict", "ms", "backend", "model", "notes", "func", "smt2")

    def __init__(s, name, cls, verdict, ms, backend, model=None, notes=None, func=None, smt2=None):
        s.name, s.cls, s.verdict, s.ms, s.backend, s.model, s.notes, s.func, s.smt2 = \
            name, cls, verdict, ms, backend, model, notes or [], func, smt2

    def as_dict(s):
        return {"name": s.name, "class": s.cls, "verdict": s.verdict, "ms": round(s.ms, 1), "backend": s.backend,
                "function": s.func}


def _cli(cmd, smt2, timeout_s):
    with tempfile.NamedTemporaryFile("w", suffix=".smt2", delete=False, dir=os.environ.get("TMPDIR", "/tmp")) as f:
        f.write(smt2)
        fn = f.name
    try:
        out = subprocess.run(cmd + [fn], capture_output=True, text=True, timeout=timeout_s).stdout.strip().splitlines()
        return out[0].strip() if out else "unknown"
    except Exception:
        return "unknown"
    finally:
        try:
            os.unlink(fn)
        except OSError:
            pass


def discharge(pc, goal, axioms=(), want_model=True):
    """Is pc /\\ axioms ==> goal valid?  returns (verdict, ms, backend, model_or_None, smt2_or_None)
       verdict in PROVED | REFUTED | UNDECIDED.  Quantified `axioms` (background theory of spec functions) are kept
       out of path conditions and only added here."""
    so = Solver()
    so.set(timeout=TIMEOUT_MS)
    if SEED:
        so.set(random_seed=SEED)
    so.add(pc)
    for ax in axioms:
        so.add(ax)
    so.add(Not(goal))
    t = time.time()
    r = so.check()
    ms = (time.time() - t) * 1000
    STATS["obl_calls"] += 1
    STATS["obl_s"] += ms / 1000
    if r == z3.unsat:
        return "PROVED", ms, "z3-5.1(api)", None, None
    if r == z3.sat and not axioms:
        return "REFUTED", ms, "z3-5.1(api)", (so.model() if want_model else None), None
    # unknown, or sat in the presence of quantified axioms (a "model" of an incomplete instantiation is no refutation):
    smt2 = so.to_smt2()
    t = time.time()
    for backend, cmd in (("cvc5-1.0.3(cli)", ["/usr/bin/cvc5", "--tlimit=%d" % TIMEOUT_MS]),
                         ("z3-4.8.12(cli)", ["/usr/bin/z3", "-T:%d" % (TIMEOUT_MS // 1000)])):
        ans = _cli(cmd, smt2, TIMEOUT_MS / 1000 + 5)
        if ans == "unsat":
            return "PROVED", ms + (time.time() - t) * 1000, backend, None, None
        if ans == "sat" and not axioms:
            return "REFUTED", ms + (time.time() - t) * 1000, backend, None, smt2
    if r == z3.sat:
        # sat with axioms: candidate counter-model, reported as undecided-with-candidate (refuter decides)
        return "UNDECIDED", ms, "z3-5.1(api):sat-under-quantified-axioms", (so.model() if want_model else None), smt2
    return "UNDECIDED", ms + (time.time() - t) * 1000, "all:" + str(so.reason_unknown()), None, smt2
