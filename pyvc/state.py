"""pyvc.state — heap snapshots and symbolic paths."""
from __future__ import annotations
import time
import z3
from z3 import And, Or, Not, Implies, If, IntVal, BoolVal, Select, Store, IntSort, BoolSort, Array, Solver, simplify
from .values import *  # noqa


class Heap:
    """Immutable snapshot of the heap: per-field arrays, container bounds/elements, dict domains/values, watermark."""
    __slots__ = ("fields", "lo", "hi", "el", "dk", "dv", "dn", "alloc")

    def __init__(s, fields, lo, hi, el, dk, dv, dn, alloc):
        s.fields, s.lo, s.hi, s.el, s.dk, s.dv, s.dn, s.alloc = fields, lo, hi, el, dk, dv, dn, alloc

    def copy(s):
        return Heap(dict(s.fields), s.lo, s.hi, s.el, s.dk, s.dv, s.dn, s.alloc)

    # --- raw reads (no schema instantiation)
    def field(s, name):
        if name not in s.fields:
            s.fields[name] = Array(f"F_{name}", IntSort(), Val)
        return s.fields[name]

    def getf(s, v, name):
        return Select(s.field(name), Val.a(v))

    def lo_(s, v):
        return Select(s.lo, Val.a(v))

    def hi_(s, v):
        return Select(s.hi, Val.a(v))

    def length(s, v):
        return Select(s.hi, Val.a(v)) - Select(s.lo, Val.a(v))

    def raw(s, v, j):
        """element at ABSOLUTE index j"""
        return Select(Select(s.el, Val.a(v)), j)

    def at(s, v, k):
        """k-th element from the left (raw)"""
        return Select(Select(s.el, Val.a(v)), Select(s.lo, Val.a(v)) + k)

    def dhas(s, d, k):
        return Select(Select(s.dk, Val.a(d)), k)

    def dget(s, d, k):
        return Select(Select(s.dv, Val.a(d)), k)

    def dlen(s, d):
        return Select(s.dn, Val.a(d))


BASE_EL = Array("H_el", IntSort(), AV)
BASE_DV = Array("H_dv", IntSort(), AVV)


def initial_heap():
    return Heap({}, Array("H_lo", IntSort(), IntSort()), Array("H_hi", IntSort(), IntSort()),
                Array("H_el", IntSort(), AV), Array("H_dk", IntSort(), AB), Array("H_dv", IntSort(), AVV),
                Array("H_dn", IntSort(), IntSort()), IntVal(0))


class SV:
    """A symbolic value: z3 term `t` of sort Val plus optional static knowledge used for dispatch.
       static keys: cls (class name the value IS), fn (FuncInfo), model (callable model), tup (list[SV]),
       pyconst (python constant), special (tuple describing a lazy iterator etc.), mod (module name),
       bound (receiver SV, method name)."""
    __slots__ = ("t", "st")

    def __init__(s, t, **st):
        s.t = t
        s.st = st

    def get(s, k, d=None):
        return s.st.get(k, d)

    def __repr__(s):
        return f"SV({s.t}, {s.st})" if s.st else f"SV({s.t})"


class Path:
    def __init__(s):
        s.pc = []
        s.env = {}
        s.h = initial_heap()
        s.schemas = []       # (address term, fn(path, j_abs) -> Bool)
        s.done = set()
        s.dschemas = []      # (dict address term, fn(path, key) -> Bool): facts about every key of a dict
        s.depth = 0
        s.yielded = []       # SVs yielded so far (generator under verification)
        s.ghost = {}         # free-form ghost state (immutable values or copy-on-write lists)
        s.trace = []         # ghost call trace: tuples (name, args, result|exc)
        s.frames = []        # active loop write frames: list of dicts {fields:set[(name, addr)], conts:list[addr term], alloc0}
        s.notes = []         # human readable breadcrumbs (branch decisions) for reports
        s.consts = {}        # interned python constants -> SV
        s.unsat = False
        s.par_on = False     # partitioning starts at a designated loop cut (unit option par_after)
        s.lineage = ()       # unique identity of this path in the exploration tree (assigned at clone time)
        s._n = 0
        s.bits = ()          # decisions taken at the first K two-way forks (partitioned parallel exploration)

    def clone(s):
        c = Path.__new__(Path)
        c.pc = list(s.pc)
        c.env = dict(s.env)
        c.h = s.h.copy()
        c.schemas = list(s.schemas)
        c.done = set(s.done)
        c.dschemas = list(s.dschemas)
        c.depth = s.depth
        c.yielded = list(s.yielded)
        c.ghost = dict(s.ghost)
        c.trace = list(s.trace)
        c.frames = list(s.frames)
        c.notes = list(s.notes)
        c.consts = s.consts       # shared on purpose: constants are global
        c.unsat = s.unsat
        c.bits = s.bits
        s._n += 1
        c.lineage = s.lineage + (s._n,)
        c._n = 0
        c.par_on = s.par_on
        return c

    # ------------------------------------------------------------------ solver
    def assume(s, *bs):
        for b in bs:
            s.pc.append(b)

    def check_sat(s, extra=(), timeout=10000):
        so = Solver()
        so.set(timeout=timeout)
        so.add(s.pc)
        for e in extra:
            so.add(e)
        t = time.time()
        r = so.check()
        dt = time.time() - t
        STATS["feas_calls"] += 1
        STATS["feas_s"] += dt
        return r, so

    def feasible(s, extra=()):
        r, _ = s.check_sat(extra)
        return r != z3.unsat

    # ------------------------------------------------------------------ heap
    def snap(s):
        return s.h.copy()

    def getf(s, v, name):
        s.wf_field(v, name)
        return s.h.getf(v, name)

    # well-formedness of the INITIAL heap: whatever a pre-existing object (address >= 0) refers to is pre-existing too.
    # Instantiated at every read (quantifier-free), never asserted as a forall.
    def wf_field(s, v, name):
        a = simplify(Val.a(v))
        key = ("wf", name, eid(a))
        if key in s.done:
            return
        s.done.add(key)
        r = Select(Array(f"F_{name}", IntSort(), Val), a)
        s.pc.append(Implies(a >= 0, Implies(Val.is_ref(r), Val.a(r) >= 0)))

    def wf_elem(s, v, j):
        a = simplify(Val.a(v))
        key = ("wfe", eid(a), eid(j))
        if key in s.done:
            return
        s.done.add(key)
        r = Select(Select(BASE_EL, a), j)
        s.pc.append(Implies(a >= 0, Implies(Val.is_ref(r), Val.a(r) >= 0)))

    def setf(s, v, name, val):
        s.h.fields[name] = Store(s.h.field(name), Val.a(v), val)

    def lo(s, v):
        return s.h.lo_(v)

    def hi(s, v):
        return s.h.hi_(v)

    def length(s, v):
        return s.h.length(v)

    def add_schema(s, v, fn):
        s.schemas.append((simplify(Val.a(v)), fn))

    def read(s, v, j, H=None):
        """element at absolute index j of container v in heap H (default current); instantiates schemas on v at j"""
        H = H or s.h
        a = simplify(Val.a(v))
        j = simplify(j) if z3.is_expr(j) else IntVal(j)
        s.wf_elem(v, j)
        if s.depth < 4:
            for idx, (a2, fn) in enumerate(list(s.schemas)):
                if a2.eq(a) and (idx, eid(j)) not in s.done:
                    s.done.add((idx, eid(j)))
                    s.depth += 1
                    try:
                        s.pc.append(fn(s, j))
                    finally:
                        s.depth -= 1
        return H.raw(v, j)

    def elem(s, v, k, H=None):
        """k-th element from the left"""
        H = H or s.h
        k = k if z3.is_expr(k) else IntVal(k)
        return s.read(v, H.lo_(v) + k, H)

    def new_addr(s, kindname):
        s.h.alloc = simplify(s.h.alloc + 1)
        a = simplify(-s.h.alloc)
        if kindname is not None:
            s.pc.append(kind(a) == K(kindname))
        return a

    def new_obj(s, kindname, **fields):
        a = s.new_addr(kindname)
        v = Val.ref(a)
        for f, val in fields.items():
            s.setf(v, f, val)
        return v

    def new_seq(s, kindname, elems=None, length=None, arr=None):
        """allocate a container.  elems: list of z3 Val terms (concrete length) or (length, arr) symbolic"""
        a = s.new_addr(kindname)
        if elems is not None:
            arrv = z3.K(IntSort(), NONE)
            for i, e in enumerate(elems):
                arrv = Store(arrv, i, e)
            s.h.lo = Store(s.h.lo, a, 0)
            s.h.hi = Store(s.h.hi, a, len(elems))
            s.h.el = Store(s.h.el, a, arrv)
        else:
            s.h.lo = Store(s.h.lo, a, 0)
            s.h.hi = Store(s.h.hi, a, length)
            s.h.el = Store(s.h.el, a, arr)
        return Val.ref(a)

    def new_dict(s):
        a = s.new_addr("dict")
        s.h.dk = Store(s.h.dk, a, z3.K(Val, BoolVal(False)))
        s.h.dv = Store(s.h.dv, a, z3.K(Val, NONE))
        s.h.dn = Store(s.h.dn, a, 0)
        return Val.ref(a)

    # container mutation (the caller has already established non-emptiness where needed)
    def seq_append(s, v, x):
        a = Val.a(v)
        hi = Select(s.h.hi, a)
        s.h.el = Store(s.h.el, a, Store(Select(s.h.el, a), hi, x))
        s.h.hi = Store(s.h.hi, a, hi + 1)

    def seq_appendleft(s, v, x):
        a = Val.a(v)
        lo = Select(s.h.lo, a)
        s.h.el = Store(s.h.el, a, Store(Select(s.h.el, a), lo - 1, x))
        s.h.lo = Store(s.h.lo, a, lo - 1)

    def seq_pop(s, v):
        a = Val.a(v)
        hi = Select(s.h.hi, a)
        x = s.read(v, hi - 1)
        s.h.hi = Store(s.h.hi, a, hi - 1)
        return x

    def seq_popleft(s, v):
        a = Val.a(v)
        lo = Select(s.h.lo, a)
        x = s.read(v, lo)
        s.h.lo = Store(s.h.lo, a, lo + 1)
        return x

    def havoc_seq(s, v, tag="hv"):
        a = Val.a(v)
        s.h.lo = Store(s.h.lo, a, fresh_int(tag + "_lo"))
        s.h.hi = Store(s.h.hi, a, fresh_int(tag + "_hi"))
        s.h.el = Store(s.h.el, a, fresh(tag + "_el", AV))
        s.pc.append(s.h.length(v) >= 0)

    def havoc_dict(s, v, tag="hvd"):
        a = Val.a(v)
        s.h.dk = Store(s.h.dk, a, fresh(tag + "_dk", AB))
        s.h.dv = Store(s.h.dv, a, fresh(tag + "_dv", AVV))
        n = fresh_int(tag + "_dn")
        s.h.dn = Store(s.h.dn, a, n)
        s.pc.append(n >= 0)

    def havoc_field(s, v, name, tag="hvf"):
        nv = fresh(tag + "_" + name)
        s.setf(v, name, nv)
        return nv

    def bump_alloc(s):
        old = s.h.alloc
        s.h.alloc = fresh_int("alloc")
        s.pc.append(s.h.alloc >= old)

    # dicts
    def add_dschema(s, d, fn):
        s.dschemas.append((simplify(Val.a(d)), fn))

    def dinst(s, d, k):
        """instantiate the per-key facts of dict d at key k"""
        a = simplify(Val.a(d))
        k = simplify(k)
        if s.depth < 4:
            for idx, (a2, fn) in enumerate(list(s.dschemas)):
                if a2.eq(a) and ("d", idx, eid(k)) not in s.done:
                    s.done.add(("d", idx, eid(k)))
                    s.depth += 1
                    try:
                        s.pc.append(fn(s, k))
                    finally:
                        s.depth -= 1

    def dhas(s, d, k, H=None):
        s.dinst(d, k)
        return (H or s.h).dhas(d, k)

    def dget(s, d, k, H=None):
        s.dinst(d, k)
        a = simplify(Val.a(d))
        key = ("wfd", eid(a), eid(simplify(k)))
        if key not in s.done:
            s.done.add(key)
            r = Select(Select(BASE_DV, a), k)
            s.pc.append(Implies(a >= 0, Implies(Val.is_ref(r), Val.a(r) >= 0)))
        return (H or s.h).dget(d, k)

    def dlen(s, d, H=None):
        return (H or s.h).dlen(d)

    def dset(s, d, k, v):
        a = Val.a(d)
        had = s.h.dhas(d, k)
        s.h.dn = Store(s.h.dn, a, Select(s.h.dn, a) + If(had, 0, 1))
        s.h.dk = Store(s.h.dk, a, Store(Select(s.h.dk, a), k, BoolVal(True)))
        s.h.dv = Store(s.h.dv, a, Store(Select(s.h.dv, a), k, v))

    def ddel(s, d, k):
        a = Val.a(d)
        s.h.dn = Store(s.h.dn, a, Select(s.h.dn, a) - 1)
        s.h.dk = Store(s.h.dk, a, Store(Select(s.h.dk, a), k, BoolVal(False)))

    def note(s, txt):
        s.notes.append(txt)


_KEEP = []      # z3 ast ids are only unique while the ast is alive: keep every expression whose id is used as a key


def eid(e):
    _KEEP.append(e)
    return e.get_id()


STATS = {"feas_calls": 0, "feas_s": 0.0, "obl_calls": 0, "obl_s": 0.0}
