"""pyvc.unit — verification units: one real function (by qualified name) + its sidecar contract, run to obligations."""
from __future__ import annotations
import time
import traceback
import z3
from z3 import BoolVal
from .values import *  # noqa
from .state import Path, SV, STATS
from .exec import Unsupported, Out, NONE_SV
from .stmts import StmtMixin, Inv, InvCtx
from .obligations import Obligation
from . import source

DEFAULT_CFG = dict(version=(3, 12, 1, "final", 0), impl="cpython")


class Executor(StmtMixin):
    pass


class Clause:
    def __init__(s, name, fn, on=("return", "normal")):
        s.name, s.fn, s.on = name, fn, on


class PostCtx:
    def __init__(s, ex, out, H0, args, pre):
        s.ex, s.out, s.p, s.H0, s.args, s.pre = ex, out, out.path, H0, args, pre
        s.H = out.path.snap()
        s.kind = "return" if out.kind in ("return", "normal") else out.kind
        s.result = (out.value if out.kind == "return" else NONE_SV) if s.kind == "return" else None
        s.exc = out.value if out.kind == "raise" else None
        s.env = out.path.env
        s.yielded = out.path.yielded
        s.ghost = out.path.ghost


class Unit:
    def __init__(s, name, func, setup, post=(), cfg=None, **kw):
        s.name, s.func, s.setup, s.post = name, func, setup, list(post)
        s.cfg = dict(DEFAULT_CFG, **(cfg or {}))
        s.bindings = kw.pop("bindings", {})
        s.methods = kw.pop("methods", {})
        s.props = kw.pop("props", {})
        s.setters = kw.pop("setters", {})
        s.ctors = kw.pop("ctors", {})
        s.contracts = kw.pop("contracts", {})
        s.inline = set(kw.pop("inline", ()))
        s.invariants = kw.pop("invariants", {})
        s.unroll = kw.pop("unroll", {})
        s.options = kw.pop("options", {})
        s.axioms = kw.pop("axioms", [])
        s.model_views = kw.pop("model_views", {})
        s.known_classes = set(kw.pop("known_classes", ()))
        s.star_arity = kw.pop("star_arity", {})
        s.site_labels = kw.pop("site_labels", {})
        s.elem_types = kw.pop("elem_types", {})
        s.tuple_types = kw.pop("tuple_types", {})
        s.field_types = kw.pop("field_types", {})
        s.decorators = kw.pop("decorators", {})
        s.opaque_call = kw.pop("opaque_call", None)
        s.on_yield = kw.pop("on_yield", None)
        s.before_stmt = kw.pop("before_stmt", None)
        s.body_of = kw.pop("body_of", None)     # fn(FuncInfo) -> list of statements (default: whole body)
        s.allowed_raise = kw.pop("allowed_raise", None)   # fn(ctx) -> Bool: which exceptions may escape
        s.assumptions = kw.pop("assumptions", [])
        s.props_served = kw.pop("props_served", [])
        if kw:
            raise TypeError(f"unknown Unit options {list(kw)}")
        for c in list(s.known_classes):
            register_class(c)


class UnitResult:
    def __init__(s, unit):
        s.unit = unit
        s.obls = []
        s.paths = 0
        s.outcomes = {}
        s.error = None         # Unsupported / anchor-lost message  => undecided
        s.crash = None         # traceback => checker crash
        s.wall = 0.0
        s.func_hash = None
        s.canary = None


def run_unit(unit) -> UnitResult:
    res = UnitResult(unit)
    t0 = time.time()
    try:
        fi = source.get_func(unit.func)
        res.func_hash = fi.source_hash()
        ex = Executor(unit)
        p = Path()
        ex.func_stack = [fi]
        args = unit.setup(ex, p) or {}
        H0 = p.snap()
        pre = p.clone()
        body = unit.body_of(fi) if unit.body_of else fi.node.body
        outs = ex.block(body, p)
        res.paths = len(outs)
        reached_normal = False
        for o in outs:
            res.outcomes[o.kind] = res.outcomes.get(o.kind, 0) + 1
            ctx = PostCtx(ex, o, H0, args, pre)
            if ctx.kind == "return":
                reached_normal = True
            if o.kind == "raise":
                allowed = unit.allowed_raise(ctx) if unit.allowed_raise else BoolVal(False)
                site = o.value.get("site") or "?"
                ex.oblig(f"{unit.name}.raises_only_allowed", "clause", o.path, allowed)
                if ex.obls[-1].verdict != "PROVED":
                    ex.obls[-1].notes.append(f"escaping exception raised at {site}")
            elif o.kind in ("break", "continue"):
                raise Unsupported(f"{o.kind} outside loop")
            for c in unit.post:
                if ctx.kind in c.on or "any" in c.on:
                    g = c.fn(ctx)
                    if g is not None:
                        ex.oblig(c.name, "clause", o.path, g)
        # vacuity canary: some outcome must be reachable under the precondition (an `assert False` there is refuted)
        res.canary = any(o.path.feasible() for o in outs[:3]) if outs else False
        res.obls = ex.obls
        if not unit.allowed_raise and not any(ob.name.endswith("raises_only_allowed") for ob in ex.obls):
            # no path raises: record the discharged exceptional postcondition (every raising site was pruned as infeasible)
            res.obls.append(Obligation(f"{unit.name}.raises_only_allowed", "clause", "PROVED", 0.0,
                                       "path-enumeration(no raising outcome feasible)", func=fi.name))
    except Unsupported as e:
        res.error = f"unsupported: {e}"
        res.obls = getattr(locals().get("ex"), "obls", [])
    except KeyError as e:
        if "contract anchor lost" in str(e):
            res.error = str(e)
        else:
            res.crash = traceback.format_exc()
    except Exception:
        res.crash = traceback.format_exc()
    res.wall = time.time() - t0
    return res
