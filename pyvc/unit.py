"""pyvc.unit — verification units: one real function (by qualified name) + its sidecar contract, run to obligations."""
from __future__ import annotations
import time
import traceback
import z3
from z3 import BoolVal
from .values import *  # noqa
from .state import Path, SV, STATS
from .exec import Unsupported, Out, NONE_SV
from .stmts import StmtMixin, Inv, InvCtx
from .obligations import Obligation
from . import source
from . import source

DEFAULT_CFG = dict(version=(3, 12, 1, "final", 0), impl="cpython")


class Executor(StmtMixin):
    pass


class Clause:
    def __init__(s, name, fn, on=("return", "normal")):
        s.name, s.fn, s.on = name, fn, on


class PostCtx:
    def __init__(s, ex, out, H0, args, pre):
        s.ex, s.out, s.p, s.H0, s.args, s.pre = ex, out, out.path, H0, args, pre
        s.H = out.path.snap()
        s.kind = "return" if out.kind in ("return", "normal") else out.kind
        s.result = (out.value if out.kind == "return" else NONE_SV) if s.kind == "return" else None
        s.exc = out.value if out.kind == "raise" else None
        from .stmts import AnchorEnv
        s.env = AnchorEnv(out.path.env)
        s.yielded = out.path.yielded
        s.ghost = out.path.ghost


class Unit:
    def __init__(s, name, func, setup, post=(), cfg=None, **kw):
        s.name, s.func, s.setup, s.post = name, func, setup, list(post)
        s.cfg = dict(DEFAULT_CFG, **(cfg or {}))
        s.bindings = kw.pop("bindings", {})
        s.methods = kw.pop("methods", {})
        s.props = kw.pop("props", {})
        s.setters = kw.pop("setters", {})
        s.ctors = kw.pop("ctors", {})
        s.contracts = kw.pop("contracts", {})
        s.inline = set(kw.pop("inline", ()))
        s.invariants = kw.pop("invariants", {})
        s.unroll = kw.pop("unroll", {})
        s.options = kw.pop("options", {})
        s.axioms = kw.pop("axioms", [])
        s.model_views = kw.pop("model_views", {})
        s.known_classes = set(kw.pop("known_classes", ()))
        s.star_arity = kw.pop("star_arity", {})
        s.site_labels = kw.pop("site_labels", {})
        s.elem_types = kw.pop("elem_types", {})
        s.tuple_types = kw.pop("tuple_types", {})
        s.field_types = kw.pop("field_types", {})
        s.decorators = kw.pop("decorators", {})
        s.opaque_call = kw.pop("opaque_call", None)
        s.on_yield = kw.pop("on_yield", None)
        s.before_stmt = kw.pop("before_stmt", None)
        s.body_of = kw.pop("body_of", None)     # fn(FuncInfo) -> list of statements (default: whole body)
        s.allowed_raise = kw.pop("allowed_raise", None)   # fn(ctx) -> Bool: which exceptions may escape
        s.assumptions = kw.pop("assumptions", [])
        s.props_served = kw.pop("props_served", [])
        if kw:
            raise TypeError(f"unknown Unit options {list(kw)}")
        for c in list(s.known_classes):
            register_class(c)


class UnitResult:
    def __init__(s, unit):
        s.unit = unit
        s.never_evaluated = None   # post clauses no explorer ever evaluated (a clause whose `on` kinds never occur decides nothing)
        s.obls = []
        s.paths = 0
        s.outcomes = {}
        s.error = None         # Unsupported / anchor-lost message  => undecided
        s.crash = None         # traceback => checker crash
        s.wall = 0.0
        s.func_hash = None
        s.canary = None


def _explore(unit, par):
    """symbolic exploration of the unit (of this process's subtree when work sharing is on); returns a picklable dict"""
    out = dict(obls=[], paths=0, outcomes={}, error=None, crash=None, canary=None, func_hash=None)
    ex = None
    _t0 = time.time()
    try:
        fi = source.get_func(unit.func)
        out["func_hash"] = fi.source_hash()
        exp = unit.options.get("expect_loops")
        if exp is not None:
            got = sorted(fi.loop_keys.values())
            if got != sorted(exp):
                raise KeyError(f"contract anchor lost: loop structure of {fi.name} changed (expected {sorted(exp)}, found {got}); "
                               "the loop invariants of the sidecar contract no longer correspond to the code")
        ex = Executor(unit)
        if par is not None:
            ex.par_k, ex.sem = 1, par[0]
        p = Path()
        p.par_on = not unit.options.get("par_after")
        ex.func_stack = [fi]
        args = unit.setup(ex, p) or {}
        # parameters the contract does not know about (added by a change to the code): bound to their declared default,
        # or left arbitrary when they have none
        a_ = fi.node.args
        pos_ = list(a_.posonlyargs) + list(a_.args)
        dflt_ = dict(zip([x.arg for x in pos_][len(pos_) - len(a_.defaults):], a_.defaults))
        dflt_.update({x.arg: d for x, d in zip(a_.kwonlyargs, a_.kw_defaults) if d is not None})
        for prm in pos_ + list(a_.kwonlyargs):
            if prm.arg not in p.env:
                if prm.arg in dflt_:
                    p.env[prm.arg] = ex.eval_default(p, dflt_[prm.arg], {})
                else:
                    p.env[prm.arg] = SV(fresh("param_" + prm.arg))
        H0 = p.snap()
        pre = p.clone()
        body = unit.body_of(fi) if unit.body_of else fi.node.body
        outs = ex.block(body, p)
        reached = False
        evaluated = set()
        out["never_evaluated"] = []
        for o in outs:
            if not ex.owns(o.path):
                continue
            out["paths"] += 1
            out["outcomes"][o.kind] = out["outcomes"].get(o.kind, 0) + 1
            ctx = PostCtx(ex, o, H0, args, pre)
            if o.kind == "raise":
                allowed = unit.allowed_raise(ctx) if unit.allowed_raise else BoolVal(False)
                site = o.value.get("site") or "?"
                ex.oblig(f"{unit.name}.raises_only_allowed", "clause", o.path, allowed)
                if ex.obls and ex.obls[-1].verdict != "PROVED":
                    ex.obls[-1].notes.append(f"escaping exception raised at {site}")
            elif o.kind in ("break", "continue"):
                raise Unsupported(f"{o.kind} outside loop")
            for c in unit.post:
                if ctx.kind in c.on or "any" in c.on or (ctx.kind == "return" and "normal" in c.on):
                    g = c.fn(ctx)
                    evaluated.add(c.name)
                    if g is not None:
                        ex.oblig(c.name, "clause", o.path, g)
            if not reached and o.path.feasible():
                reached = True
        out["canary"] = reached
        out["never_evaluated"] = [c.name for c in unit.post if c.name not in evaluated]
    except Unsupported as e:
        out["error"] = f"unsupported: {e}"
    except KeyError as e:
        if "contract anchor lost" in str(e):
            out["error"] = str(e).strip('"')
        else:
            out["crash"] = traceback.format_exc()
    except Exception as e:
        # contract code (a clause, an invariant, a setup helper) failed.  On the code the contracts were written and locked
        # for, that is a defect of the harness (crash, exit 3).  On a function whose source CHANGED since then it usually
        # means that a ghost value the contract expects (a loop's exit index, a comprehension's filter map) no longer exists:
        # the contract does not fit the new code - undecided, like any other lost anchor.
        changed = None
        try:
            changed = source.source_changed(unit.func)
        except Exception:
            pass
        if changed:
            out["error"] = (f"contract anchor lost: contract code for {unit.func} raised {type(e).__name__}: {e} on source that changed "
                            "since the contracts were locked (a ghost value the contract relies on is no longer produced)")
        else:
            out["crash"] = traceback.format_exc()
    if ex is not None:
        out["obls"] = [(o.name, o.cls, o.verdict, o.ms, o.backend, o.model, o.notes, o.func, o.smt2)
                       for o in ex.obls[ex.obls_base:]]
    out["stats"] = dict(STATS)
    import os
    out["worker_wall"] = (os.getpid(), round(time.time() - _t0, 1), len(out["obls"]))
    if ex is not None and par is not None:
        if ex.is_child:
            par[0].release()                 # give the slot back before waiting for own descendants
        for pid in ex.kids:
            try:
                os.waitpid(pid, 0)
            except ChildProcessError:
                pass
        if ex.is_child:
            import pickle
            with open(os.path.join(par[1], f"{os.getpid()}.pkl"), "wb") as f:
                pickle.dump(out, f)
            os._exit(0)
    return out


def run_unit(unit) -> UnitResult:
    """Runs the unit.  With options['par_k'] = N>0 the path tree is explored by up to N processes: at a two-way fork a
       free slot is used to fork() a process that takes over the subtree of one branch (dynamic work sharing); every
       process writes the obligations of its own subtree to a spool file and the root merges them."""
    import os
    import pickle
    import tempfile
    import shutil
    import multiprocessing as mp
    res = UnitResult(unit)
    t0 = time.time()
    N = int(unit.options.get("par_k", 0) or 0)
    if os.environ.get("PYVC_SERIAL"):
        N = 0
    parts = []
    if N == 0:
        parts.append(_explore(unit, None))
    else:
        spool = tempfile.mkdtemp(prefix="pyvc_spool_", dir=os.environ.get("TMPDIR", "/tmp"))
        sem = mp.get_context("fork").Semaphore(max(1, N - 1))
        root_pid = os.getpid()
        try:
            out = _explore(unit, (sem, spool, root_pid))      # forked explorers never return from here
            parts.append(out)
            for fn in sorted(os.listdir(spool)):
                with open(os.path.join(spool, fn), "rb") as f:
                    parts.append(pickle.load(f))
        finally:
            if os.getpid() == root_pid:
                shutil.rmtree(spool, ignore_errors=True)
    for part in parts:
        res.func_hash = res.func_hash or part["func_hash"]
        res.paths += part["paths"]
        for k, v in part["outcomes"].items():
            res.outcomes[k] = res.outcomes.get(k, 0) + v
        res.error = res.error or part["error"]
        res.crash = res.crash or part["crash"]
        res.canary = bool(res.canary) or bool(part["canary"])
        res.obls += [Obligation(*t) for t in part["obls"]]
        ne = set(part.get("never_evaluated", []))
        res.never_evaluated = ne if res.never_evaluated is None else (res.never_evaluated & ne)
        for k, v in part.get("stats", {}).items():
            if part is parts[0]:
                STATS[k] = v
            else:
                STATS[k] = STATS.get(k, 0) + v
    if os.environ.get("PYVC_WORKERS"):
        print("explorers", len(parts), sorted((p_.get("worker_wall") for p_ in parts), key=lambda x: -x[1])[:8])
    if not res.error and not res.crash and not unit.allowed_raise and \
            not any(ob.name.endswith("raises_only_allowed") for ob in res.obls):
        # no path raises: record the discharged exceptional postcondition (every raising site was pruned as infeasible)
        res.obls.append(Obligation(f"{unit.name}.raises_only_allowed", "clause", "PROVED", 0.0,
                                   "path-enumeration(no raising outcome feasible)", func=unit.func))
    res.wall = time.time() - t0
    return res
