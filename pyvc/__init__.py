"""pyvc — a function-modular verification-condition generator over the real source ASTs of /repo."""
