"""pyvc.stmts — statements: control flow, exceptions, loops cut by invariants, with-statements, write barrier."""
from __future__ import annotations
import ast
import z3
from z3 import And, Or, Not, Implies, If, IntVal, BoolVal, Select, Store
from .values import *  # noqa
from .state import SV
from .exec import Unsupported, Out, NONE_SV, sv_int, sv_bool, num
from .calls import CallMixin, Star
from . import source


class AnchorEnv(dict):
    """environment view handed to contracts: a local the contract names but the code no longer binds is a lost anchor
    (undecided), not a checker crash"""
    def __missing__(s, k):
        raise KeyError(f"contract anchor lost: the contract refers to local `{k}`, which this code does not bind here")


def _walk_no_loops(st):
    """walk a statement without descending into nested loops or function definitions"""
    yield st
    for c in ast.iter_child_nodes(st):
        if isinstance(c, (ast.For, ast.AsyncFor, ast.While, ast.FunctionDef, ast.AsyncFunctionDef, ast.Lambda, ast.ClassDef)):
            continue
        yield from _walk_no_loops(c)


class InvCtx:
    """what an invariant / clause function gets to look at"""
    def __init__(s, ex, p, H0, env0, k=None, seq=None, seqH=None, extra=None):
        s.ex, s.p, s.H0, s.env0, s.k, s.seq, s.seqH, s.extra = ex, p, H0, env0, k, seq, seqH, extra
        s.H = p.snap()
        s.env = AnchorEnv(p.env)
        s.env0 = AnchorEnv(env0) if env0 is not None else env0

    def v(s, name):
        return s.env[name].t

    def v0(s, name):
        return s.env0[name].t


class Inv:
    def __init__(s, name, qf=None, foralls=(), conts=(), dicts=(), fields=(), vars=(), var_types=None, setup=None,
                 ghost_havoc=None, axioms=(), defs=None, steps=(), header=None, dforalls=()):
        s.dforalls = list(dforalls)  # [(dict name/resolver, fn(ctx, path, key) -> Bool)]: per-key facts of a dict (checked on a fresh key)
        s.name, s.qf, s.foralls, s.conts, s.dicts, s.fields, s.vars = name, qf, list(foralls), list(conts), list(dicts), list(fields), list(vars)
        s.var_types = var_types or {}
        s.setup = setup            # fn(ctx) run once at loop entry (may record ghost values in ctx.extra)
        s.ghost_havoc = ghost_havoc  # fn(ctx) -> None: havoc ghost state carried in p.ghost
        s.axioms = list(axioms)
        s.header = header          # text that must occur in the loop header (anchor check: the invariant belongs to THIS loop)
        s.steps = list(steps)      # [(name, fn(ctx) -> Bool|None)]: transition clauses checked at the end of each iteration
        s.defs = defs              # fn(ctx) -> Bool: defining instances of ghost spec functions, ASSUMED at the loop head


class StmtMixin(CallMixin):
    # ------------------------------------------------------------------ blocks
    def block(s, stmts, p):
        outs = [Out("normal", p)]
        for st in stmts:
            nxt = []
            for o in outs:
                if o.kind != "normal":
                    nxt.append(o)
                    continue
                nxt += s.stmt(st, o.path)
            outs = nxt
            if len(outs) > s.unit.options.get("max_paths", 4000):
                raise Unsupported("path explosion")
        return outs

    def stmt(s, n, p):
        if s.root_bits is not None and not s.active(p):
            return []
        m = getattr(s, "s_" + type(n).__name__, None)
        if m is None:
            raise Unsupported(f"statement {type(n).__name__} @ line {n.lineno}")
        hook = s.unit.before_stmt
        if hook is not None:
            hook(s, n, p)
        return m(n, p)

    def lift(s, results, k=None):
        outs = []
        for st, p1, v in results:
            if st != "ok":
                outs.append(Out("raise", p1, v))
            elif k:
                outs += k(p1, v)
            else:
                outs.append(Out("normal", p1))
        return outs

    # ------------------------------------------------------------------ simple statements
    def s_Expr(s, n, p):
        if isinstance(n.value, ast.Constant):
            return [Out("normal", p)]         # docstring
        return s.lift(s.ev(n.value, p))

    def s_Pass(s, n, p):
        return [Out("normal", p)]

    def s_Import(s, n, p):
        return [Out("normal", p)]             # names resolve through the unit's bindings

    s_ImportFrom = s_Import

    def s_Global(s, n, p):
        g = set(p.ghost.get("$globals", ()))
        p.ghost["$globals"] = tuple(sorted(g | set(n.names)))
        return [Out("normal", p)]

    def s_Nonlocal(s, n, p):
        return [Out("normal", p)]

    def s_Break(s, n, p):
        return [Out("break", p)]

    def s_Continue(s, n, p):
        return [Out("continue", p)]

    def s_Return(s, n, p):
        if n.value is None:
            return [Out("return", p, NONE_SV)]
        return s.lift(s.ev(n.value, p), lambda p1, v: [Out("return", p1, v)])

    def s_FunctionDef(s, n, p):
        fi = None
        if s.func_stack:
            mod = source.load_module(s.func_stack[-1].module)
            for q, f in mod.funcs.items():
                if f.node is n:
                    fi = f
        if fi is None:
            raise Unsupported(f"nested def {n.name} not indexed")
        fv = SV(fresh("fn_" + n.name), fn=fi, closure=dict(p.env), name=n.name)
        if n.decorator_list:
            deco = s.unit.decorators.get(fi.name)
            if deco is None:
                raise Unsupported(f"decorated nested def {fi.name} (no decorator model)")
            return s.lift(deco(s, p, fv, n), lambda p1, v: (p1.env.__setitem__(n.name, v), [Out("normal", p1)])[1])
        p.env[n.name] = fv
        return [Out("normal", p)]

    def s_Assert(s, n, p):
        if source.static_test(n.test, s.cfg) is True:
            return [Out("normal", p)]
        def k(p1, v):
            t, f = s.fork(p1, s.truthy(p1, v))
            outs = []
            if t is not None:
                outs.append(Out("normal", t))
            if f is not None:
                outs.append(Out(*s.raise_new(f, "AssertionError", site=f"assert[{ast.unparse(n.test)[:60]}]")))
            return outs
        return s.lift(s.ev(n.test, p), k)

    def s_Raise(s, n, p):
        if n.exc is None:
            e = p.env.get("$exc")
            if e is None:
                raise Unsupported("bare raise outside handler")
            return [Out("raise", p, e)]
        def k(p1, v):
            if v.get("cls"):
                e = p1.new_obj(v.get("cls"))
                v = SV(e, ty=v.get("cls"))
            p1.note(f"raise {v.get('ty') or 'value'} @ line {n.lineno}")
            if not any(v.t.eq(x) for x in p1.ghost.get("raised", ())):
                p1.ghost["raised"] = p1.ghost.get("raised", ()) + (v.t,)
            v.st.setdefault("site", f"raise@{s.site_label(n)}")
            return [Out("raise", p1, v)]
        return s.lift(s.ev(n.exc, p), k)

    # ------------------------------------------------------------------ assignment
    def assign(s, tgt, v, p):
        if isinstance(tgt, ast.Name):
            if tgt.id in p.ghost.get("$globals", ()):
                mod = s.unit.bindings.get("$module")
                if mod is None:
                    raise Unsupported("assignment to module global without $module binding")
                s.write_barrier(p, ("field", tgt.id, mod.t), tgt)
                p.setf(mod.t, tgt.id, v.t)
                return [Out("normal", p)]
            p.env[tgt.id] = v
            return [Out("normal", p)]
        if isinstance(tgt, ast.Attribute):
            def k(p1, o):
                setter = s.unit.setters.get((o.get("ty"), tgt.attr))
                if setter is not None:
                    return s.lift(setter(s, p1, o, v, tgt))
                ok, bad = s.fork(p1, Val.is_ref(o.t))
                outs = []
                if ok is not None:
                    s.write_barrier(ok, ("field", tgt.attr, o.t), tgt)
                    ok.setf(o.t, tgt.attr, v.t)
                    outs.append(Out("normal", ok))
                if bad is not None:
                    outs.append(Out(*s.raise_new(bad, "AttributeError", site=f"set {tgt.attr}")))
                return outs
            return s.lift(s.ev(tgt.value, p), k)
        if isinstance(tgt, (ast.Tuple, ast.List)):
            if any(isinstance(e, ast.Starred) for e in tgt.elts):
                return s.assign_starred(tgt, v, p)
            tup = v.get("tup")
            if tup is not None:
                if len(tup) != len(tgt.elts):
                    return [Out(*s.raise_new(p, "ValueError", site="unpack"))]
                outs = [Out("normal", p)]
                for t, e in zip(tgt.elts, tup):
                    outs = [o2 for o in outs for o2 in (s.assign(t, e, o.path) if o.kind == "normal" else [o])]
                return outs
            ok, bad = s.fork(p, And(Val.is_ref(v.t), p.length(v.t) == len(tgt.elts)))
            outs = []
            if ok is not None:
                os_ = [Out("normal", ok)]
                etys = s.unit.tuple_types.get(v.get("ty"), ())
                for i, t in enumerate(tgt.elts):
                    nxt = []
                    for o in os_:
                        if o.kind != "normal":
                            nxt.append(o)
                            continue
                        ety = etys[i] if i < len(etys) else None
                        nxt += s.assign(t, SV(o.path.elem(v.t, i), **({"ty": ety} if ety else {})), o.path)
                    os_ = nxt
                outs += os_
            if bad is not None:
                outs.append(Out(*s.raise_new(bad, "ValueError", site=f"unpack[{ast.unparse(tgt)}]")))
            return outs
        if isinstance(tgt, ast.Subscript):
            def k(p1, vs):
                obj, idx = vs
                m = s.unit.methods.get((obj.get("ty"), "__setitem__"))
                if m is not None:
                    return m(s, p1, [obj, idx, v], {}, tgt)
                if obj.get("ty") == "dict":
                    s.write_barrier(p1, ("dict", obj.t), tgt)
                    p1.dset(obj.t, idx.t, v.t)
                    return [("ok", p1, NONE_SV)]
                if obj.get("ty") in ("list",):
                    i = Val.i(idx.t)
                    ln = p1.length(obj.t)
                    pos = If(i >= 0, i, ln + i)
                    ok, bad = s.fork(p1, And(pos >= 0, pos < ln))
                    res = []
                    if ok is not None:
                        s.write_barrier(ok, ("cont", obj.t), tgt)
                        a = Val.a(obj.t)
                        ok.h.el = Store(ok.h.el, a, Store(Select(ok.h.el, a), ok.lo(obj.t) + pos, v.t))
                        res.append(("ok", ok, NONE_SV))
                    if bad is not None:
                        res.append(s.raise_new(bad, "IndexError", site=f"setitem@{tgt.lineno}"))
                    return res
                raise Unsupported(f"subscript assignment on {obj} @ line {tgt.lineno}")
            return s.lift(s.seq([tgt.value, tgt.slice], p, k))
        raise Unsupported(f"assignment target {type(tgt).__name__}")

    def assign_starred(s, tgt, v, p):
        # a, *rest, b = seq  (used with small fixed prefixes/suffixes)
        si = [i for i, e in enumerate(tgt.elts) if isinstance(e, ast.Starred)][0]
        before, after = tgt.elts[:si], tgt.elts[si + 1:]
        need = len(before) + len(after)
        ok, bad = s.fork(p, And(Val.is_ref(v.t), p.length(v.t) >= need))
        outs = []
        if ok is not None:
            os_ = [Out("normal", ok)]
            ln = ok.length(v.t)
            for i, t in enumerate(before):
                os_ = [o2 for o in os_ for o2 in s.assign(t, SV(o.path.elem(v.t, i)), o.path)]
            for i, t in enumerate(after):
                os_ = [o2 for o in os_ for o2 in s.assign(t, SV(o.path.elem(v.t, ln - len(after) + i)), o.path)]
            star = tgt.elts[si].value
            for o in os_:
                if not (isinstance(star, ast.Name) and star.id == "_"):
                    rest = s.slice_seq(o.path, v, sv_int(len(before)), sv_int(ln - len(after)), None, tgt, kind_override="list")   # *rest is always a list
                    s.assign(star, rest, o.path)
            outs += os_
        if bad is not None:
            outs.append(Out(*s.raise_new(bad, "ValueError", site="unpack*")))
        return outs

    def s_Assign(s, n, p):
        def k(p1, v):
            outs = [Out("normal", p1)]
            for t in n.targets:
                outs = [o2 for o in outs for o2 in (s.assign(t, v, o.path) if o.kind == "normal" else [o])]
            return outs
        return s.lift(s.ev(n.value, p), k)

    def s_AnnAssign(s, n, p):
        if n.value is None:
            return [Out("normal", p)]
        return s.lift(s.ev(n.value, p), lambda p1, v: s.assign(n.target, s.annotate(v, n.annotation), p1))

    def annotate(s, v, ann):
        """read (not execute) an annotation to pick a static type for dispatch"""
        try:
            src = ast.unparse(ann)
        except Exception:  # pragma: no cover
            return v
        for prefix, ty in (("List[", "list"), ("Deque[", "deque"), ("Dict[", "dict"), ("list[", "list"), ("dict[", "dict")):
            if src.startswith(prefix) and v.get("ty") is None:
                return SV(v.t, ty=ty, **v.st)
        return v

    def s_AugAssign(s, n, p):
        load = ast.copy_location(_as_load(n.target), n.target)
        binop = ast.copy_location(ast.BinOp(left=load, op=n.op, right=n.value), n)
        if isinstance(n.op, ast.Add):
            # list += seq is in-place extend
            def k(p1, vs):
                cur, v = vs
                if cur.get("ty") in ("list", "deque"):
                    return s.m_extend(p1, cur, [v], {}, n)
                return None
            rs = s.seq([load, n.value], p, lambda p1, vs: k(p1, vs) or [("defer", p1, vs)])
            outs = []
            for st, p1, v in rs:
                if st == "defer":
                    cur, val = v
                    if cur.get("ty") == "str" or val.get("ty") == "str":
                        from z3 import Concat
                        r = s.new_str(p1, Concat(s.to_string(p1, cur), s.to_string(p1, val)) if s.precise_strings else None)
                    else:
                        r = sv_int(Val.i(cur.t) + Val.i(val.t))
                    outs += s.assign(n.target, r, p1)
                elif st == "ok":
                    outs.append(Out("normal", p1))
                else:
                    outs.append(Out("raise", p1, v))
            return outs
        return s.lift(s.ev(binop, p), lambda p1, v: s.assign(n.target, v, p1))

    def s_Delete(s, n, p):
        outs = [Out("normal", p)]
        for t in n.targets:
            nxt = []
            for o in outs:
                if o.kind != "normal":
                    nxt.append(o)
                    continue
                nxt += s.delete(t, o.path)
            outs = nxt
        return outs

    def delete(s, t, p):
        if isinstance(t, ast.Name):
            p.env.pop(t.id, None)
            return [Out("normal", p)]
        if isinstance(t, ast.Subscript) and isinstance(t.slice, ast.Slice):
            sl = t.slice
            if sl.step is not None:
                raise Unsupported("del with step")
            parts = [x for x in (sl.lower, sl.upper) if x is not None]
            def k(p1, vs):
                obj = vs[0]
                it = iter(vs[1:])
                lo = next(it) if sl.lower is not None else None
                hi = next(it) if sl.upper is not None else None
                H = p1.snap()
                v = obj.t
                ln = H.length(v)
                def adj(x, dflt):
                    if x is None:
                        return dflt
                    i = Val.i(x.t)
                    return If(Val.is_none(x.t), dflt, If(i < 0, If(i + ln < 0, 0, i + ln), If(i > ln, ln, i)))
                start, stop = adj(lo, IntVal(0)), adj(hi, ln)
                stop = If(stop < start, start, stop)
                s.write_barrier(p1, ("cont", v), t)
                a = Val.a(v)
                arr = fresh("del_el", AV)
                newlen = ln - (stop - start)
                p1.h.lo = Store(p1.h.lo, a, 0)
                p1.h.hi = Store(p1.h.hi, a, newlen)
                p1.h.el = Store(p1.h.el, a, arr)
                p1.add_schema(v, lambda pth, j: And(
                    Implies(And(j >= 0, j < start), Select(arr, j) == pth.read(v, H.lo_(v) + j, H)),
                    Implies(And(j >= start, j < newlen), Select(arr, j) == pth.read(v, H.lo_(v) + j + (stop - start), H))))
                p1.ghost["last_del"] = (v, H, start, stop)
                return [("ok", p1, NONE_SV)]
            return s.lift(s.seq([t.value] + parts, p, k))
        if isinstance(t, ast.Subscript):
            def k(p1, vs):
                obj, idx = vs
                m = s.unit.methods.get((obj.get("ty"), "__delitem__"))
                if m is not None:
                    return m(s, p1, [obj, idx], {}, t)
                if obj.get("ty") == "dict":
                    ok, bad = s.fork(p1, p1.dhas(obj.t, idx.t))
                    res = []
                    if ok is not None:
                        s.write_barrier(ok, ("dict", obj.t), t)
                        ok.ddel(obj.t, idx.t)
                        res.append(("ok", ok, NONE_SV))
                    if bad is not None:
                        res.append(s.raise_new(bad, "KeyError", site=f"del@{t.lineno}"))
                    return res
                raise Unsupported("del of list element")
            return s.lift(s.seq([t.value, t.slice], p, k))
        raise Unsupported("del target")

    # ------------------------------------------------------------------ if / try / with
    def s_If(s, n, p):
        st = source.static_test(n.test, s.cfg)
        if st is True:
            return s.block(n.body, p)
        if st is False:
            return s.block(n.orelse, p)
        def k(p1, c):
            t, f = s.fork(p1, s.truthy(p1, c))
            outs = []
            if t is not None:
                t.note(f"if@{s.site_label(n)}:T")
                outs += s.block(n.body, t)
            if f is not None:
                f.note(f"if@{s.site_label(n)}:F")
                outs += s.block(n.orelse, f)
            return outs
        return s.lift(s.ev(n.test, p), k)

    def handler_names(s, h, p):
        if h.type is None:
            return ["BaseException"]
        return s.resolve_class_names(p, h.type)

    def s_Try(s, n, p):
        outs = []
        for o in s.block(n.body, p):
            if o.kind == "normal":
                outs += s.block(n.orelse, o.path)
            elif o.kind == "raise":
                rem = o.path
                for h in n.handlers:
                    names = s.handler_names(h, rem)
                    t, f = s.fork(rem, s.isinstance_term(o.value.t, names))
                    if t is not None:
                        t.note(f"caught by except {ast.unparse(h.type) if h.type else ''} @ {s.site_label(h)}")
                        if h.name:
                            t.env[h.name] = o.value
                        prev = t.env.get("$exc")
                        t.env["$exc"] = o.value
                        for o2 in s.block(h.body, t):
                            if prev is None:
                                o2.path.env.pop("$exc", None)
                            else:
                                o2.path.env["$exc"] = prev
                            if h.name:
                                o2.path.env.pop(h.name, None)
                            outs.append(o2)
                    rem = f
                    if rem is None:
                        break
                if rem is not None:
                    outs.append(Out("raise", rem, o.value))
            else:
                outs.append(o)
        if not n.finalbody:
            return outs
        final = []
        for o in outs:
            for o2 in s.block(n.finalbody, o.path):
                if o2.kind == "normal":
                    final.append(Out(o.kind, o2.path, o.value))
                else:
                    final.append(o2)
        return final

    def s_With(s, n, p):
        if len(n.items) != 1:
            inner = ast.With(items=n.items[1:], body=n.body, lineno=n.lineno, col_offset=n.col_offset)
            outer = ast.With(items=n.items[:1], body=[inner], lineno=n.lineno, col_offset=n.col_offset)
            return s.s_With(outer, p)
        item = n.items[0]
        def k(p1, cm):
            enter = s.unit.methods.get((cm.get("ty"), "__enter__"))
            exit_ = s.unit.methods.get((cm.get("ty"), "__exit__"))
            if enter is None or exit_ is None:
                raise Unsupported(f"with-statement on {cm} @ line {n.lineno}")
            outs = []
            for st, p2, val in enter(s, p1, [cm], {}, n):
                if st != "ok":
                    outs.append(Out("raise", p2, val))
                    continue
                os_ = s.assign(item.optional_vars, val, p2) if item.optional_vars is not None else [Out("normal", p2)]
                for o in os_:
                    if o.kind != "normal":
                        outs.append(o)
                        continue
                    for o2 in s.block(n.body, o.path):
                        exc = o2.value if o2.kind == "raise" else NONE_SV
                        for st3, p3, r in exit_(s, o2.path, [cm, exc], {}, n):
                            if st3 != "ok":
                                outs.append(Out("raise", p3, r))
                            elif o2.kind == "raise":
                                t, f = s.fork(p3, s.truthy(p3, r))
                                if t is not None:
                                    outs.append(Out("normal", t))
                                if f is not None:
                                    outs.append(Out("raise", f, o2.value))
                            else:
                                outs.append(Out(o2.kind, p3, o2.value))
            return outs
        return s.lift(s.ev(item.context_expr, p), k)

    # ------------------------------------------------------------------ write barrier
    def write_barrier(s, p, target, node):
        """every heap write inside a loop cut by an invariant must hit the loop's havoc set or a fresh object"""
        for fr in p.frames:
            kindt = target[0]
            addr = Val.a(target[-1])
            if kindt == "field":
                if any(nm == target[1] and t is None for (nm, t) in fr["fields"]):
                    continue
                listed = [Val.a(t) for (nm, t) in fr["fields"] if nm == target[1] and t is not None]
            elif kindt == "dict":
                if any(t is None for t in fr["dicts"]):
                    continue
                listed = [Val.a(t) for t in fr["dicts"]]
            else:
                listed = [Val.a(t) for t in fr["conts"]]
            a_s = z3.simplify(addr)
            if any(z3.simplify(l).eq(a_s) for l in listed):
                continue
            goal = Or([addr == l for l in listed] + [addr < -fr["alloc0"]])
            s.oblig(f"frame.{fr['name']}[{kindt}:{ast.unparse(node)[:50] if isinstance(node, ast.AST) else node}]",
                    "frame", p, goal)

    # ------------------------------------------------------------------ loops
    def loop_key(s, n):
        fi = s.func_stack[-1]
        return fi.loop_keys.get(id(n))

    def get_inv(s, n):
        fi = s.func_stack[-1]
        key = fi.loop_keys.get(id(n))
        inv = s.unit.invariants.get((fi.name, key))
        if inv is not None and inv.header:
            hdr = ast.unparse(n.test) if isinstance(n, ast.While) else ast.unparse(n.target) + " in " + ast.unparse(n.iter)
            if inv.header.replace(" ", "") not in hdr.replace(" ", ""):
                raise KeyError(f"contract anchor lost: loop {key} of {fi.name} is `{hdr[:70]}`, the invariant {inv.name} was written for "
                               f"`{inv.header}` (the loop structure changed)")
        return inv, key

    def assigned_names(s, body):
        out = []
        def walk(nodes):
            for st in nodes:
                for x in ast.walk(st):
                    if isinstance(x, (ast.FunctionDef, ast.Lambda)):
                        continue
                    if isinstance(x, ast.Name) and isinstance(x.ctx, (ast.Store, ast.Del)) and x.id not in out:
                        out.append(x.id)
                    if isinstance(x, ast.ExceptHandler) and x.name and x.name not in out:
                        out.append(x.name)
        walk(body)
        return out

    def names_reaching_head(s, loop):
        """names that may be (re)bound on a path that comes back to the head of `loop`.  A name assigned only in statement
        lists that definitely leave the loop (break / return, no `continue` inside) keeps its entry value at the head, and the
        loop's else clause never comes back; everything else is treated conservatively."""
        def own_continue(stmts):
            for st in stmts:
                for x in _walk_no_loops(st):
                    if isinstance(x, ast.Continue):
                        return True
            return False
        def exits(stmts):
            if not stmts:
                return False
            last = stmts[-1]
            if isinstance(last, (ast.Break, ast.Return)):
                return True
            if isinstance(last, ast.If):
                return exits(last.body) and exits(last.orelse)
            return False
        def reach(stmts):
            if exits(stmts) and not own_continue(stmts) and not any(isinstance(x, (ast.Try, ast.For, ast.While, ast.AsyncFor))
                                                                    for st in stmts for x in ast.walk(st)):
                return []
            out = []
            for st in stmts:
                if isinstance(st, ast.If):
                    out += s.assigned_names([ast.Expr(st.test)]) + reach(st.body) + reach(st.orelse)
                elif isinstance(st, (ast.With, ast.AsyncWith)):
                    out += s.assigned_names([ast.Expr(i.context_expr) for i in st.items] +
                                            [ast.Expr(i.optional_vars) for i in st.items if i.optional_vars is not None]) + reach(st.body)
                else:
                    out += s.assigned_names([st])
            return out
        names = []
        if isinstance(loop, (ast.For, ast.AsyncFor)):
            names += s.assigned_names([ast.Expr(loop.target)])
        else:
            names += s.assigned_names([ast.Expr(loop.test)])
        for nm in reach(loop.body):
            if nm not in names:
                names.append(nm)
        return names

    def open_cut(s, inv, key, p, body, ctx_kwargs):
        """assert Inv on entry, havoc the loop's footprint, assume Inv.  returns (H0, env0)"""
        H0 = p.snap()
        env0 = dict(p.env)
        ctx = InvCtx(s, p, H0, env0, **ctx_kwargs)
        if inv.setup:
            inv.setup(ctx)
        s.check_inv(inv, "entry", p, H0, env0, ctx_kwargs)
        # havoc
        p.bump_alloc()
        conts = [s._resolve(p, c) for c in inv.conts]
        dicts = [(None if c is None else s._resolve(p, c)) for c in inv.dicts]
        fields = [(nm, (None if c is None else s._resolve(p, c))) for nm, c in inv.fields]
        for c in conts:
            p.havoc_seq(c)
        for d in dicts:
            if d is None:
                # any dictionary may change: havoc the dict part of the heap wholesale (the invariant restates what is kept)
                from .values import AB, AVV
                p.h.dk = z3.Array(f"hv_dk!{next(_hv)}", z3.IntSort(), AB)
                p.h.dv = z3.Array(f"hv_dv!{next(_hv)}", z3.IntSort(), AVV)
                p.h.dn = z3.Array(f"hv_dn!{next(_hv)}", z3.IntSort(), z3.IntSort())
            else:
                p.havoc_dict(d)
        for nm, o in fields:
            if o is None:
                # the field may change on ANY object: havoc the whole field array
                p.h.fields[nm] = z3.Array(f"hvF_{nm}!{next(_hv)}", z3.IntSort(), Val)
            else:
                p.havoc_field(o, nm)
        loop_names = s.names_reaching_head(body[0]) if len(body) == 1 and isinstance(body[0], (ast.For, ast.AsyncFor, ast.While)) \
            else s.assigned_names(body)
        for nm in loop_names + [v for v in inv.vars if v not in loop_names]:
            if nm.startswith("$"):
                continue
            ty = inv.var_types.get(nm)
            nv = fresh("hv_" + nm)
            if ty == "int":
                p.pc.append(Val.is_intv(nv))
            elif ty == "bool":
                p.pc.append(Val.is_boolv(nv))
            p.env[nm] = SV(nv, **({"ty": ty} if ty else {}))
        if inv.ghost_havoc:
            inv.ghost_havoc(InvCtx(s, p, H0, env0, **ctx_kwargs))
        frame = {"name": inv.name, "conts": conts, "dicts": dicts, "fields": fields, "alloc0": H0.alloc}
        return H0, env0, frame

    def _resolve(s, p, c):
        if isinstance(c, str):
            return p.env[c].t
        if callable(c):
            return c(p)
        return c

    def check_inv(s, inv, stage, p, H0, env0, ctx_kwargs):
        ctx = InvCtx(s, p, H0, env0, **ctx_kwargs)
        if inv.qf is not None:
            s.oblig(f"{inv.name}.{stage}", "inv", p, inv.qf(ctx), axioms=(inv.axioms or None))
        if stage == "preserved":
            for sname, sfn in inv.steps:
                g = sfn(ctx)
                if g is not None:
                    s.oblig(sname, "clause", p, g)
        for i, (label, fn) in enumerate(inv.foralls):
            c = p.clone()
            j0 = fresh_int("jsk")
            cctx = InvCtx(s, c, H0, env0, **ctx_kwargs)
            body = fn(cctx, c, j0)
            lab = label if isinstance(label, str) else (label[0] if isinstance(label, tuple) and isinstance(label[0], str) else f"#{i}")
            s.oblig(f"{inv.name}.{stage}.forall[{lab}]", "inv", c, body)
        for i, (label, fn) in enumerate(inv.dforalls):
            c = p.clone()
            k0 = fresh("ksk")
            cctx = InvCtx(s, c, H0, env0, **ctx_kwargs)
            lab = label if isinstance(label, str) else f"#{i}"
            c.dinst(c.env[label].t if isinstance(label, str) and label in c.env else s._resolve(c, label), k0)   # induction hypothesis at k0
            s.oblig(f"{inv.name}.{stage}.dforall[{lab}]", "inv", c, fn(cctx, c, k0))

    def assume_inv(s, inv, p, H0, env0, ctx_kwargs):
        ctx = InvCtx(s, p, H0, env0, **ctx_kwargs)
        if inv.qf is not None:
            p.pc.append(inv.qf(ctx))
        if inv.defs is not None:
            d = inv.defs(ctx)
            if d is not None:
                p.pc.append(d)
        H1 = ctx.H
        env1 = dict(p.env)
        for label, fn in inv.foralls:
            cont = label if not isinstance(label, tuple) else label[0]
            tgt = env1[cont].t if isinstance(cont, str) and cont in env1 else s._resolve(p, cont)
            def sch(pth, j, fn=fn):
                c2 = InvCtx(s, pth, H0, env0, **ctx_kwargs)
                c2.H = H1
                c2.env = AnchorEnv(env1)
                return fn(c2, pth, j)
            p.add_schema(tgt, sch)
        for label, fn in inv.dforalls:
            tgt = env1[label].t if isinstance(label, str) and label in env1 else s._resolve(p, label)
            def dsch(pth, kk, fn=fn):
                c2 = InvCtx(s, pth, H0, env0, **ctx_kwargs)
                c2.H = H1
                c2.env = AnchorEnv(env1)
                return fn(c2, pth, kk)
            p.add_dschema(tgt, dsch)

    def s_While(s, n, p):
        inv, key = s.get_inv(n)
        if inv is None:
            bound = s.unit.unroll.get((s.func_stack[-1].name, key))
            if bound is None:
                raise Unsupported(f"loop {s.func_stack[-1].name}:{key} has no invariant")
            return s.unroll_while(n, p, bound, key)
        H0, env0, frame = s.open_cut(inv, key, p, [n], {})
        s.assume_inv(inv, p, H0, env0, {})
        p.ghost["head:" + key] = (p.snap(), dict(p.env))
        p.frames = p.frames + [frame]
        st = source.static_test(n.test, s.cfg)
        def k(p1, c):
            t, f = s.fork(p1, s.truthy(p1, c)) if c is not None else (p1, None)
            res = []
            if key in s.unit.options.get("par_after", ()) or not s.unit.options.get("par_after"):
                for q in (t, f):
                    if q is not None:
                        q.par_on = True
            if t is not None:
                t.note(f"{key}:iterate")
                for o in s.block(n.body, t):
                    if o.kind in ("normal", "continue"):
                        o.path.frames = o.path.frames[:-1]
                        s.check_inv(inv, "preserved", o.path, H0, env0, {})
                    elif o.kind == "break":
                        o.path.frames = o.path.frames[:-1]
                        o.path.note(f"{key}:break")
                        o.path.ghost["exit:" + key] = (o.path.snap(), dict(o.path.env))
                        res.append(Out("normal", o.path))
                    else:
                        o.path.frames = o.path.frames[:-1]
                        res.append(o)
            if f is not None:
                f.frames = f.frames[:-1]
                f.note(f"{key}:exit")
                f.ghost["exit:" + key] = (f.snap(), dict(f.env))
                res += s.block(n.orelse, f) if n.orelse else [Out("normal", f)]
            return res
        if isinstance(n.test, ast.Constant) and n.test.value is True:
            return k(p, None)
        return s.lift(s.ev(n.test, p), k)

    def unroll_while(s, n, p, bound, key):
        outs = []
        live = [p]
        for i in range(bound + 1):
            nxt = []
            for q in live:
                for st, p1, c in s.ev(n.test, q):
                    if st != "ok":
                        outs.append(Out("raise", p1, c))
                        continue
                    t, f = s.fork(p1, s.truthy(p1, c))
                    if f is not None:
                        outs += s.block(n.orelse, f) if n.orelse else [Out("normal", f)]
                    if t is not None:
                        if i == bound:
                            s.oblig(f"unwind.{key}", "site", t, BoolVal(False))
                            continue
                        for o in s.block(n.body, t):
                            if o.kind in ("normal", "continue"):
                                nxt.append(o.path)
                            elif o.kind == "break":
                                outs.append(Out("normal", o.path))
                            else:
                                outs.append(o)
            live = nxt
        return outs

    def s_For(s, n, p):
        inv, key = s.get_inv(n)
        def k(p1, it):
            return s.for_over(n, p1, it, inv, key)
        return s.lift(s.ev(n.iter, p), k)

    def iter_desc(s, p, it, node):
        """describe an iterable: (n_items term, elem(path, k) -> SV, static list or None)"""
        sp = it.get("special")
        if sp is not None:
            if sp[0] == "range":
                nn = Val.i(sp[1].t)
                return nn, (lambda pth, k: sv_int(k)), None
            if sp[0] == "reversed":
                seqv, H = sp[1], sp[2]
                nn = H.length(seqv.t)
                ety = s.unit.elem_types.get(seqv.get("ty_key"))
                tup = seqv.get("tup")
                return nn, (lambda pth, k: SV(pth.elem(seqv.t, nn - 1 - k, H), **({"ty": ety} if ety else {}))), \
                    (list(reversed(tup)) if tup is not None else None)
            if sp[0] == "enumerate":
                seqv, H = sp[1], sp[2]
                nn0, el0, st0 = s.iter_desc(p, seqv, node)
                return nn0, (lambda pth, k: s.make_tuple(pth, [sv_int(k), el0(pth, k)])), \
                    ([s.make_tuple(p, [sv_int(i), e]) for i, e in enumerate(st0)] if st0 is not None else None)
            if sp[0] == "custom":
                return sp[1], sp[2], None
            raise Unsupported(f"iteration over {sp[0]} @ line {node.lineno}")
        tup = it.get("tup")
        H = p.snap()
        nn = H.length(it.t)
        ety = s.unit.elem_types.get(it.get("ty_key"))
        if it.get("ty") in ("list", "tuple", "deque") or tup is not None or s.unit.options.get("iter_any_seq"):
            return nn, (lambda pth, k: SV(pth.elem(it.t, k, H), **({"ty": ety} if ety else {}))), tup
        m = s.unit.methods.get((it.get("ty"), "__iterdesc__"))
        if m is not None:
            return m(s, p, it, node)
        raise Unsupported(f"iteration over {it} @ line {node.lineno}")

    def for_over(s, n, p, it, inv, key):
        nn, elem, static = s.iter_desc(p, it, n)
        if static is not None and len(static) <= 8:
            return s.unroll_for(n, p, static)
        if s.unit.options.get("unroll_concrete"):        # engine self-test: concrete-length inputs are simply unrolled
            cn = z3.simplify(nn)
            if z3.is_int_value(cn) and cn.as_long() <= 16:
                return s.unroll_for(n, p, [elem(p, IntVal(k_)) for k_ in range(cn.as_long())])
        if inv is None:
            raise Unsupported(f"loop {s.func_stack[-1].name}:{key} has no invariant")
        kw = dict(k=IntVal(0), seq=it)
        H0, env0, frame = s.open_cut(inv, key, p, [n], kw)
        kk = fresh_int("k")
        p.pc += [kk >= 0, kk <= nn, nn >= 0]
        kw = dict(k=kk, seq=it)
        s.assume_inv(inv, p, H0, env0, kw)
        p.ghost["head:" + key] = (p.snap(), dict(p.env))
        p.frames = p.frames + [frame]
        more, done = s.fork(p, kk < nn)
        res = []
        if more is not None:
            more.note(f"{key}:iterate")
            for o0 in s.assign(n.target, elem(more, kk), more):
                if o0.kind != "normal":
                    o0.path.frames = o0.path.frames[:-1]
                    res.append(o0)
                    continue
                for o in s.block(n.body, o0.path):
                    o.path.frames = o.path.frames[:-1]
                    if o.kind in ("normal", "continue"):
                        s.check_inv(inv, "preserved", o.path, H0, env0, dict(k=kk + 1, seq=it))
                    elif o.kind == "break":
                        o.path.note(f"{key}:break")
                        o.path.ghost["exit_k:" + key] = kk
                        res.append(Out("normal", o.path))
                    else:
                        o.path.ghost["exit_k:" + key] = kk
                        res.append(o)
        if done is not None:
            done.frames = done.frames[:-1]
            done.pc.append(kk == nn)
            done.ghost["exit_k:" + key] = kk
            done.note(f"{key}:exit")
            res += s.block(n.orelse, done) if n.orelse else [Out("normal", done)]
        return res

    def unroll_for(s, n, p, items):
        outs = []
        live = [p]
        for e in items:
            nxt = []
            for q in live:
                for o0 in s.assign(n.target, e, q):
                    if o0.kind != "normal":
                        outs.append(o0)
                        continue
                    for o in s.block(n.body, o0.path):
                        if o.kind in ("normal", "continue"):
                            nxt.append(o.path)
                        elif o.kind == "break":
                            outs.append(Out("normal", o.path))
                        else:
                            outs.append(o)
            live = nxt
        for q in live:
            outs += s.block(n.orelse, q) if n.orelse else [Out("normal", q)]
        return outs


import itertools as _it
_hv = _it.count()


def _as_load(t):
    t2 = ast.parse(ast.unparse(t), mode="eval").body
    return t2
