import sys, types, stackscope
log=[]
def mk(name):
    m = types.ModuleType(name)
    m._stackscope_install_glue_ = lambda: log.append(name)
    return m
def gen():
    yield
g = gen(); next(g)
stackscope.extract(g)
# history: add A -> extract; remove A, add B -> extract
sys.modules['zzA'] = mk('zzA'); stackscope.extract(g); print("after add A:", log)
del sys.modules['zzA']; sys.modules['zzB'] = mk('zzB'); stackscope.extract(g); print("after remove A add B:", log)
sys.modules['zzC'] = mk('zzC'); stackscope.extract(g); print("after add C:", log)
