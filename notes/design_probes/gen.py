# Throwaway prototype of program family G1 (design-time probe only).
import itertools, sys
MAXD = int(sys.argv[1]) if len(sys.argv) > 1 else 2

def stmts(depth, in_loop, counter):
    """yield (lines, nconds, nmgrs) alternatives for ONE statement at this depth"""
    yield (["await ay('p')"], 0, 0)
    # exits
    yield (["return 5"], 0, 0)
    yield (["return ident(6)"], 0, 0)
    yield (["raise KeyError"], 0, 0)
    if in_loop:
        yield (["break"], 0, 0)
        yield (["continue"], 0, 0)
    if depth <= 0:
        return
    for body in bodies(depth - 1, in_loop):
        bl, bc, bm = body
        ind = ["    " + l for l in bl]
        yield (["async with M(@M@) as v@M@:"] + ind, bc, bm + 1)
        yield (["with S(@M@) as v@M@:"] + ind, bc, bm + 1)
        yield (["async with MS(@M@) as v@M@:"] + ind, bc, bm + 1)   # swallowing
        yield (["async with M(@M@) as v@M@, M(@M2@) as v@M2@:"] + ind, bc, bm + 2)
        yield (["try:"] + ind + ["except KeyError:", "    await ay('h')"], bc, bm)
        yield (["try:"] + ind + ["finally:", "    await ay('f')"], bc, bm)
        yield (["if C[@C@]:"] + ind, bc + 1, bm)
        yield (["if C[@C@]:"] + ind + ["else:", "    await ay('e')"], bc + 1, bm)
    for body in bodies(depth - 1, True):
        bl, bc, bm = body
        ind = ["    " + l for l in bl]
        yield (["for _i in range(2):"] + ind, bc, bm)
        yield (["while tick():"] + ind, bc, bm)

def bodies(depth, in_loop):
    one = list(stmts(depth, in_loop, None))
    for s in one:
        yield s
    # two-statement bodies: second statement restricted to simple ones to bound growth
    simple = [(["await ay('q')"],0,0), (["return 7"],0,0)] + ([(["break"],0,0)] if in_loop else [])
    for a in one:
        if a[0][0].startswith(("return","raise","break","continue")): continue
        for b in simple:
            yield (a[0] + b[0], a[1] + b[1], a[2] + b[2])

def number(lines):
    out = []; m = 0; c = 0
    for l in lines:
        while "@M@" in l or "@M2@" in l or "@C@" in l:
            if "@M@" in l:
                m += 1; l = l.replace("@M@", str(m))
            if "@M2@" in l:
                m += 1; l = l.replace("@M2@", str(m))
            if "@C@" in l:
                l = l.replace("@C@", str(c), 1); c += 1
        out.append(l)
    return out, m, c

def programs():
    seen = set()
    for bl, bc, bm in bodies(MAXD, False):
        if bm == 0: continue
        lines, m, c = number(bl)
        src = "async def prog():\n" + "\n".join("    " + l for l in lines) + "\n"
        if src in seen: continue
        seen.add(src)
        yield src, m, c

if __name__ == "__main__":
    n = 0
    for src, m, c in programs():
        n += 1
    print(n)
