import sys, types, warnings
warnings.simplefilter("always")
import stackscope
from stackscope import lowlevel as ll

@types.coroutine
def ay(v):
    return (yield v)

class M:
    def __init__(s, n): s.n = n
    def __repr__(s): return f"M({s.n})"
    async def __aenter__(s): return s
    async def __aexit__(s, *e):
        await ay(("exit", s.n))

class S:
    def __init__(s, n): s.n = n
    def __repr__(s): return f"S({s.n})"
    def __enter__(s): return s
    def __exit__(s, *e): pass

async def case_tryexcept():
    async with M(1) as a:
        async with M(2) as b:
            try:
                pass
            except ValueError:
                pass

async def case_ifreturn(c):
    async with M(1) as a:
        async with M(2) as b:
            if c:
                return 5

async def case_plain():
    async with M(1) as a:
        async with M(2) as b:
            pass

def show(coro):
    try:
        while True:
            v = coro.send(None)
            cs = ll.contexts_active_in_frame(coro.cr_frame, coro)
            print("  at", v, "->", [(c.obj, c.varname, c.is_exiting, c.start_line) for c in cs])
    except StopIteration:
        pass

print(sys.version)
for name, c in [("plain", case_plain()), ("tryexcept", case_tryexcept()), ("ifreturn True", case_ifreturn(True)), ("ifreturn False", case_ifreturn(False))]:
    print(name)
    show(c)
