import sys, random, itertools, traceback
sys.argv=[sys.argv[0]]+sys.argv[1:]
exec(open('c18.py').read().split("# ---- expected shape")[0])
def summ_stack(s, show_contexts, show_hidden):
    out=[]
    for f in s.frames:
        if f.hide and not show_hidden: continue
        if show_contexts: out+=summ_frame_ctx(f, show_hidden)
        else: out.append((f.filename,f.lineno,f.funcname))
    return out
def summ_frame_ctx(f, show_hidden):
    out=[]
    for c in f.contexts: out+=summ_ctx(c,f,show_hidden)
    if not (f.contexts and f.contexts[-1].is_exiting): out.append((f.filename,f.lineno,f.funcname))
    return out
def summ_ctx(c,parent,show_hidden):
    if c.hide and not show_hidden: return []
    info=c._name_and_type()
    out=[(parent.filename, c.start_line or parent.lineno, parent.funcname+(f" ({info})" if info else ""))]
    if c.inner_stack is not None: out+=summ_stack(c.inner_stack, True, show_hidden)
    for ch in c.children:
        if isinstance(ch,Context): out+=summ_ctx(ch,parent,show_hidden)
    return out
bad=0;n=0
for t in range(3000):
    s=rnd_stack(3)
    for sc,sh,cl in itertools.product([False,True],repeat=3):
        got=[(x.filename,x.lineno,x.name) for x in s.as_stdlib_summary(show_contexts=sc,show_hidden_frames=sh,capture_locals=cl)]
        exp=summ_stack(s,sc,sh); n+=1
        if got!=exp:
            bad+=1
            if bad<3: print("MISMATCH",sc,sh,got,exp)
        # format_flat relation
        flat=s.format_flat(show_contexts=sc)
        expf=[s._format_header()]
        if s.frames: expf+=s.as_stdlib_summary(show_contexts=sc).format()
        if s.leaf is not None: expf.append(f"  Target of innermost frame: {s.leaf!r}\n")
        if s.error is not None: expf+=list(s._format_error())
        if flat!=expf: bad+=1
print("cases",n,"bad",bad)
