from z3 import *
import time
S = StringSort()
AS = ArraySort(IntSort(), S)
X, pre, lines = Consts('X pre lines', AS)
nX, npre, nl = Ints('nX npre nl')
k = Int('k'); j = Int('j')
A = StringVal("╠ "); B = StringVal("║ ")
def marker(i): return If(i == 0, A, B)
def inv(lines, nl, k):
    return And(nl == npre + k, 0 <= k, k <= nX, npre >= 0, nX >= 0,
               ForAll([j], Implies(And(0 <= j, j < npre), lines[j] == pre[j])),
               ForAll([j], Implies(And(0 <= j, j < k), lines[npre + j] == Concat(marker(j), X[j]))))
def run(name, mk):
    s = Solver(); s.set(timeout=30000); mk(s)
    t=time.time(); r = s.check(); print(name, r, round(time.time()-t,2))
    return s, r
def pres(s):
    s.add(inv(lines, nl, k), k < nX)
    s.add(Not(inv(Store(lines, nl, Concat(marker(k), X[k])), nl + 1, k + 1)))
run("preservation:", pres)
def post(s):
    i = Int('i')
    s.add(inv(lines, nl, k), k == nX)
    s.add(0 <= i, i < nX, Not(Or(PrefixOf(A, lines[npre+i]), PrefixOf(B, lines[npre+i]))))
run("post prefix:", post)
def mut(s):
    s.add(inv(lines, nl, k), k < nX)
    s.add(Not(inv(Store(lines, nl, Concat(If(k == 1, A, B), X[k])), nl + 1, k + 1)))
s, r = run("mutant preservation:", mut)
if r == sat: print(s.model())
