import sys, stackscope
from stackscope import PRUNE
res={}
def C():
    res['s'] = stackscope.extract(ITEM[0])
def P():
    C()
def A():
    P()
class Item: pass
class Wrap:
    def __init__(s, f): s.f=f
ITEM=[Item()]
frames={}
def top():
    frames['A']=None
    A()
# Build: Item -> (Wrap(frameA), frameP, frameC) ; Wrap -> frameA (depth 2)
@stackscope.unwrap_stackitem.register(Item)
def _(i):
    f = sys._getframe(0)
    chain=[]
    while f: chain.append(f); f=f.f_back
    byname={fr.f_code.co_name: fr for fr in chain}
    return (Wrap(byname['A']), byname['P'], byname['C'])
@stackscope.unwrap_stackitem.register(Wrap)
def _(w): return w.f
MODE=[None]
def gen():
    yield
@stackscope.elaborate_frame.register(A)
def elA(frame, nxt):
    if MODE[0]=='insert':
        g=gen(); next(g)
        return (g, nxt)
    return None
@stackscope.elaborate_frame.register(P)
def elP(frame, nxt):
    return PRUNE
for m in (None,'insert'):
    MODE[0]=m
    top()
    print(m, [f.funcname for f in res['s'].frames], res['s'].leaf, res['s'].error)
