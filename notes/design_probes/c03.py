import sys, types, itertools, traceback, stackscope, warnings
warnings.simplefilter("error", stackscope.InspectionWarning)
class Probe(Exception): pass
def awit(x):
    return x if isinstance(x, types.GeneratorType) else x.__await__()

@types.coroutine
def trap():
    yield "trap"

class Leaf:            # non-frame awaitable/iterator leaf
    def __await__(self): return self
    def __iter__(self): return self
    def __next__(self): return "leaf"
    def throw(self, *a): raise a[0] if isinstance(a[0], BaseException) else a[0]()   # not used by oracle comparisons

# link kinds: each takes `inner` (an awaitable factory) and returns an awaitable factory
def k_await_coro(inner):
    async def co():
        await inner()
    return co
def k_await_gencoro(inner):
    @types.coroutine
    def gc():
        yield
    # simpler: generator-based coroutine that yields from awaitable's __await__
    @types.coroutine
    def gc2():
        aw = inner()
        yield from awit(aw)
    return gc2
def k_obj_await_wrapper(inner):      # __await__ returns a coroutine_wrapper
    class A:
        def __await__(self):
            async def co(): await inner()
            return co().__await__()
    async def outer(): await A()
    return outer
def k_obj_await_gen(inner):          # __await__ is a generator
    class A:
        def __await__(self):
            yield from awit(inner())
    async def outer(): await A()
    return outer
def k_asyncgen_anext(inner):
    async def ag():
        await inner()
        yield 1
    async def outer():
        async for _ in ag(): pass
    return outer
def k_asyncgen_asend(inner):
    async def ag():
        x = yield 0
        await inner()
        yield 1
    async def outer():
        a = ag()
        await a.asend(None)
        await a.asend(5)
    return outer
def k_asyncgen_athrow(inner):
    async def ag():
        try:
            yield 0
        except KeyError:
            await inner()
            yield 1
    async def outer():
        a = ag()
        await a.asend(None)
        await a.athrow(KeyError)
    return outer
def k_asyncgen_aclose(inner):
    async def ag():
        try:
            yield 0
        finally:
            await inner()
    async def outer():
        a = ag()
        await a.asend(None)
        await a.aclose()
    return outer
KINDS = [k_await_coro, k_await_gencoro, k_obj_await_wrapper, k_obj_await_gen, k_asyncgen_anext, k_asyncgen_asend, k_asyncgen_athrow, k_asyncgen_aclose]
def end_trap():
    async def t(): await trap()
    return t
def end_leaf():
    async def t(): await Leaf()
    return t

def tb_frames(exc):
    out=[]; tb=exc.__traceback__
    while tb: out.append(tb.tb_frame); tb=tb.tb_next
    return out
bad=0;n=0
for depth in range(0,4):
    for combo in itertools.product(KINDS, repeat=depth):
        for end in (end_trap, end_leaf):
            fac = end()
            for k in reversed(combo): fac = k(fac)
            co = fac()
            try: co.send(None)
            except StopIteration: continue
            n+=1
            s = stackscope.extract(co)
            s2 = stackscope.extract(co, with_contexts=False)
            got=[f.pyframe for f in s.frames]
            lines=[f.lineno for f in s.frames]
            if [f.pyframe for f in s2.frames]!=got: bad+=1; print("with_contexts differ", [k.__name__ for k in combo])
            try: co.throw(Probe())
            except Probe as e:
                exp = tb_frames(e)[1:]  # drop this module-level frame
                explines=[]
                tb=e.__traceback__.tb_next
                while tb: explines.append(tb.tb_lineno); tb=tb.tb_next
            except BaseException as e:
                print("other", type(e)); continue
            # traceback includes frames the exception unwound through; Leaf.throw frame excluded? check
            exp = [f for f in exp if f.f_code.co_name!='throw']
            if got!=exp or s.error is not None or lines[:len(explines)]!=explines[:len(lines)]:
                bad+=1
                if bad<8: print("MISMATCH", [k.__name__ for k in combo], end.__name__, [f.f_code.co_name for f in got], [f.f_code.co_name for f in exp], s.error, lines, explines, "leaf=",s.leaf)
print("cases",n,"bad",bad)
