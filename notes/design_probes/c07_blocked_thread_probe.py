import sys, threading, contextlib, stackscope, warnings
res=dict(n=0,bad=0)
class S:
    def __init__(s,n): s.n=n
    def __enter__(s): return s
    def __exit__(s,*e): pass
def run(depth, nest):
    ev=threading.Event(); ready=threading.Event(); frames=[]; mgrs={}
    def body(d):
        frames.append(sys._getframe(0))
        with contextlib.ExitStack() as es:
            ms=[es.enter_context(S((d,k))) for k in range(0)]
            # real nested withs:
            if nest==0: inner(d)
            elif nest==1:
                with S((d,0)) as a:
                    mgrs[d]=[a]; inner(d)
            else:
                with S((d,0)) as a:
                    with S((d,1)) as b:
                        mgrs[d]=[a,b]; inner(d)
    def inner(d):
        if d>1: body(d-1)
        else:
            ready.set(); ev.wait()
    t=threading.Thread(target=lambda: body(depth)); 
    # not started
    assert stackscope.extract(t).frames==[] 
    t.start(); ready.wait()
    with warnings.catch_warnings(record=True) as w:
        warnings.simplefilter("always")
        st=stackscope.extract(t)
    vis=[f for f in st.frames if not f.hide]
    # expected visible: <lambda>, then per level body, inner ... then Event.wait internals (threading.py frames)
    got=[f.pyframe for f in st.frames]
    # truth via f_back from sys._current_frames
    cur=sys._current_frames()[t.ident]; T=[]
    while cur: T.append(cur); cur=cur.f_back
    T=T[::-1]
    ok = got==T and st.error is None and not w
    for f in st.frames:
        if f.funcname=='body':
            d=f.pyframe.f_locals['d']
            exp=[('es',False)] + [(m,False) for m in mgrs.get(d,[])]
            gotc=[(c.obj if c.varname!='es' else 'es', c.is_exiting) for c in f.contexts]
            if gotc!=exp: ok=False
    res['n']+=1
    if not ok:
        res['bad']+=1; print("BAD",depth,nest,st.error,[str(x.message)[:50] for x in w])
    ev.set(); t.join()
    assert stackscope.extract(t).frames==[]
for depth in range(1,7):
    for nest in range(3): run(depth,nest)
print(res)
