import sys, itertools, greenlet, stackscope
from stackscope import StackSlice, extract
res={'n':0,'bad':0}
def truth():
    out=[]; g=greenlet.getcurrent(); f=sys._getframe(1)
    while g is not None:
        while f is not None: out.append(f); f=f.f_back
        g=g.parent
        if g is not None: f=g.gr_frame
    return out[::-1]
def check():
    T=truth(); N=len(T); cands=[None]+T
    for o,i,lim in itertools.product(cands,cands,[None,1,2,N,N+1]):
        s=extract(StackSlice(outer=o,inner=i,limit=lim))
        got=[f.pyframe for f in s.frames]
        lo=0 if o is None else T.index(o); hi=N-1 if i is None else T.index(i)
        if lo>hi: continue
        exp=T[lo:hi+1]
        if lim is not None and len(exp)>lim: exp = exp[:lim] if (i is None and o is not None) else exp[-lim:]
        res['n']+=1
        if got!=exp or s.error is not None:
            res['bad']+=1
            if res['bad']<6: print("MISMATCH lo",lo,"hi",hi,"lim",lim,[f.f_code.co_name for f in got],[f.f_code.co_name for f in exp], s.error)
    s=stackscope.extract_since(None)
    if [f.pyframe for f in s.frames]!=T: print("extract_since(None) mismatch")
def rec(d, then):
    if d==0: then()
    else: rec(d-1, then)
def level(k):
    def body():
        if k==0: check()
        else:
            g=greenlet.greenlet(lambda: rec(2, lambda: level(k-1)()))
            g.switch()
    return body
rec(1, level(2))
print(res)
