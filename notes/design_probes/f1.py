import sys, types, warnings, asyncio
warnings.simplefilter("always")
import stackscope
from stackscope import lowlevel as ll
print(sys.version)
@types.coroutine
def ay(v):
    return (yield v)
out = {}
class M:
    def __repr__(s): return "M"
    async def __aenter__(s):
        out['enter'] = stackscope.extract_since(OUTER[0])
        return s
    async def __aexit__(s, *e):
        out['exit'] = stackscope.extract_since(OUTER[0])
class S:
    def __repr__(s): return "S"
    def __enter__(s):
        out['senter'] = stackscope.extract_since(OUTER[0]); return s
    def __exit__(s, *e):
        out['sexit'] = stackscope.extract_since(OUTER[0])
OUTER=[None]
async def running():
    OUTER[0] = sys._getframe(0)
    with S() as s:
        async with M() as m:
            out['body'] = stackscope.extract_since(OUTER[0])
async def running_exc():
    OUTER[0] = sys._getframe(0)
    try:
        async with M() as m:
            raise KeyError
    except KeyError: pass
def drive(c):
    try: c.send(None)
    except StopIteration: pass
drive(running())
for k in ('senter','enter','body','exit','sexit'):
    st = out[k]
    print(k, [(c.obj, c.varname, c.is_exiting) for c in st.frames[0].contexts], "err=", st.error)
out.clear()
drive(running_exc())
for k in ('enter','exit'):
    st = out[k]
    print("exc", k, [(c.obj, c.varname, c.is_exiting) for c in st.frames[0].contexts], "err=", st.error)
