import stackscope, threading, sys
from stackscope import _extract as E
seen=[]
class It: pass
class Inner: pass
def gen():
    yield
g=gen(); next(g)
@stackscope.unwrap_stackitem.register(It)
def _(i):
    seen.append(("outer-before", E.current_options.with_contexts, E.current_options.recurse_child_tasks))
    s = stackscope.extract(Inner(), with_contexts=False, recurse_child_tasks=True)
    seen.append(("outer-after", E.current_options.with_contexts, E.current_options.recurse_child_tasks))
    try:
        stackscope.extract_outermost(object())   # raises inside its own push
    except RuntimeError: pass
    seen.append(("after-raise", E.current_options.with_contexts, E.current_options.recurse_child_tasks))
    return g
@stackscope.unwrap_stackitem.register(Inner)
def _(i):
    seen.append(("inner", E.current_options.with_contexts, E.current_options.recurse_child_tasks, stackscope.extract_child(g, for_task=True).frames == []))
    return g
s=stackscope.extract(It(), with_contexts=True, recurse_child_tasks=False)
print(seen, E.current_options.with_contexts)
try: stackscope.extract_child(g, for_task=False)
except RuntimeError as e: print("guard ok")
