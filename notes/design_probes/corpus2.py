import sys, os, dis, types, warnings, collections
warnings.simplefilter("ignore")
from stackscope import _lowlevel as ll
op = dis.opmap
def walk(code):
    yield code
    for k in code.co_consts:
        if isinstance(k, types.CodeType): yield from walk(k)
class FF:  # fake frame
    def __init__(s, code, lasti): s.f_code=code; s.f_lasti=lasti
root = os.path.dirname(os.__file__)
stats = collections.Counter(); bad=[]
nfiles=0
for d,_,fs in os.walk(root):
    if 'test' in d.split(os.sep) or 'lib2to3' in d or 'site-packages' in d: continue
    for f in fs:
        if not f.endswith('.py'): continue
        p=os.path.join(d,f)
        try: top=compile(open(p,'rb').read(), p, 'exec')
        except Exception: continue
        nfiles+=1
        for code in walk(top):
            insns=list(dis.get_instructions(code))
            if not any(i.opname in ('BEFORE_WITH','BEFORE_ASYNC_WITH') for i in insns): continue
            try: info=ll.analyze_with_blocks(code)
            except Exception as e:
                stats['analyze_raises']+=1; bad.append((p,code.co_name,'analyze',repr(e))); continue
            stats['with_blocks']+=len(info)
            for idx,i in enumerate(insns):
                site=None
                if i.opname=='WITH_EXCEPT_START':
                    site=('exc', i.offset)
                elif i.opname=='CALL' and i.arg==2 and idx>=4 and (lambda b: all(insns[b-k].opname=='LOAD_CONST' and insns[b-k].argval is None for k in (1,2,3)))(idx-1 if insns[idx-1].opname=='PRECALL' else idx):
                    # exclude PRECALL on 3.11
                    site=('norm', i.offset)
                elif i.opname=='PRECALL' : continue
                if site is None: continue
                # 3.11: CALL preceded by PRECALL; pattern above requires LOAD_CONST directly before CALL -> handle
                stats['sites_'+site[0]]+=1
                r=ll.currently_exiting_context(FF(code, site[1]))
                if r is None: stats['none_'+site[0]]+=1; bad.append((p,code.co_name,site,None))
                elif r.cleanup_offset not in info: stats['notwith_'+site[0]]+=1; bad.append((p,code.co_name,site,r.cleanup_offset))
                else:
                    stats['ok_'+site[0]]+=1
                    ln = i.positions.lineno if i.positions else None
                    if ln is not None and info[r.cleanup_offset].start_line != ln:
                        stats['wrongline_'+site[0]]+=1; bad.append((p,code.co_name,site,('line',info[r.cleanup_offset].start_line, ln)))
print(sys.version_info[:3], nfiles, dict(stats))
for b in bad[:8]: print(b)
