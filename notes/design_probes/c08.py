import sys, os, ast, types, dis, collections, warnings
warnings.simplefilter("ignore")
from stackscope import _lowlevel as ll
def norm(src):
    try: return ast.dump(ast.parse(src, mode='eval').body).replace("ctx=Load()","ctx=X()").replace("ctx=Store()","ctx=X()")
    except SyntaxError: return "SYNTAXERR:"+src
def tnorm(node):
    return ast.dump(node).replace("ctx=Load()","ctx=X()").replace("ctx=Store()","ctx=X()")
class V(ast.NodeVisitor):
    def __init__(s): s.funcs={}   # (name, firstlineno) -> list of (line, target_dump or None)
    def visit_func(s, node):
        items=[]
        def walk(n):
            for ch in ast.iter_child_nodes(n):
                if isinstance(ch,(ast.FunctionDef,ast.AsyncFunctionDef,ast.Lambda,ast.ClassDef)): continue
                if isinstance(ch,(ast.With,ast.AsyncWith)):
                    for it in ch.items:
                        items.append((ch.lineno, tnorm(it.optional_vars) if it.optional_vars is not None else None))
                walk(ch)
        walk(node)
        ln = node.lineno if not getattr(node,'decorator_list',None) else node.decorator_list[0].lineno
        s.funcs[(getattr(node,'name','<module>'), ln)] = items
        for ch in ast.walk(node):
            pass
    def generic_visit(s,node):
        if isinstance(node,(ast.FunctionDef,ast.AsyncFunctionDef)): s.visit_func(node)
        super().generic_visit(node)
def walkcode(code):
    yield code
    for k in code.co_consts:
        if isinstance(k,types.CodeType): yield from walkcode(k)
root=os.path.dirname(os.__file__); st=collections.Counter(); bad=[]
for d,_,fs in os.walk(root):
    if 'test' in d.split(os.sep) or 'lib2to3' in d or 'site-packages' in d: continue
    for f in fs:
        if not f.endswith('.py'): continue
        p=os.path.join(d,f)
        try:
            src=open(p,'rb').read(); tree=ast.parse(src); top=compile(src,p,'exec')
        except Exception: continue
        v=V(); v.visit(tree); v.funcs[('<module>',1)]=[]  # skip module-level for simplicity
        for code in walkcode(top):
            key=(code.co_name, code.co_firstlineno)
            if key not in v.funcs or code.co_name=='<module>': continue
            items=v.funcs[key]
            if not items: continue
            try: info=ll.analyze_with_blocks(code)
            except Exception as e: st['raises']+=1; bad.append((p,key,repr(e))); continue
            got=set((c.start_line, norm(c.varname) if c.varname is not None else None) for c in info.values())
            exp=set(items)
            st['funcs']+=1; st['items']+=len(items)
            # every reported must match an item line; varname None allowed only if ... count
            for (ln,vn) in got:
                cands=[t for (l,t) in items if l==ln]
                if not cands: st['badline']+=1; bad.append((p,key,'line',ln,sorted(set(l for l,_ in items)))); continue
                if vn is None:
                    if any(t is not None for t in cands) and all(t is not None for t in cands): st['dropped']+=1; bad.append((p,key,'dropped',ln,cands[:1]))
                elif vn not in cands: st['wrongname']+=1; bad.append((p,key,'wrong',ln,vn[:60],cands[:1]))
                else: st['ok']+=1
            if len(set(l for l,_ in got))<len(set(l for l,_ in items)): st['missing_lines']+=1
print(sys.version_info[:3], dict(st))
for b in bad[:10]: print(b)
