from z3 import *
import time
x = String('x'); l = String('l'); role = Int('role')
# roles of a non-first line returned by Context._format: 0 inner frame start, 1 inner frame cont, 2 inner leaf, 3 inner error/blank/child-cont ("  "), 4 child start
mk = {0:"╠ ",1:"║ ",2:"╚ ",3:"  ",4:"─ "}
s = Solver(); s.set(timeout=20000)
s.add(Or([And(role==r, l==Concat(StringVal(m), x)) for r,m in mk.items()]))
s.push(); s.add(PrefixOf(StringVal("─ "), l) != (role==4)); t=time.time(); print("C18.child_indicator (z3):", s.check(), round((time.time()-t)*1000),"ms"); s.pop()
# Frame level: the 2-char markers are pairwise distinct, so the stripped role is a function of the line
fm = {0:"├ ",1:"├─",2:"│ ",3:"└ "}
r2 = Int('r2'); y=String('y'); l2=String('l2')
s2 = Solver(); s2.set(timeout=20000)
s2.add(Or([And(role==r, l2==Concat(StringVal(m), x)) for r,m in fm.items()]), Or([And(r2==r, l2==Concat(StringVal(m), y)) for r,m in fm.items()]), Or(role!=r2, x!=y))
t=time.time(); print("C18.prefix_code frame level (z3):", s2.check(), round((time.time()-t)*1000),"ms")
# ascii map is NOT injective at stack level (documented): "+ " for frame start and leaf
am = {0:"+ ",1:"| ",2:"+ "}
s3 = Solver(); s3.add(Or([And(role==r, l2==Concat(StringVal(m), x)) for r,m in am.items()]), Or([And(r2==r, l2==Concat(StringVal(m), y)) for r,m in am.items()]), role!=r2)
print("ascii stack-level ambiguity (expected sat):", s3.check())
print(s.to_smt2()[:0])
# dump smt2 for cvc5
open('c18.smt2','w').write("(set-logic QF_SLIA)\n"+s2.sexpr()+"\n(check-sat)\n")
