# P1: unwrap-phase invariant with Seq + UF "flatten" axioms
from z3 import *
import time
Item = DeclareSort('Item')
IS = SeqSort(Item)
F = Function('F', IS, IS)          # spec: full flattening of a work list
kids = Function('kids', Item, IS)  # unwrap result as sequence (already None-filtered)
irreducible = Function('irr', Item, BoolSort())  # frame or unwrap()->None
x = Const('x', Item); r = Const('r', IS)
ax = [
  F(Empty(IS)) == Empty(IS),
  ForAll([x, r], Implies(irreducible(x), F(Concat(Unit(x), r)) == Concat(Unit(x), F(r))), patterns=[F(Concat(Unit(x), r))]),
  ForAll([x, r], Implies(Not(irreducible(x)), F(Concat(Unit(x), r)) == F(Concat(kids(x), r))), patterns=[F(Concat(Unit(x), r))]),
]
done, todo, root = Consts('done todo root', IS)
cur = Const('cur', Item); rest = Const('rest', IS)
inv = lambda d, t: Concat(d, F(t)) == F(root)
s = Solver(); s.set(timeout=20000)
s.add(ax)
s.add(inv(done, todo), todo == Concat(Unit(cur), rest))
# case irreducible: done' = done ++ [cur], todo' = rest
s.push(); s.add(irreducible(cur)); s.add(Not(inv(Concat(done, Unit(cur)), rest)))
t=time.time(); print("irreducible case:", s.check(), round(time.time()-t,2)); s.pop()
s.push(); s.add(Not(irreducible(cur))); s.add(Not(inv(done, Concat(kids(cur), rest))))
t=time.time(); print("reducible case:", s.check(), round(time.time()-t,2)); s.pop()
# exit: todo empty => done == F(root)
s2 = Solver(); s2.add(ax); s2.add(inv(done, todo), todo == Empty(IS), done != F(root))
print("exit:", s2.check())
# mutation: push kids at the END instead of front (wrong order) must be refutable or unknown
s.push(); s.add(Not(irreducible(cur))); s.add(Not(inv(done, Concat(rest, kids(cur)))))
t=time.time(); print("mutant (append at end):", s.check(), round(time.time()-t,2)); s.pop()
