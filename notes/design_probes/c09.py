import contextlib, stackscope, types, sys
class CM:
    def __enter__(s): return s
    def __exit__(s,*a): pass
    def other(s,*a): pass
    def __repr__(s): return "CM()"
class ACM:
    async def __aenter__(s): return s
    async def __aexit__(s,*a): pass
    async def aother(s,*a): pass
    def __repr__(s): return "ACM()"
def fn(*a): pass
async def afn(*a): pass
@types.coroutine
def ay(): yield
async def main():
    async with contextlib.AsyncExitStack() as st:
        st.enter_context(CM()); st.push(CM()); st.push(fn); st.push(CM().other); st.callback(fn, 1, k=2)
        await st.enter_async_context(ACM()); st.push_async_exit(ACM()); st.push_async_exit(afn); st.push_async_exit(ACM().aother); st.push_async_callback(afn, 3)
        await ay()
c = main(); c.send(None)
s = stackscope.extract(c)
for ch in s.frames[0].contexts[0].children:
    print(ch.is_async, type(ch.obj).__name__, ch.varname, "|", ch.description)
