import sys, stackscope
res = {}
def leaf():
    res['s'] = stackscope.extract(CORO[0])
def mid():
    leaf()
async def co():
    mid()
CORO=[None]
c = co(); CORO[0]=c
try: c.send(None)
except StopIteration: pass
s = res['s']
for f in s.frames:
    print(f.funcname, "origin=", f.origin)
    if f.origin is not None:
        try:
            print("   extract_outermost(origin).pyframe is pyframe:", "n/a (coroutine finished)" )
        except Exception as e: print(e)
# live check
def leaf2():
    s = stackscope.extract(CORO[0])
    for f in s.frames:
        ok = None
        if f.origin is not None:
            ok = stackscope.extract_outermost(f.origin).pyframe is f.pyframe
        print(f.funcname, "origin=", type(f.origin).__name__, "recovers:", ok)
def mid2(): leaf2()
async def co2(): mid2()
c = co2(); CORO[0]=c
try: c.send(None)
except StopIteration: pass
