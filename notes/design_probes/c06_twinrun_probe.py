import sys, types, itertools, gc, weakref, collections
import stackscope
from gen import programs
@types.coroutine
def ay(v): return (yield v)
def ident(x): return x
EVENTS=[]; REFS=[]
class S:
    def __init__(s,n): s.n=n; REFS.append(weakref.ref(s))
    def __enter__(s): EVENTS.append(('enter',s.n)); return s
    def __exit__(s,*e): EVENTS.append(('exit',s.n, e[0] and e[0].__name__))
class M:
    swallow=False
    def __init__(s,n): s.n=n; REFS.append(weakref.ref(s))
    async def __aenter__(s):
        await ay(('entering',s.n)); EVENTS.append(('aenter',s.n)); return s
    async def __aexit__(s,*e):
        await ay(('exiting',s.n)); EVENTS.append(('aexit',s.n, e[0] and e[0].__name__)); return s.swallow
class MS(M): swallow=True
TICK=[0]
def tick():
    TICK[0]+=1; return TICK[0]<=2
C=[]
stats=collections.Counter()
def one(ns, bits, observe):
    C[:]=bits; TICK[0]=0; EVENTS.clear(); REFS.clear()
    co=ns['prog'](); trace=[]; steps=0
    try:
        while steps<60:
            steps+=1
            v=co.send(None); trace.append(v)
            if observe:
                a=stackscope.extract(co); b=stackscope.extract(co)
                stats['extractions']+=2
                if a!=b: stats['not_equal']+=1
                del a,b
        trace.append('STEPLIMIT')
    except StopIteration as e: trace.append(('done',e.value))
    except KeyError: trace.append('KeyError')
    finally: co.close()
    ev=list(EVENTS); refs=list(REFS)
    del co
    gc.collect()
    alive=sum(1 for r in refs if r() is not None)
    return trace, ev, alive
n=0
for idx,(src,nm,nc) in enumerate(programs()):
    ns=dict(ay=ay,ident=ident,S=S,M=M,MS=MS,C=C,tick=tick)
    exec(compile(src,f"<g1-{idx}>","exec"),ns); n+=1
    for bits in itertools.product([False,True],repeat=nc):
        t0,e0,a0=one(ns,bits,False); t1,e1,a1=one(ns,bits,True)
        stats['runs']+=1
        if (t0,e0)!=(t1,e1): stats['perturbed']+=1
        if a1: stats['leaked']+=1
print(sys.version_info[:3], n, dict(stats))
