import stackscope, sys
def inner():
    return stackscope.extract_since(sys._getframe(0))
@stackscope.elaborate_frame.register(inner)
def el(frame, next_inner):
    print("next_inner =", next_inner)
    def gen():
        yield 1
    g = gen(); next(g)
    return (g, next_inner)
try:
    s = inner()
    print("F6 ok:", s)
except Exception as e:
    import traceback; traceback.print_exc()
