import stackscope, resource, signal, sys
class X: pass
x = X()
@stackscope.unwrap_stackitem.register(X)
def _(i): return (i, i)
signal.alarm(10)
resource.setrlimit(resource.RLIMIT_AS, (2*1024**3, 2*1024**3))
try:
    s = stackscope.extract(x)
    print("returned", len(s.frames), type(s.error))
except BaseException as e:
    print("raised", type(e))
