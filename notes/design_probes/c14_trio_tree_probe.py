import sys, itertools, warnings, trio, stackscope
ENDINGS = ["plain", "tryexcept", "tryfinally", "condreturn"]
def make_task_src(name, nnurs, block_in, ending, nchildren_per_nursery):
    """source of an async function that opens nnurs nested nurseries, starts children in each, then blocks in body or falls into __aexit__"""
    L=[f"async def {name}(spec, started):"]
    ind="    "
    for k in range(nnurs):
        L.append(f"{ind}async with trio.open_nursery() as n{k}:"); ind+="    "
        L.append(f"{ind}for child in spec['children'][{k}]: n{k}.start_soon(run_task, child, started)")
    if nnurs==0:
        L.append(f"{ind}started.append(1); await trio.sleep_forever()")
    else:
        body = "started.append(1); await trio.sleep_forever()" if block_in=="body" else "started.append(1)"
        if ending=="plain": L.append(f"{ind}{body}")
        elif ending=="tryexcept": L+= [f"{ind}try:", f"{ind}    {body}", f"{ind}except KeyError:", f"{ind}    pass"]
        elif ending=="tryfinally": L+= [f"{ind}try:", f"{ind}    {body}", f"{ind}finally:", f"{ind}    pass"]
        elif ending=="condreturn": L+= [f"{ind}{body}", f"{ind}if spec.get('never'):", f"{ind}    return 5"]
    return "\n".join(L)+"\n"
FUNCS={}
async def run_task(spec, started):
    key=(spec['nnurs'],spec['block'],spec['ending'])
    if key not in FUNCS:
        src=make_task_src("t_%d_%s_%s"%key, *key, None)
        ns={'trio':trio,'run_task':run_task}; exec(compile(src,f"<c14-{key}>","exec"),ns)
        FUNCS[key]=ns["t_%d_%s_%s"%key]
    await FUNCS[key](spec, started)
def count(spec): return 1+sum(count(c) for ns in spec['children'] for c in ns)
def gen_specs(depth):
    leafs=[dict(nnurs=0,block='body',ending='plain',children=[])]
    if depth==0: return leafs
    subs=gen_specs(depth-1)
    out=list(leafs)
    for nn in (1,2):
        for block in ('body','aexit'):
            for ending in ENDINGS:
                for fan in (1,2):
                    for sub in subs[:3]+subs[-2:]:
                        ch=[[sub]*fan for _ in range(nn)]
                        out.append(dict(nnurs=nn,block=block,ending=ending,children=ch))
    return out
def trio_tree(task):
    return [[trio_tree(t) for t in sorted(n.child_tasks, key=id)] for n in task.child_nurseries]
def ext_tree(stack, errs):
    if stack.error is not None: errs.append(stack.error)
    out=[]
    for f in stack.frames:
        for c in f.contexts:
            if isinstance(c.obj, trio.Nursery):
                kids=[]
                for ch in sorted(c.children, key=lambda s: id(s.root)):
                    kids.append(ext_tree(ch, errs))
                out.append(kids)
    return out
res={'n':0,'bad':0}
async def main(spec):
    started=[]
    async with trio.open_nursery() as outer:
        outer.start_soon(run_task, spec, started)
        while len(started)<count(spec): await trio.sleep(0)
        await trio.sleep(0); await trio.sleep(0)
        (root,)=outer.child_tasks
        with warnings.catch_warnings(record=True) as w:
            warnings.simplefilter("always")
            st=stackscope.extract(root, recurse_child_tasks=True)
        errs=[]
        got=ext_tree(st,errs); exp=trio_tree(root)
        res['n']+=1
        # nursery identity order check
        if got!=exp or errs or w:
            res['bad']+=1
            if res['bad']<4: print("MISMATCH", {k:v for k,v in spec.items() if k!='children'}, "errs",errs[:1], "warn",[str(x.message)[:60] for x in w][:1], got, exp)
        outer.cancel_scope.cancel()
for spec in gen_specs(2):
    trio.run(main, spec)
print(sys.version_info[:3], res)
