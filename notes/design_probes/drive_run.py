import sys, types, itertools, warnings, collections, linecache
import stackscope
from gen import programs
@types.coroutine
def ay(v):
    probe('body')
    return (yield v)
def ident(x): return x
FRAME=[None]
def probe(where):
    import warnings
    f=sys._getframe(1)
    while f.f_code.co_name!='prog': f=f.f_back
    with warnings.catch_warnings(record=True) as w:
        warnings.simplefilter("always")
        st=stackscope.extract_since(f)
    got=[(c.obj,c.is_async,c.is_exiting,c.varname) for c in st.frames[0].contexts]
    exp=[(m,isinstance(m,M),m is EXITING[0],f"v{m.n}") for m in TRUTH]
    stats['rpoints']+=1
    if got!=exp or w or st.error is not None:
        stats['rbad']+=1
        fails.setdefault(CUR[0],(tuple(C),where,got,exp,[str(x.message)[:80] for x in w],st.error))
CUR=[None]
TRUTH=[]          # entered-but-not-exited managers, in order
EXITING=[None]
class S:
    def __init__(s,n): s.n=n
    def __repr__(s): return f"S{s.n}"
    def __enter__(s): probe('senter'); TRUTH.append(s); return s
    def __exit__(s,*e):
        EXITING[0]=s; probe('sexit'); EXITING[0]=None; TRUTH.remove(s)
class M:
    swallow=False
    def __init__(s,n): s.n=n
    def __repr__(s): return f"M{s.n}"
    async def __aenter__(s):
        probe('aenter'); TRUTH.append(s); return s
    async def __aexit__(s,*e):
        EXITING[0]=s
        probe('aexit')
        EXITING[0]=None
        TRUTH.remove(s)
        return s.swallow
class MS(M): swallow=True
TICK=[0]
def tick():
    TICK[0]+=1; return TICK[0]<=2
stats=collections.Counter(); fails=collections.OrderedDict()
C=[]
def run(src, nm, nc, idx):
    CUR[0]=src
    fname=f"<g1-{idx}>"
    linecache.cache[fname]=(len(src),None,src.splitlines(True),fname)
    ns=dict(ay=ay,ident=ident,S=S,M=M,MS=MS,C=C,tick=tick)
    code=compile(src,fname,"exec"); exec(code,ns)
    # expected varname/line per manager number, from source text
    for bits in itertools.product([False,True],repeat=nc):
        C[:]=bits; TRUTH.clear(); EXITING[0]=None; TICK[0]=0
        co=ns['prog'](); steps=0
        try:
            while steps<60:
                steps+=1
                v=co.send(None)
                with warnings.catch_warnings(record=True) as w:
                    warnings.simplefilter("always")
                    st=stackscope.extract(co)
                got=[(c.obj,c.is_async,c.is_exiting,c.varname) for c in st.frames[0].contexts]
                exp=[(m,isinstance(m,M),m is EXITING[0],f"v{m.n}") for m in TRUTH]
                stats['points']+=1
                ok = got==exp and not w and st.error is None
                if not ok:
                    stats['bad']+=1
                    key=src
                    fails.setdefault(key,(bits,v,got,exp,[str(x.message)[:80] for x in w],st.error))
        except StopIteration: pass
        except KeyError: pass
        finally:
            co.close()
n=0
import os
lim=int(os.environ.get("LIM","1000000")); 
for idx,(src,nm,nc) in enumerate(programs()):
    if idx>=lim: break
    if idx % int(os.environ.get('STRIDE','1')) != int(os.environ.get('OFFSET','0')): continue
    n+=1; run(src,nm,nc,idx)
print(sys.version_info[:3], "programs",n, dict(stats), "failing programs", len(fails))
for k,(bits,v,got,exp,w,err) in list(fails.items())[:int(os.environ.get("SHOW","6"))]:
    print("-----"); print(k); print("C=",bits,"at",v); print(" got",got); print(" exp",exp); print(" warn",w,"err",err)
