from z3 import *
# C17.fast_path: scanned set S_old (all processed), current set S_new; cache == |S_old| (finite sets as Array Int->Bool over a universe with cardinalities as ints via bounded universe)
N=6
old=[Bool(f'o{i}') for i in range(N)]; new=[Bool(f'n{i}') for i in range(N)]
card=lambda bs: Sum([If(b,1,0) for b in bs])
s=Solver()
s.add(card(old)==card(new))                       # fast path taken
s.add(Or([And(new[i], Not(old[i])) for i in range(N)]))   # some current module never scanned
r=s.check(); print("C17.fast_path:", "REFUTED" if r==sat else r)
m=s.model(); print("  scanned =",[i for i in range(N) if is_true(m.eval(old[i]))],"current =",[i for i in range(N) if is_true(m.eval(new[i]))])
# C04.slice: L[to:from:-1] with Python semantics == [L[j] for j from io down to ii]
n,io,ii,k=Ints('n io ii k')
outer_none, inner_none = Bools('outer_none inner_none')
s=Solver()
s.add(n>=1, 0<=io, io<n, 0<=ii, ii<n)
to_idx = If(outer_none, n, io)
ii_eff = If(inner_none, 0, ii)
from_is_none = Or(inner_none, ii==0)
from_idx = ii-1
# PySlice_AdjustIndices for step=-1: start=to_idx: if start>=n: n-1 ; stop: None -> -1 else (from_idx>=n -> n-1), from_idx>=0 here
start = If(to_idx>=n, n-1, to_idx)
stop = If(from_is_none, -1, If(from_idx>=n, n-1, from_idx))
length = If(start>stop, start-stop, 0)
io_eff = If(outer_none, n-1, io)
exp_len = If(io_eff>=ii_eff, io_eff-ii_eff+1, 0)
s.push(); s.add(length!=exp_len); print("C04.slice length:", "PROVED" if s.check()==unsat else s.model()); s.pop()
s.push(); s.add(0<=k, k<length, start-k != io_eff-k); print("C04.slice elements:", "PROVED" if s.check()==unsat else s.model()); s.pop()
# mutant: from_idx = index(inner) (off by one)
from_idx2 = ii
stop2 = If(from_is_none, -1, If(from_idx2>=n, n-1, from_idx2))
length2 = If(start>stop2, start-stop2, 0)
s.push(); s.add(length2!=exp_len); r=s.check(); print("mutant (index without -1):", "REFUTED" if r==sat else r, s.model() if r==sat else ""); s.pop()
# mutant: drop the `this_thread_frames[0] is inner_frame` special case -> from_idx=-1 means "last element" in Python
stop3 = If(inner_none, -1, If(ii-1<0, ii-1+n, ii-1))   # negative index wraps
length3 = If(start>stop3, start-stop3, 0)
s.push(); s.add(length3!=exp_len); r=s.check(); print("mutant (no special case for index 0):", "REFUTED" if r==sat else r, s.model() if r==sat else ""); s.pop()
