from z3 import *
import time
S = StringSort(); LS = SeqSort(S)
X, pre, lines = Consts('X pre lines', LS)
k = Int('k'); j = Int('j')
A = StringVal("╠ "); B = StringVal("║ ")
def marker(i): return If(i == 0, A, B)
def inv(lines, k):
    return And(Length(lines) == Length(pre) + k, 0 <= k, k <= Length(X),
               ForAll([j], Implies(And(0 <= j, j < Length(pre)), lines[j] == pre[j])),
               ForAll([j], Implies(And(0 <= j, j < k), lines[Length(pre) + j] == Concat(marker(j), X[j]))))
s = Solver(); s.set(timeout=30000)
s.add(inv(lines, k), k < Length(X))
lines2 = Concat(lines, Unit(Concat(marker(k), X[k])))
s.add(Not(inv(lines2, k + 1)))
t=time.time(); print("preservation:", s.check(), round(time.time()-t,2))
# post: every appended line starts with one of the two markers; exactly the first has A
s = Solver(); s.set(timeout=30000)
s.add(inv(lines, k), k == Length(X))
i = Int('i')
s.add(0 <= i, i < Length(X), Not(Or(PrefixOf(A, lines[Length(pre)+i]), PrefixOf(B, lines[Length(pre)+i]))))
t=time.time(); print("post prefix:", s.check(), round(time.time()-t,2))
# mutant: marker test idx == 1
s = Solver(); s.set(timeout=30000)
s.add(inv(lines, k), k < Length(X))
lines2 = Concat(lines, Unit(Concat(If(k == 1, A, B), X[k])))
s.add(Not(inv(lines2, k + 1)))
t=time.time(); r=s.check(); print("mutant preservation:", r, round(time.time()-t,2))
