import sys, types, contextlib, threading, stackscope
from stackscope import _extract as E, _customization as Cu
class Inj(Exception): pass
@types.coroutine
def trap(): yield
@contextlib.asynccontextmanager
async def acm():
    async with contextlib.AsyncExitStack() as st:
        st.enter_context(contextlib.nullcontext())
        st.callback(print)
        yield
@contextlib.contextmanager
def cm():
    with contextlib.ExitStack() as es:
        es.enter_context(contextlib.nullcontext())
        yield
async def inner():
    with cm():
        async with acm():
            await trap()
async def outer():
    async with acm():
        await inner()
def scenario_coro():
    c=outer(); c.send(None); return c, (lambda: c.close())
ev=threading.Event(); ready=threading.Event()
def thr_fn():
    with cm():
        ready.set(); ev.wait()
def scenario_thread():
    global ev, ready
    ev=threading.Event(); ready=threading.Event()
    t=threading.Thread(target=thr_fn); t.start(); ready.wait()
    return t, (lambda: (ev.set(), t.join()))
def scenario_slice():
    return stackscope.StackSlice(), (lambda: None)
HOOKS=[("unwrap_stackitem",E,"unwrap_stackitem"),("elaborate_frame",E,"elaborate_frame"),("elaborate_context",E,"elaborate_context"),
       ("unwrap_context",E,"unwrap_context"),("contexts_active_in_frame",E,"contexts_active_in_frame")]
def flat(stack, acc):
    # all errors in the tree
    if stack.error is not None: acc.append(stack.error)
    for f in stack.frames:
        for c in f.contexts: flatc(c, acc)
def flatc(c, acc):
    if c.inner_stack is not None: flat(c.inner_stack, acc)
    for ch in c.children:
        if isinstance(ch, stackscope.Stack): flat(ch, acc)
        else: flatc(ch, acc)
def contains(err, target):
    if err is target: return True
    return any(contains(e, target) for e in getattr(err, "exceptions", ()))
res=dict(n=0, raised=0, lost=0, prefixbad=0)
for scen in (scenario_coro, scenario_thread, scenario_slice):
    item, cleanup = scen()
    try:
        base = stackscope.extract(item)
        basepy=[f.pyframe for f in base.frames]
        for label, mod, name in HOOKS+[("FrameIterator.__next__",None,None)]:
            # count invocations
            cnt=[0]
            def mk(orig, k, exc):
                def wrapper(*a, **kw):
                    cnt[0]+=1
                    if cnt[0]==k: raise exc
                    return orig(*a, **kw)
                for attr in ("register","dispatch","registry"):
                    if hasattr(orig, attr): setattr(wrapper, attr, getattr(orig, attr))
                return wrapper
            if mod is None:
                orig=Cu.FrameIterator.__next__
                def setp(f): Cu.FrameIterator.__next__=f
            else:
                orig=getattr(mod,name)
                def setp(f, mod=mod, name=name): setattr(mod,name,f)
            setp(mk(orig, -1, None)); stackscope.extract(item); total=cnt[0]; setp(orig)
            for k in range(1,total+1):
                cnt[0]=0; exc=Inj(f"{label}@{k}")
                setp(mk(orig,k,exc))
                try:
                    res['n']+=1
                    try: st=stackscope.extract(item)
                    except BaseException as e:
                        res['raised']+=1; print("RAISED", label, k, repr(e)); continue
                    errs=[]; flat(st, errs)
                    if not any(contains(e, exc) for e in errs):
                        res['lost']+=1
                        if res['lost']<5: print("LOST", scen.__name__, label, k, [repr(e)[:60] for e in errs])
                    got=[f.pyframe for f in st.frames]
                    if got!=basepy[:len(got)]:
                        res['prefixbad']+=1
                    str(st); st.as_stdlib_summary(show_contexts=True); st.format_flat()
                finally: setp(orig)
    finally: cleanup()
print(res)
