"""F19 (C05): a fault met while the contextlib glue extracts the outermost frame of an EXITING generator-based manager's generator
(nested extract_outermost) is recorded in that call's private error list and dropped, because the call still returns its frame:
the final Stack carries the injected exception nowhere.   PYTHONPATH=/repo /venv/bin/python f19.py   (exit 1 = finding present)"""
import contextlib, types, sys
import stackscope
from stackscope import _extract as E


@types.coroutine
def trap():
    yield


class Inner:
    def __enter__(s): return s
    def __exit__(s, *a): return False


@contextlib.asynccontextmanager
async def exiting_acm():
    try:
        yield
    finally:
        with Inner():
            await trap()


REAL = Inner()


@stackscope.unwrap_context_generator.register(exiting_acm.__wrapped__)
def _uw(frame, ctx):
    return REAL


async def user():
    async with exiting_acm():
        pass


c = user(); c.send(None)                     # now suspended inside the manager's __aexit__
boom = ValueError("injected into elaborate_frame of the generator's own frame")
orig = E.elaborate_frame
gen_code = exiting_acm.__wrapped__.__code__
nested = []
orig_eo = E.extract_outermost
def eo(*a, **kw):
    nested.append(1)
    try: return orig_eo(*a, **kw)
    finally: nested.pop()
def faulty(frame, next_inner):
    if nested and frame.pyframe.f_code is gen_code:
        raise boom
    return orig(frame, next_inner)
for attr in ("register", "dispatch", "registry"):
    if hasattr(orig, attr): setattr(faulty, attr, getattr(orig, attr))
E.elaborate_frame = faulty; E.extract_outermost = eo
try:
    st = stackscope.extract(c)
finally:
    E.elaborate_frame = orig; E.extract_outermost = orig_eo
errs = []
def walk(s):
    if s.error is not None: errs.append(s.error)
    for f in s.frames:
        for cx in f.contexts:
            if cx.inner_stack is not None: walk(cx.inner_stack)
            for ch in cx.children:
                if isinstance(ch, stackscope.Stack): walk(ch)
walk(st)
def contains(e, t): return e is t or any(contains(x, t) for x in getattr(e, "exceptions", ()))
print("errors reachable from the result:", errs)
if not any(contains(e, boom) for e in errs):
    print("F19 present: the injected exception was raised during extract() and is reported nowhere")
    sys.exit(1)
print("F19 absent")
