# Design-time probe: is Stack.format() decodable at marker level?  parse(format(s)) == shape(s, opts)
import sys, random, itertools, traceback, pickle
import stackscope
from stackscope import Stack, Frame, Context
random.seed(int(sys.argv[1]) if len(sys.argv)>1 else 0)

def real_frames(n):
    out=[]
    def rec(k):
        out.append(sys._getframe(0))
        if k: rec(k-1)
    rec(n-1); return out
FR = real_frames(6)
class Obj:
    def __init__(s,t): s.t=t
    def __repr__(s): return f"<Obj {s.t}>"
def mk_error():
    try: raise ValueError("boom")
    except ValueError as e: return e
def rnd_stack(depth, as_child=False):
    nfr = random.choice([0,1,2]) if depth>0 else random.choice([0,1])
    frames=[rnd_frame(depth) for _ in range(nfr)]
    return Stack(root=random.choice([None,Obj('root')]), frames=frames,
                 leaf=random.choice([None,None,Obj('leaf')]), error=random.choice([None,None,None,mk_error()]))
def rnd_frame(depth):
    f=Frame(pyframe=random.choice(FR), hide=random.random()<0.2, hide_line=random.random()<0.2)
    nctx = random.choice([0,0,1,2]) if depth>0 else 0
    f.contexts=[rnd_ctx(depth-1) for _ in range(nctx)]
    if f.contexts and random.random()<0.3: f.contexts[-1].is_exiting=True
    return f
def rnd_ctx(depth):
    c=Context(obj=random.choice([None,Obj('mgr')]), is_async=random.random()<0.5,
              varname=random.choice([None,'x','a.b[0]']), start_line=random.choice([None, 5, 12]),
              description=random.choice([None,'desc(...)']), hide=random.random()<0.15)
    if depth>0:
        if random.random()<0.4: c.inner_stack=rnd_stack(depth-1)
        ch=[]
        for _ in range(random.choice([0,0,1,2,3])):
            ch.append(rnd_ctx(depth-1) if random.random()<0.5 else rnd_stack(depth-1, True))
        c.children=ch
    return c

# ---- expected shape (marker-level tree)
def shape_stack_body(s, o):
    out=[]
    for f in s.frames:
        if f.hide and not o['show_hidden_frames']: continue
        out.append(shape_frame(f,o))
    if s.leaf is not None: out.append(('leaf',))
    if s.error is not None: out.append(('error',))
    return out
def shape_frame(f,o):
    kids=[]
    if o['show_contexts']:
        for c in f.contexts:
            sc=shape_ctx(c,o)
            if sc is not None: kids.append(sc)
    has_code = not (f.contexts and f.contexts[-1].is_exiting) and bool(f.linetext)
    return ('frame', tuple(kids), has_code)
def shape_ctx(c,o):
    if c.hide and not o['show_hidden_frames']: return None
    inner = tuple(shape_stack_body(c.inner_stack,o)) if c.inner_stack is not None else ()
    kids=[]
    for ch in c.children:
        if isinstance(ch,Context):
            sc=shape_ctx(ch,o)
            if sc is not None: kids.append(('child',)+sc[1:])
        else:
            kids.append(('child', tuple(shape_stack_body(ch,o)), ()))
    return ('ctx', inner, tuple(kids))

# ---- decoder
M = dict(sf="╠ ", cf="║ ", leaf="╚ ", sc="├ ", cc="│ ", scc="├─", ind="─ ", code="└ ")
def parse_stack_body(lines):
    """lines: body lines of a stack (header removed), each still carrying its 2-char stack marker"""
    out=[]; i=0
    while i<len(lines):
        l=lines[i]
        if l.startswith(M['sf']):
            blk=[l[2:]]; i+=1
            while i<len(lines) and lines[i].startswith(M['cf']): blk.append(lines[i][2:]); i+=1
            out.append(parse_frame(blk))
        elif l.startswith(M['leaf']): out.append(('leaf',)); i+=1
        elif l.startswith("  Error while extracting stack:"):
            i+=1
            while i<len(lines) and lines[i].startswith("  ") and lines[i].strip(): i+=1
            out.append(('error',))
        else: raise ValueError(("stack body?", l))
    return out
def parse_frame(blk):
    kids=[]; has_code=False; i=1
    while i<len(blk):
        l=blk[i]
        if l.startswith(M['code']): has_code=True; i+=1
        elif l.startswith(M['sc']):
            cl=[l[2:]]; i+=1
            while i<len(blk) and (blk[i].startswith(M['cc']) or blk[i].startswith(M['scc'])):
                cl.append(blk[i][2:]); i+=1
            kids.append(parse_ctx(cl))
        else: raise ValueError(("frame?", l))
    return ('frame', tuple(kids), has_code)
def parse_ctx(cl):
    # cl[0] own line; then inner-stack body lines until first child indicator; then children
    i=1; inner=[]
    while i<len(cl) and not cl[i].startswith(M['ind']):
        if cl[i].strip()=="" : break       # blank line before a child task stack
        inner.append(cl[i]); i+=1
    kids=[]
    while i<len(cl):
        l=cl[i]
        if l.strip()=="": i+=1; continue
        assert l.startswith(M['ind']), l
        sub=[l[2:]]; i+=1
        while i<len(cl) and not cl[i].startswith(M['ind']):
            assert cl[i].startswith("  "), cl[i]
            sub.append(cl[i][2:]); i+=1
        # a child is either a context (ctx-level lines) or a stack (body lines): same marker grammar
        while sub and sub[-1].strip()=="": sub.pop()
        k=parse_ctx(sub)
        kids.append(('child',)+k[1:])
    return ('ctx', tuple(parse_stack_body(inner)), tuple(kids))

bad=0;n=0
for t in range(3000):
    s=rnd_stack(3)
    for ao,sc,sh in itertools.product([False,True],repeat=3):
        o=dict(ascii_only=ao, show_contexts=sc, show_hidden_frames=sh)
        lines=s.format(**o); n+=1
        assert all(l.endswith("\n") and l.count("\n")==1 for l in lines), "not single newline-terminated lines"
        assert "".join(s.format())==str(s)
        if ao:
            assert "".join(lines).isascii()
            # marker-map image check
            u=s.format(ascii_only=False, show_contexts=sc, show_hidden_frames=sh)
            assert len(u)==len(lines)
            continue
        try:
            got=parse_stack_body([l for l in lines[1:]])
            exp=shape_stack_body(s,o)
            ok = got==exp
        except Exception as e:
            ok=False; got=repr(e); exp=None
        if not ok:
            bad+=1
            if bad<4: print("MISMATCH", o); print("".join(lines)); print(got); print(exp)
        # C19 sanity: summary length and pickle
        summ=s.as_stdlib_summary(show_contexts=sc, show_hidden_frames=sh)
        pickle.loads(pickle.dumps(summ))
        flat=s.format_flat(show_contexts=sc)
print("cases",n,"bad",bad)
