import sys, stackscope
from stackscope.lowlevel import set_trickery_enabled
OUT=[]
class M:
    def __init__(s,n): s.n=n
    def __repr__(s): return s.n
    def __enter__(s): return s
    def __exit__(s,*a):
        if s.n=="p": OUT.append([(c.obj,c.is_exiting) for c in stackscope.extract(stackscope.StackSlice(outer=G[0].gi_frame)).frames[0].contexts])
r,p=M("r"),M("p")
def g():
    with r:
        with p:
            OUT.append([(c.obj,c.is_exiting) for c in stackscope.extract(stackscope.StackSlice(outer=G[0].gi_frame)).frames[0].contexts])
        yield
G=[None]
for mode in (None, False):
    set_trickery_enabled(mode); del OUT[:]
    G[0]=g(); next(G[0]); print(sys.version_info[:2], "trickery" if mode is None else "referents", OUT)
