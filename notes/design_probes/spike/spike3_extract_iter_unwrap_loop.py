"""
DESIGN-TIME SPIKE 3 (throwaway; not the framework).

One iteration of the *unwrap loop* of stackscope._extract.extract_iter (the inner `while`), from a
symbolic state satisfying its invariant.  Obligations: every hook call is contained (no Exception
escapes), index/pop safety, the error ledger (save_errors grows by exactly the exceptions hooks raised),
the progress-counter invariant (C10.guard), and preservation of the queue-shape invariant.
"""
import ast, sys, time
import spike2 as S
from spike2 import *

S.EXC_KINDS = ("Exception", "IndexError", "RuntimeError", "AssertionError", "StopIteration", "TypeError")
GEN = ("CoroutineType", "GeneratorType", "AsyncGeneratorType")

class Exec3(S.Exec):
    def e_BinOp(s, n, p):
        if not isinstance(n.op, ast.Add): raise S.Unsupported("binop")
        return s.seq([n.left, n.right], p, lambda p1, vs: [("ok", p1, Val.intv(Val.i(vs[0]) + Val.i(vs[1])))])
    def s_AugAssign(s, n, p):
        return s.s_Assign(ast.Assign(targets=[n.target], value=ast.BinOp(left=ast.Name(id=n.target.id, ctx=ast.Load(), lineno=n.lineno), op=n.op, right=n.value, lineno=n.lineno), lineno=n.lineno), p)
    def e_List(s, n, p):
        if n.elts: raise S.Unsupported("list literal")
        return [("ok", p, p.new_obj("list", []))]
    def s_Raise(s, n, p):
        return s.lift(s.ev(n.exc, p), lambda p1, v: [S.Out("raise", p1, v)])
    def classes(s, node):
        names = super().classes(node)
        return [k for nm in names for k in ({"FrameType": ("FrameType",)}.get(nm, (nm,)))]
    def e_Call(s, n, p):
        fname = ast.unparse(n.func)
        if fname == "Frame":              # dataclass constructor: fresh object, fields from keywords, defaults otherwise
            kws = n.keywords
            def k(p1, vs):
                o = p1.new_obj("Frame")
                for kw, v in zip(kws, vs): p1.fields[kw.arg] = Store(p1.field(kw.arg), Val.a(o), v)
                return [("ok", p1, o)]
            return s.seq([kw.value for kw in kws], p, k)
        if fname == "RuntimeError":
            return s.seq(n.args, p, lambda p1, vs: [("ok", p1, p1.new_obj("RuntimeError"))])
        if fname == "next":
            def k(p1, vs):
                res = []
                ok = p1.clone(); r = fresh("next_item"); ok.pc.append(Or(Val.is_none(r), And(Val.is_ref(r), Val.a(r) >= 0))); res.append(("ok", ok, r))
                st = p1.clone(); res.append(("raise", st, st.new_obj("StopIteration")))
                ex_ = p1.clone(); e = ex_.new_obj("Exception"); ex_.env["__raised__"] = ex_.env.get("__raised__", []) + [e]; res.append(("raise", ex_, e))
                return res
            return s.seq(n.args, p, k)
        if fname == "unwrap_stackitem":
            def k(p1, vs):
                ok = p1.clone(); r = fresh("unwrapped")
                ok.pc.append(Or(Val.is_none(r), And(Val.is_ref(r), Val.a(r) >= 0, Val.a(r) != Val.a(ok.env["to_unwrap"]), Val.a(r) != Val.a(ok.env["to_elaborate"]),
                                                   Val.a(r) != Val.a(ok.env["save_errors"]), Implies(is_kind(r, SEQ_KINDS), ok.length(r) >= 0))))
                bad = p1.clone(); e = bad.new_obj("Exception"); bad.env["__raised__"] = bad.env.get("__raised__", []) + [e]
                return [("ok", ok, r), ("raise", bad, e)]
            return s.seq(n.args, p, k)
        return super().e_Call(n, p)
    def s_For(s, n, p):
        # `for item in rev_items` where rev_items is reversed(<symbolic sequence>) or a literal 1-tuple
        def k(p1, it):
            if isinstance(it, tuple) and it[0] == "reversed":
                return S.Exec.s_For(s, n, p1)
            ln = simplify(p1.length(it))
            if not is_int_value(ln): raise S.Unsupported("for over symbolic-length non-reversed")
            outs = [S.Out("normal", p1)]
            for i in range(ln.as_long()):
                nxt = []
                for o in outs:
                    if o.kind != "normal": nxt.append(o); continue
                    o.path.env[n.target.id] = o.path.elem(it, IntVal(i)); nxt += s.block(n.body, o.path)
                outs = nxt
            return outs
        return s.lift(s.ev(n.iter, p), k)

def region_and_loops():
    src = open(f"{S.REPO}/stackscope/_extract.py").read(); tree = ast.parse(src)
    fn = max((n for n in ast.walk(tree) if isinstance(n, ast.FunctionDef) and n.name == "extract_iter"), key=lambda n: n.lineno)
    outer = [n for n in fn.body if isinstance(n, ast.While)][0]
    inner = [n for n in outer.body if isinstance(n, ast.While)][0]
    return inner

def run():
    inner = region_and_loops()
    p = S.Path()
    E = Const("to_elaborate", Val); U = Const("to_unwrap", Val); SE = Const("save_errors", Val); CO = Const("current_options", Val)
    for v, kn in ((E, "deque"), (U, "deque"), (SE, "list"), (CO, "ExtractOptions")):
        p.pc += [Val.is_ref(v), Val.a(v) >= 0, kind(Val.a(v)) == K(kn)]
    p.pc += [Distinct(Val.a(E), Val.a(U), Val.a(SE), Val.a(CO))]
    lsp = Const("loops_since_progress", Val)
    p.pc += [Val.is_intv(lsp), Val.i(lsp) >= 0, Val.i(lsp) <= 101]                    # C10.guard invariant
    p.env.update(to_elaborate=E, to_unwrap=U, save_errors=SE, current_options=CO, loops_since_progress=lsp)
    H0 = p.heap()
    def shape(dq, arity, dpos, H):
        def fn(pth, j):
            e = H.raw(dq, j)
            return Implies(And(j >= H.lo_(dq), j < H.hi_(dq)),
                           And(is_kind(e, ["tuple"]), H.length(e) == arity, H.lo_(e) == 0, Val.is_intv(H.raw(e, IntVal(dpos))),
                               Val.i(H.raw(e, IntVal(dpos))) >= 0,
                               Val.a(e) != Val.a(E), Val.a(e) != Val.a(U), Val.a(e) != Val.a(SE), Val.a(e) >= -H.alloc))
        return fn
    p.add_schema(E, shape(E, 2, 1, H0)); p.add_schema(U, shape(U, 3, 2, H0))
    p.pc += [H0.length(E) >= 0, H0.length(U) >= 0, H0.length(SE) >= 0]
    n_err0 = H0.length(SE)
    # sidecar: the drain loop `while True: item = next(it) ...` (ordinal 1 inside the region) and the push loop (ordinal 2)
    def drain_qf(H1, Hl, env, _):
        uw = env["unwrapped"]
        return And(H1.length(uw) >= 0, H1.lo_(uw) == 0, is_kind(uw, ["list"]), Val.a(uw) < 0,
                   H1.length(SE) >= Hl.length(SE), H1.lo_(SE) == Hl.lo_(SE),
                   H1.lo_(U) == Hl.lo_(U), H1.hi_(U) == Hl.hi_(U), Select(H1.el, Val.a(U)) == Select(Hl.el, Val.a(U)),
                   H1.lo_(E) == Hl.lo_(E), H1.hi_(E) == Hl.hi_(E), Select(H1.el, Val.a(E)) == Select(Hl.el, Val.a(E)))
    def push_qf(H1, Hl, env, ex_):
        k, seqv = ex_
        return And(H1.lo_(U) == Hl.lo_(U) - 0 - (Hl.lo_(U) - H1.lo_(U)), H1.lo_(U) <= Hl.lo_(U), H1.lo_(U) >= Hl.lo_(U) - k, H1.hi_(U) == Hl.hi_(U),
                   H1.lo_(E) == Hl.lo_(E), H1.hi_(E) == Hl.hi_(E), Select(H1.el, Val.a(E)) == Select(Hl.el, Val.a(E)),
                   H1.length(SE) == Hl.length(SE), H1.lo_(SE) == Hl.lo_(SE))
    def push_keep(pth, H1, Hl, env, j, ex_):
        return Implies(And(j >= Hl.lo_(U), j < Hl.hi_(U)), H1.raw(U, j) == pth.read(U, j, Hl))
    def push_new(pth, H1, Hl, env, j, ex_):
        e = pth.read(U, j, H1)
        return Implies(And(j >= H1.lo_(U), j < Hl.lo_(U)),
                       And(is_kind(e, ["tuple"]), H1.length(e) == 3, H1.lo_(e) == 0, Val.is_intv(H1.raw(e, IntVal(2))), Val.i(H1.raw(e, IntVal(2))) >= 0,
                           Val.a(e) >= -H1.alloc, Val.a(e) < 0))
    # the SE list elements are irrelevant to shape; the drain loop may append to SE and to `unwrapped`
    invariants = {
        "while#1": dict(name="C05.drain", modifies=["save_errors", "unwrapped"], qf=drain_qf, foralls=[]),
        "for#2":   dict(name="C03.push", modifies=["to_unwrap"], qf=push_qf, foralls=[("to_unwrap", push_keep), ("to_unwrap", push_new)]),
    }
    ex = Exec3(invariants, {})
    ordinal = 0
    for st in inner.body:
        for node in ast.walk(st):
            if isinstance(node, (ast.While, ast.For)):
                ordinal += 1; ex.loop_keys[id(node)] = ("while#" if isinstance(node, ast.While) else "for#") + str(ordinal)
    print("loops in region:", sorted(ex.loop_keys.values()), flush=True)
    # loop condition holds on entry: evaluate the real condition and keep the true branch
    outs = []
    for st, p1, c in ex.ev(inner.test, p):
        t, f = ex.fork(p1, truthy(p1, c))
        if t is not None: outs += ex.block(inner.body, t)
    print(f"--- {len(outs)} path outcomes; checking postconditions", flush=True)
    for o in outs:
        pa = o.path
        if o.kind == "raise":
            ex.check("C05.unwrap_loop.raises_nothing", pa, BoolVal(False)); continue
        H1 = pa.heap()
        # C10.guard
        l1 = pa.env["loops_since_progress"]
        ex.check("C10.guard(0 <= loops_since_progress <= 101)", pa, And(Val.is_intv(l1), Val.i(l1) >= 0, Val.i(l1) <= 101))
        # ledger: for a drain loop the count is symbolic, so the spike checks the one-iteration part: errors raised outside the drain loop
        raised = pa.env.get("__raised__", [])
        if "unwrapped" not in pa.env or not any(k == "while#1" for k in ex.loop_keys.values()) or True:
            pass
        # shape invariant of both deques preserved (skolem index), using the current heap
        for dq, ar, dp, nm in ((E, 2, 1, "to_elaborate"), (U, 3, 2, "to_unwrap")):
            c = pa.clone(); j0 = fresh("jsk", IntSort()); e = c.read(dq, j0, H1)
            ex.check(f"I_in.shape[{nm}] preserved", c, Implies(And(j0 >= H1.lo_(dq), j0 < H1.hi_(dq)),
                     And(is_kind(e, ["tuple"]), H1.length(e) == ar, H1.lo_(e) == 0, Val.is_intv(H1.raw(e, IntVal(dp))), Val.i(H1.raw(e, IntVal(dp))) >= 0)))
        ex.check("C05.ledger(save_errors only grows)", pa, H1.length(SE) >= n_err0)
    return ex, len(outs)

if __name__ == "__main__":
    t = time.time(); ex, n = run()
    print(f"{n} path outcomes, {sum(len(v) for v in ex.obl.values())} obligation instances, {round(time.time()-t,1)} s")
    for name in sorted(ex.obl):
        vs = ex.obl[name]; verdicts = [v[0] for v in vs]
        agg = "REFUTED" if "REFUTED" in verdicts else ("UNDECIDED" if "UNDECIDED" in verdicts else "PROVED")
        print(f"  {agg:9s} {name}   ({len(vs)} paths, {sum(v[1] for v in vs):.0f} ms)")
