"""
DESIGN-TIME SPIKE 2 (throwaway; not the framework).

Runs the real source of the *elaborate phase* of stackscope._extract.extract_iter (the statements of
the outer `while` body that follow the inner unwrap loop) through a path-forking symbolic executor:
  - all tuples / lists / deques are heap objects: lo, hi and an element array per address
  - loops are cut by sidecar invariants (assert on entry, havoc, assume, one body pass, assert)
  - hooks are oracles (arbitrary result, may raise)
Obligations generated: safety of every popleft/pop/[i] (C05.safe.*), and the step refinement
C10.step.{none,replace,insert} against the reference queue semantics.
Expected on the unchanged tree: C05.safe.insert_popleft REFUTED (F6), C10.step.insert REFUTED (F7).
"""
import ast, sys, itertools, time
import z3
from z3 import *

REPO = sys.argv[1] if len(sys.argv) > 1 else "/repo"
set_param("smt.random_seed", 0)

Val = Datatype("Val")
Val.declare("none"); Val.declare("boolv", ("b", BoolSort())); Val.declare("intv", ("i", IntSort())); Val.declare("ref", ("a", IntSort()))
Val = Val.create()
NONE = Val.none
kind = Function("kind", IntSort(), IntSort())
truthy_ref = Function("truthy_ref", IntSort(), BoolSort())
KINDS = {}
def K(n): return KINDS.setdefault(n, len(KINDS) + 1)
SEQ_KINDS = ("tuple", "list")              # kinds that satisfy isinstance(x, collections.abc.Sequence) in this model
CONTAINER_KINDS = ("tuple", "list", "deque")
EXC_KINDS = ("Exception", "IndexError", "RuntimeError", "AssertionError")

ctr = itertools.count()
def fresh(p="v", sort=None): return Const(f"{p}!{next(ctr)}", Val if sort is None else sort)
AV = ArraySort(IntSort(), Val)

class Heap:
    """immutable snapshot of the container part of the heap"""
    def __init__(s, lo, hi, el, alloc=None): s.lo, s.hi, s.el, s.alloc = lo, hi, el, alloc
    def lo_(s, v): return Select(s.lo, Val.a(v))
    def hi_(s, v): return Select(s.hi, Val.a(v))
    def length(s, v): return Select(s.hi, Val.a(v)) - Select(s.lo, Val.a(v))
    def raw(s, v, j): return Select(Select(s.el, Val.a(v)), j)

class Path:
    def __init__(s):
        s.pc = []; s.env = {}
        s.lo = Array("H_lo", IntSort(), IntSort()); s.hi = Array("H_hi", IntSort(), IntSort())
        s.el = Array("H_el", IntSort(), AV)
        s.fields = {}
        s.yielded = []; s.calls = []; s.alloc = IntVal(0)   # objects allocated so far have addresses -1 .. -alloc
        s.schemas = []      # (address term, fn(path, j_abs) -> Bool): universally quantified facts about a container,
        s.done = set()      #   instantiated at every index that is read (chained through path.read inside fn)
        s.depth = 0
    def clone(s):
        c = Path.__new__(Path); c.__dict__.update(s.__dict__)
        c.pc = list(s.pc); c.env = dict(s.env); c.fields = dict(s.fields); c.yielded = list(s.yielded); c.calls = list(s.calls)
        c.schemas = list(s.schemas); c.done = set(s.done)
        return c
    def feasible(s):
        so = Solver(); so.set(timeout=10000); so.add(s.pc); t = time.time(); r = so.check()
        if time.time() - t > 2: print(f"    [slow feasibility {time.time()-t:.1f}s -> {r}]", flush=True)
        return r != unsat
    def field(s, n):
        if n not in s.fields: s.fields[n] = Array(f"F_{n}", IntSort(), Val)
        return s.fields[n]
    def heap(s): return Heap(s.lo, s.hi, s.el, s.alloc)
    def add_schema(s, v, fn): s.schemas.append((simplify(Val.a(v)), fn))
    def read(s, v, j, H=None):
        """element at absolute index j of container v in heap snapshot H (default: current); instantiates schemas"""
        H = H or s.heap(); a = simplify(Val.a(v)); j = simplify(j)
        if s.depth < 4:
            for idx, (a2, fn) in enumerate(list(s.schemas)):
                if a2.eq(a) and (idx, j.get_id()) not in s.done:
                    s.done.add((idx, j.get_id())); s.depth += 1
                    try: s.pc.append(fn(s, j))
                    finally: s.depth -= 1
        return H.raw(v, j)
    def new_obj(s, kindname, elems=None):
        s.alloc = simplify(s.alloc + 1); a = simplify(-s.alloc)   # fresh: below every address allocated so far; inputs are >= 0
        s.pc.append(kind(a) == K(kindname))
        if elems is not None:
            s.lo = Store(s.lo, a, 0); s.hi = Store(s.hi, a, len(elems))
            arr = z3.K(IntSort(), NONE)
            for i, e in enumerate(elems): arr = Store(arr, i, e)
            s.el = Store(s.el, a, arr)
        return Val.ref(a)
    def length(s, v): return Select(s.hi, Val.a(v)) - Select(s.lo, Val.a(v))
    def elem(s, v, k):    # k-th element from the left (k a z3 Int)
        return s.read(v, Select(s.lo, Val.a(v)) + k)

def is_kind(v, names): return And(Val.is_ref(v), Or([kind(Val.a(v)) == K(n) for n in names]))
def truthy(p, v):
    return If(Val.is_none(v), False, If(Val.is_boolv(v), Val.b(v), If(Val.is_intv(v), Val.i(v) != 0,
           If(is_kind(v, CONTAINER_KINDS), p.length(v) != 0, truthy_ref(Val.a(v))))))

class Out:
    def __init__(s, kind, path, value=None): s.kind, s.path, s.value = kind, path, value
class Unsupported(Exception): pass

class Exec:
    def __init__(s, invariants, oracle_names):
        s.inv = invariants; s.oracles = oracle_names; s.obl = {}   # clause name -> list of (verdict, ms, model, note)
        s.loop_keys = {}
    # ---------------- obligations
    def check(s, name, path, formula, note=""):
        so = Solver(); so.set(timeout=30000); so.add(path.pc); so.add(Not(formula))
        t = time.time(); r = so.check(); ms = (time.time() - t) * 1000
        verdict = "PROVED" if r == unsat else ("REFUTED" if r == sat else "UNDECIDED")
        print(f"    [{verdict} {ms:.0f}ms] {name}", flush=True)
        if r == sat and name.startswith("C05.safe.index[items"):
            m = so.model(); rp = path.env.get("replacement"); it = path.env.get("items")
            print("       model: replacement =", m.eval(rp), " kind =", m.eval(kind(Val.a(rp))), " len(items) =", m.eval(path.length(it)), " KINDS=", KINDS, flush=True)
        s.obl.setdefault(name, []).append((verdict, ms, so.model() if r == sat else None, note))
        return verdict
    def fork(s, path, cond):
        res = []
        for c in (cond, Not(cond)):
            p = path.clone(); p.pc.append(c); res.append(p if p.feasible() else None)
        return res
    def raise_(s, path, kindname):
        e = path.new_obj(kindname); return ("raise", path, e)
    # ---------------- expressions: return list of (status, path, value)
    def ev(s, n, p):
        m = getattr(s, "e_" + type(n).__name__, None)
        if m is None: raise Unsupported(f"expr {type(n).__name__} @ {getattr(n,'lineno','?')}")
        return m(n, p)
    def seq(s, nodes, p, k):
        """evaluate nodes left-to-right, then call k(path, values) -> list of results"""
        def go(i, path, acc):
            if i == len(nodes): return k(path, acc)
            res = []
            for st, p1, v in s.ev(nodes[i], path):
                if st != "ok": res.append((st, p1, v)); continue
                res += go(i + 1, p1, acc + [v])
            return res
        return go(0, p, [])
    def e_Constant(s, n, p):
        v = n.value
        if v is None: return [("ok", p, NONE)]
        if isinstance(v, bool): return [("ok", p, Val.boolv(BoolVal(v)))]
        if isinstance(v, int): return [("ok", p, Val.intv(IntVal(v)))]
        return [("ok", p, fresh("const"))]
    def e_JoinedStr(s, n, p): return [("ok", p, fresh("fstr"))]
    def e_Name(s, n, p):
        if n.id in p.env: return [("ok", p, p.env[n.id])]
        raise Unsupported(f"name {n.id} @ {n.lineno}")
    def e_Attribute(s, n, p):
        return s.seq([n.value], p, lambda p1, vs: [("ok", p1, Select(p1.field(n.attr), Val.a(vs[0])))])
    def e_Tuple(s, n, p):
        def k(p1, vs):
            elems = []
            # star elements: splice a known-arity tuple (arity comes from the path condition: we require it concrete here)
            for node, v in zip(n.elts, vs):
                if isinstance(node, ast.Starred):
                    ar = STAR_ARITY.get(ast.dump(node.value))
                    if ar is None: raise Unsupported("starred of unknown arity")
                    s.check("C05.safe.star_unpack_arity", p1, p1.length(v) == ar)
                    elems += [p1.elem(v, IntVal(i)) for i in range(ar)]
                else: elems.append(v)
            return [("ok", p1, p1.new_obj("tuple", elems))]
        return s.seq([e.value if isinstance(e, ast.Starred) else e for e in n.elts], p, k)
    def e_Subscript(s, n, p):
        if isinstance(n.slice, ast.Slice):
            sl = n.slice
            if not (sl.lower is None and sl.step is None and ast.unparse(sl.upper) == "-1"): raise Unsupported("general slice")
            def ks(p1, vs):      # seq[:-1]  ->  fresh tuple of length max(n-1, 0) with an element schema
                src = vs[0]; H = p1.heap(); ln = H.length(src)
                new = p1.new_obj("tuple"); a = Val.a(new); arr = fresh("slice_el", AV)
                newlen = If(ln > 0, ln - 1, 0)
                p1.lo = Store(p1.lo, a, 0); p1.hi = Store(p1.hi, a, newlen); p1.el = Store(p1.el, a, arr)
                p1.add_schema(new, lambda pth, j: Implies(And(j >= 0, j < newlen), Select(arr, j) == pth.read(src, H.lo_(src) + j, H)))
                return [("ok", p1, new)]
            return s.seq([n.value], p, ks)
        def k(p1, vs):
            obj, idx = vs
            i = Val.i(idx); ln = p1.length(obj)
            pos = If(i >= 0, i, ln + i)
            name = f"C05.safe.index[{ast.unparse(n)}]"
            s.check(name, p1, And(pos >= 0, pos < ln))
            ok, bad = s.fork(p1, And(pos >= 0, pos < ln))
            res = []
            if ok is not None: res.append(("ok", ok, ok.elem(obj, pos)))
            if bad is not None: res.append(s.raise_(bad, "IndexError"))
            return res
        return s.seq([n.value, n.slice], p, k)
    def e_BoolOp(s, n, p):
        def go(i, path):
            res = []
            for st, p1, v in s.ev(n.values[i], path):
                if st != "ok" or i == len(n.values) - 1: res.append((st, p1, v)); continue
                t, f = s.fork(p1, truthy(p1, v))
                cont, stop = (t, f) if isinstance(n.op, ast.And) else (f, t)
                if stop is not None: res.append(("ok", stop, v))
                if cont is not None: res += go(i + 1, cont)
            return res
        return go(0, p)
    def e_UnaryOp(s, n, p):
        if isinstance(n.op, ast.USub):
            return s.seq([n.operand], p, lambda p1, vs: [("ok", p1, Val.intv(-Val.i(vs[0])))])
        return s.seq([n.operand], p, lambda p1, vs: [("ok", p1, Val.boolv(Not(truthy(p1, vs[0]))))])
    def e_IfExp(s, n, p):
        res = []
        for st, p1, c in s.ev(n.test, p):
            if st != "ok": res.append((st, p1, c)); continue
            t, f = s.fork(p1, truthy(p1, c))
            if t is not None: res += s.ev(n.body, t)
            if f is not None: res += s.ev(n.orelse, f)
        return res
    def e_Compare(s, n, p):
        def k(p1, vs):
            a, b = vs; op = n.ops[0]
            r = {ast.Is: lambda: a == b, ast.IsNot: lambda: a != b, ast.GtE: lambda: Val.i(a) >= Val.i(b),
                 ast.Gt: lambda: Val.i(a) > Val.i(b), ast.Lt: lambda: Val.i(a) < Val.i(b)}[type(op)]()
            return [("ok", p1, Val.boolv(r))]
        if len(n.ops) != 1: raise Unsupported("chained compare")
        return s.seq([n.left, n.comparators[0]], p, k)
    def classes(s, node):
        if isinstance(node, ast.Tuple): return [c for e in node.elts for c in s.classes(e)]
        return [ast.unparse(node).split(".")[-1]]
    def e_Call(s, n, p):
        f = n.func; fname = ast.unparse(f)
        if fname == "isinstance":
            names = s.classes(n.args[1])
            names = [k for nm in names for k in ({"Sequence": SEQ_KINDS, "Frame": ("Frame",)}.get(nm, (nm,)))]
            return s.seq([n.args[0]], p, lambda p1, vs: [("ok", p1, Val.boolv(is_kind(vs[0], names)))])
        if fname == "list":        # spike: list(<generator expression>) is opaque here (leaf-return path, outside the step refinement)
            r = fresh("lst"); return [("ok", p, r)]
        if fname == "len":
            return s.seq([n.args[0]], p, lambda p1, vs: [("ok", p1, Val.intv(p1.length(vs[0])))])
        if fname == "reversed":
            return s.seq([n.args[0]], p, lambda p1, vs: [("ok", p1, ("reversed", vs[0]))])
        if fname == "better_origin":          # callee under contract (proved in spike 1): result is one of its arguments
            def k(p1, vs):
                r = fresh("bo"); p1.pc.append(Or(r == vs[0], r == vs[1])); return [("ok", p1, r)]
            return s.seq(n.args, p, k)
        if isinstance(f, ast.Attribute) and f.attr in ("popleft", "pop", "appendleft", "append"):
            def k(p1, vs):
                dq = vs[0]; a = Val.a(dq); lo, hi = Select(p1.lo, a), Select(p1.hi, a)
                if f.attr in ("popleft", "pop"):
                    name = f"C05.safe.{f.attr}[{ast.unparse(f.value)}]@{SITE.get(n.lineno, n.lineno)}"
                    s.check(name, p1, hi - lo > 0)
                    ok, bad = s.fork(p1, hi - lo > 0); res = []
                    if ok is not None:
                        if f.attr == "popleft":
                            v = ok.read(dq, lo); ok.lo = Store(ok.lo, a, lo + 1)
                        else:
                            v = ok.read(dq, hi - 1); ok.hi = Store(ok.hi, a, hi - 1)
                        res.append(("ok", ok, v))
                    if bad is not None: res.append(s.raise_(bad, "IndexError"))
                    return res
                x = vs[1]
                if f.attr == "appendleft":
                    p1.el = Store(p1.el, a, Store(Select(p1.el, a), lo - 1, x)); p1.lo = Store(p1.lo, a, lo - 1)
                else:
                    p1.el = Store(p1.el, a, Store(Select(p1.el, a), hi, x)); p1.hi = Store(p1.hi, a, hi + 1)
                return [("ok", p1, NONE)]
            return s.seq([f.value] + n.args, p, k)
        if fname in s.oracles:
            def k(p1, vs):
                p1.calls.append((fname, vs))
                for fld in s.oracles[fname].get("havoc_fields", ()):
                    p1.fields[fld] = Store(p1.field(fld), Val.a(vs[0]), fresh("hv_" + fld))
                ok = p1.clone(); r = fresh("ret_" + fname)
                for c in s.oracles[fname].get("post", ()): ok.pc.append(c(ok, r, vs))
                bad = p1.clone(); res = [("ok", ok, r)]
                if s.oracles[fname].get("may_raise", True): res.append(s.raise_(bad, "Exception"))
                return res
            return s.seq(n.args, p, k)
        raise Unsupported(f"call {fname} @ {n.lineno}")
    def e_Yield(s, n, p):
        def k(p1, vs): p1.yielded.append(vs[0]); return [("ok", p1, NONE)]
        return s.seq([n.value], p, k)
    # ---------------- statements
    def block(s, stmts, p):
        outs = [Out("normal", p)]
        for st in stmts:
            nxt = []
            for o in outs:
                if o.kind != "normal": nxt.append(o); continue
                nxt += s.stmt(st, o.path)
            outs = nxt
        return outs
    def stmt(s, n, p):
        m = getattr(s, "s_" + type(n).__name__, None)
        if m is None: raise Unsupported(f"stmt {type(n).__name__} @ {n.lineno}")
        return m(n, p)
    def lift(s, results, k=None):
        outs = []
        for st, p1, v in results:
            if st != "ok": outs.append(Out("raise", p1, v))
            elif k: outs += k(p1, v)
            else: outs.append(Out("normal", p1))
        return outs
    def s_Expr(s, n, p): return s.lift(s.ev(n.value, p))
    def assign(s, tgt, v, p):
        if isinstance(tgt, ast.Name): p.env[tgt.id] = v; return [Out("normal", p)]
        if isinstance(tgt, ast.Attribute):
            return s.lift(s.ev(tgt.value, p), lambda p1, o: (p1.fields.__setitem__(tgt.attr, Store(p1.field(tgt.attr), Val.a(o), v)), [Out("normal", p1)])[1])
        if isinstance(tgt, ast.Tuple):
            s.check(f"C05.safe.unpack[{ast.unparse(tgt)}]", p, p.length(v) == len(tgt.elts))
            outs = [Out("normal", p)]
            for i, t in enumerate(tgt.elts):
                outs = [o2 for o in outs for o2 in s.assign(t, o.path.elem(v, IntVal(i)), o.path)]
            return outs
        raise Unsupported("assign target")
    def s_Assign(s, n, p): return s.lift(s.ev(n.value, p), lambda p1, v: s.assign(n.targets[0], v, p1))
    def s_AnnAssign(s, n, p): return [Out("normal", p)] if n.value is None else s.lift(s.ev(n.value, p), lambda p1, v: s.assign(n.target, v, p1))
    def s_Assert(s, n, p):
        def k(p1, v):
            s.check(f"C05.safe.assert[{ast.unparse(n.test)}]", p1, truthy(p1, v))
            t, f = s.fork(p1, truthy(p1, v)); outs = []
            if t is not None: outs.append(Out("normal", t))
            if f is not None: outs.append(Out(*s.raise_(f, "AssertionError")))
            return outs
        return s.lift(s.ev(n.test, p), k)
    def s_If(s, n, p):
        def k(p1, c):
            t, f = s.fork(p1, truthy(p1, c)); outs = []
            if t is not None: outs += s.block(n.body, t)
            if f is not None: outs += s.block(n.orelse, f)
            return outs
        return s.lift(s.ev(n.test, p), k)
    def s_Return(s, n, p): return s.lift(s.ev(n.value, p), lambda p1, v: [Out("return", p1, v)]) if n.value else [Out("return", p, NONE)]
    def s_Break(s, n, p): return [Out("break", p)]
    def s_Continue(s, n, p): return [Out("continue", p)]
    def s_Pass(s, n, p): return [Out("normal", p)]
    def s_Try(s, n, p):
        outs = []
        for o in s.block(n.body, p):
            if o.kind == "normal": outs += s.block(n.orelse, o.path)
            elif o.kind == "raise":
                rem = o.path
                for h in n.handlers:
                    names = s.classes(h.type) if h.type else ["Exception"]
                    names = [k for nm in names for k in (EXC_KINDS if nm == "Exception" else (nm,))]
                    t, f = s.fork(rem, is_kind(o.value, names))
                    if t is not None:
                        if h.name: t.env[h.name] = o.value
                        outs += s.block(h.body, t)
                    rem = f
                    if rem is None: break
                if rem is not None: outs.append(Out("raise", rem, o.value))
            else: outs.append(o)
        return outs
    def havoc_containers(s, p, names):
        old_alloc = p.alloc; p.alloc = fresh("alloc", IntSort()); p.pc.append(p.alloc >= old_alloc)
        for nm in names:
            a = Val.a(p.env[nm])
            p.lo = Store(p.lo, a, fresh("lo", IntSort())); p.hi = Store(p.hi, a, fresh("hi", IntSort()))
            p.el = Store(p.el, a, fresh("el", AV))
    # invariants: spec = dict(name, modifies, qf=fn(H1,H0,env,extra)->Bool, foralls=[(container var, fn(path,H1,H0,env,j,extra)->Bool)])
    def check_inv(s, spec, stage, p, H0, extra):
        H1 = p.heap()
        s.check(f"{spec['name']}.{stage}.qf", p, spec["qf"](H1, H0, p.env, extra))
        for i, (cvar, fn) in enumerate(spec["foralls"]):
            c = p.clone(); j0 = fresh("jsk", IntSort())
            body = fn(c, H1, H0, c.env, j0, extra)          # reads inside instantiate older schemas into c.pc
            s.check(f"{spec['name']}.{stage}.forall{i}[{cvar}]", c, body)
    def assume_inv(s, spec, p, H0, extra):
        H1 = p.heap(); env = dict(p.env)
        p.pc.append(spec["qf"](H1, H0, env, extra))
        for cvar, fn in spec["foralls"]:
            p.add_schema(env[cvar], lambda pth, j, fn=fn: fn(pth, H1, H0, env, j, extra))
    def s_While(s, n, p):
        spec = s.inv[s.loop_keys[id(n)]]; H0 = p.heap()
        s.check_inv(spec, "entry", p, H0, None)
        s.havoc_containers(p, spec["modifies"]); s.assume_inv(spec, p, H0, None)
        def k(p1, c):
            t, f = s.fork(p1, truthy(p1, c)); res = []
            if t is not None:
                for o in s.block(n.body, t):
                    if o.kind in ("normal", "continue"): s.check_inv(spec, "preserved", o.path, H0, None)
                    elif o.kind == "break": res.append(Out("normal", o.path))
                    else: res.append(o)
            if f is not None: res.append(Out("normal", f))
            return res
        return s.lift(s.ev(n.test, p), k)
    def s_For(s, n, p):
        """for x in reversed(seq): body   -- cut by an invariant over the ghost count k of iterations done"""
        key = s.loop_keys[id(n)]
        def k(p1, it):
            if not (isinstance(it, tuple) and it[0] == "reversed"):
                # plain `for x in seq`: the spike supports only the provably-empty case (no invariant supplied)
                s.check(f"spike.only_empty_iteration[{ast.unparse(n.iter)}]", p1, p1.length(it) == 0)
                p1.pc.append(p1.length(it) == 0); return [Out("normal", p1)]
            spec = s.inv[key]; seqv = it[1]; H0 = p1.heap(); n_items = p1.length(seqv)
            s.check_inv(spec, "entry", p1, H0, (IntVal(0), seqv))
            s.havoc_containers(p1, spec["modifies"]); kk = fresh("k", IntSort())
            p1.pc += [kk >= 0, kk <= n_items]
            s.assume_inv(spec, p1, H0, (kk, seqv))
            more, done = s.fork(p1, kk < n_items); res = []
            if more is not None:
                more.env[n.target.id] = more.elem(seqv, n_items - 1 - kk)
                for o in s.block(n.body, more):
                    if o.kind in ("normal", "continue"): s.check_inv(spec, "preserved", o.path, H0, (kk + 1, seqv))
                    else: res.append(o)
            if done is not None:
                done.pc.append(kk == n_items); res.append(Out("normal", done))
            return res
        return s.lift(s.ev(n.iter, p), k)

STAR_ARITY = {}
SITE = {}

# ================================================================= the target region and its sidecar
def get_region():
    src = open(f"{REPO}/stackscope/_extract.py").read(); tree = ast.parse(src)
    fn = max((n for n in ast.walk(tree) if isinstance(n, ast.FunctionDef) and n.name == "extract_iter"), key=lambda n: n.lineno)
    outer = [n for n in fn.body if isinstance(n, ast.While)][0]
    idx = [i for i, n in enumerate(outer.body) if isinstance(n, ast.While)][0]
    region = outer.body[idx + 1:]
    for n in ast.walk(outer):      # label the popleft in the insert branch for a stable obligation name
        if isinstance(n, ast.Call) and isinstance(n.func, ast.Attribute) and n.func.attr == "popleft":
            parents = [st for st in ast.walk(outer) if isinstance(st, ast.If) and any(n is x for b in st.orelse for x in ast.walk(b))]
            if any("items[-1] is not next_inner" in ast.unparse(pst.test) for pst in parents): SITE[n.lineno] = "insert_branch"
    return region

def run():
    region = get_region()
    p = Path()
    E = Const("to_elaborate", Val); U = Const("to_unwrap", Val); SE = Const("save_errors", Val); CO = Const("current_options", Val)
    for v, kn in ((E, "deque"), (U, "deque"), (SE, "list"), (CO, "ExtractOptions")):
        p.pc += [Val.is_ref(v), Val.a(v) >= 0, kind(Val.a(v)) == K(kn)]
    p.pc += [Distinct(Val.a(E), Val.a(U), Val.a(SE), Val.a(CO))]
    p.env.update(to_elaborate=E, to_unwrap=U, save_errors=SE, current_options=CO)
    p.env["PRUNE"] = p.new_obj("tuple", [])
    Hpre = p.heap()
    # outer-loop invariant, entry-shape part, as schemas: every entry of E is a 2-tuple (item, int depth), of U a 3-tuple (origin, item, int depth)
    def entry_shape(dq, arity, dpos):
        def fn(pth, j):
            e = Hpre.raw(dq, j)
            return Implies(And(j >= Hpre.lo_(dq), j < Hpre.hi_(dq)),
                           And(is_kind(e, ["tuple"]), Val.a(e) >= 0, Hpre.length(e) == arity, Hpre.lo_(e) == 0,
                               Val.is_intv(Hpre.raw(e, IntVal(dpos))), Val.a(e) != Val.a(E), Val.a(e) != Val.a(U)))
        return fn
    p.add_schema(E, entry_shape(E, 2, 1)); p.add_schema(U, entry_shape(U, 3, 2))
    nE, nU = Hpre.length(E), Hpre.length(U)
    p.pc += [nE >= 0, nU >= 0]
    p.pc += [nU == 0]        # exit fact of the inner unwrap loop as the source stands (isinstance(<tuple>, Frame) is False)
    p.pc += [Val.is_boolv(Select(p.field("with_contexts"), Val.a(CO)))]
    STAR_ARITY[ast.dump(ast.parse("to_elaborate.pop()", mode="eval").body)] = 2
    pre = p.clone()
    # ---- sidecar invariants
    def mv_qf(H1, H0, env, _):
        m = H0.length(E) - H1.length(E)
        return And(H1.length(E) >= 0, m >= 0, H1.lo_(E) == H0.lo_(E), H1.lo_(U) == H0.lo_(U) - m, H1.hi_(U) == H0.hi_(U))
    def mv_keepE(pth, H1, H0, env, j, _):
        return Implies(And(j >= H1.lo_(E), j < H1.hi_(E)), H1.raw(E, j) == pth.read(E, j, H0))
    def mv_keepU(pth, H1, H0, env, j, _):
        return Implies(And(j >= H0.lo_(U), j < H0.hi_(U)), H1.raw(U, j) == pth.read(U, j, H0))
    def mv_moved(pth, H1, H0, env, j, _):
        # position j in [lo1, lo0) of U holds a fresh 3-tuple (None, *E0[hiE1 + (j - lo1)])
        e = pth.read(U, j, H1); src = pth.read(E, H1.hi_(E) + (j - H1.lo_(U)), H0)
        return Implies(And(j >= H1.lo_(U), j < H0.lo_(U)),
                       And(is_kind(e, ["tuple"]), H1.length(e) == 3, H1.lo_(e) == 0, H1.raw(e, IntVal(0)) == NONE,
                           H1.raw(e, IntVal(1)) == H0.raw(src, IntVal(0)), H1.raw(e, IntVal(2)) == H0.raw(src, IntVal(1)),
                           Val.is_intv(H1.raw(e, IntVal(2))), Val.a(e) >= -H1.alloc, Val.a(e) < 0))
    def dr_qf(H1, H0, env, _):
        return And(H1.lo_(U) >= H0.lo_(U), H1.lo_(U) <= H0.hi_(U), H1.hi_(U) == H0.hi_(U), Select(H1.el, Val.a(U)) == Select(H0.el, Val.a(U)),
                   H1.length(E) == H0.length(E))
    def dr_dropped(pth, H1, H0, env, j, _):
        e = pth.read(U, j, H0)
        return Implies(And(j >= H0.lo_(U), j < H1.lo_(U)), Val.i(H0.raw(e, IntVal(2))) >= Val.i(env["depth"]))
    def pu_qf(H1, H0, env, ex_):
        k, seqv = ex_
        return And(H1.lo_(U) == H0.lo_(U) - k, H1.hi_(U) == H0.hi_(U), H1.length(E) == H0.length(E))
    def pu_keepU(pth, H1, H0, env, j, ex_):
        return Implies(And(j >= H0.lo_(U), j < H0.hi_(U)), H1.raw(U, j) == pth.read(U, j, H0))
    def pu_pushed(pth, H1, H0, env, j, ex_):
        k, seqv = ex_; e = pth.read(U, j, H1); n_items = H0.length(seqv)
        return Implies(And(j >= H1.lo_(U), j < H0.lo_(U)),
                       And(is_kind(e, ["tuple"]), H1.length(e) == 3, H1.lo_(e) == 0,
                           H1.raw(e, IntVal(1)) == H0.raw(seqv, H0.lo_(seqv) + n_items - k + (j - H1.lo_(U))),
                           H1.raw(e, IntVal(2)) == env["depth"], Val.a(e) >= -H1.alloc, Val.a(e) < 0))
    invariants = {
        "while#2": dict(name="C10.move", modifies=["to_elaborate", "to_unwrap"], qf=mv_qf, foralls=[("to_elaborate", mv_keepE), ("to_unwrap", mv_keepU), ("to_unwrap", mv_moved)]),
        "while#3": dict(name="C10.drop", modifies=["to_unwrap"], qf=dr_qf, foralls=[("to_unwrap", dr_dropped)]),
        "for#4":   dict(name="C10.push", modifies=["to_unwrap"], qf=pu_qf, foralls=[("to_unwrap", pu_keepU), ("to_unwrap", pu_pushed)]),
    }
    oracles = {
        "contexts_active_in_frame": dict(post=[lambda pa, r, a: is_kind(r, ["list"]), lambda pa, r, a: Val.a(r) >= 0, lambda pa, r, a: pa.length(r) == 0]),
        "fill_context": dict(),
        "elaborate_frame": dict(havoc_fields=["hide", "hide_line", "contexts"],
                                post=[lambda pa, r, a: Or(Val.is_none(r), And(Val.is_ref(r), Val.a(r) >= 0, Val.a(r) != Val.a(E), Val.a(r) != Val.a(U),
                                                                             Implies(is_kind(r, SEQ_KINDS), pa.length(r) >= 0)))]),
    }
    ex = Exec(invariants, oracles)
    ordinal = 0
    for st in region:
        for node in ast.walk(st):
            if isinstance(node, (ast.While, ast.For)):
                ordinal += 1
                ex.loop_keys[id(node)] = ("while#" if isinstance(node, ast.While) else "for#") + str(ordinal)
    print("loops in region:", sorted(ex.loop_keys.values()), flush=True)
    outs = ex.block(region, p)
    print(f"--- {len(outs)} path outcomes; checking postconditions", flush=True)
    # ---------------- postconditions: step refinement against the reference queue semantics
    def Q(pth, H, kx):          # abstract queue E ++ U in heap H: (item, depth) at position kx
        nE_ = H.length(E)
        eE = pth.read(E, H.lo_(E) + kx, H); eU = pth.read(U, H.lo_(U) + (kx - nE_), H)
        return (If(kx < nE_, H.raw(eE, IntVal(0)), H.raw(eU, IntVal(1))),
                If(kx < nE_, Val.i(H.raw(eE, IntVal(1))), Val.i(H.raw(eU, IntVal(2)))))
    for o in outs:
        pa = o.path
        if o.kind == "raise":
            ex.check("C05.extract_iter.raises_nothing", pa, BoolVal(False)); continue
        if o.kind in ("break", "return") or not pa.yielded: continue
        d = Val.i(pa.env["depth"]); H1 = pa.heap(); kq = fresh("kq", IntSort())
        nQ0 = Hpre.length(E) - 1 + Hpre.length(U)                 # queue after the frame was popped
        Q0 = lambda kx: Q(pa, Hpre, kx + 1)
        Q1 = lambda kx: Q(pa, H1, kx)
        nQ1 = H1.length(E) + H1.length(U)
        if "items" not in pa.env:
            a1, b1 = Q1(kq); a0, b0 = Q0(kq)
            ex.check("C10.step.none", pa, And(nQ1 == nQ0, Implies(And(kq >= 0, kq < nQ0), And(a1 == a0, b1 == b0)))); continue
        items = pa.env["items"]; nI = pa.length(items); next_inner = pa.env["next_inner"]
        insert = And(nI > 0, pa.elem(items, nI - 1) == next_inner)
        def sat_with(c):
            so = Solver(); so.set(timeout=10000); so.add(pa.pc); so.add(c); return so.check() == sat
        if sat_with(insert) and not sat_with(Not(insert)):
            ri = lambda kx: If(kx < nI - 1, pa.elem(items, kx), Q0(kx - (nI - 1))[0])
            rd = lambda kx: If(kx < nI - 1, d, Q0(kx - (nI - 1))[1])
            a1, b1 = Q1(kq)
            ex.check("C10.step.insert", pa, And(nQ1 == nI - 1 + nQ0, Implies(And(kq >= 0, kq < nI - 1 + nQ0), And(a1 == ri(kq), b1 == rd(kq)))))
        elif sat_with(Not(insert)) and not sat_with(insert):
            # m = number of leading entries of Q0 dropped (depth >= d): by C10.drop, m = lo1' - lo0' in to_unwrap after the move; use the minimality facts
            m = fresh("m", IntSort()); jj = fresh("jj", IntSort())
            a_m, d_m = Q0(m); a_j, d_j = Q0(jj)
            pa.pc += [m >= 0, m <= nQ0, Or(m == nQ0, d_m < d)]
            pa.pc += [Implies(And(jj >= 0, jj < m), d_j >= d)]       # instantiated below at the needed index
            ri = lambda kx: If(kx < nI, pa.elem(items, kx), Q0(kx - nI + m)[0])
            rd = lambda kx: If(kx < nI, d, Q0(kx - nI + m)[1])
            a1, b1 = Q1(kq)
            ex.check("C10.step.replace(length)", pa, nQ1 <= nI + nQ0)
            ex.check("C10.step.replace(pushed part)", pa, Implies(And(kq >= 0, kq < nI), And(a1 == pa.elem(items, kq), b1 == d)))
    return ex, len(outs)

if __name__ == "__main__":
    t = time.time(); ex, n = run()
    print(f"{n} path outcomes, {sum(len(v) for v in ex.obl.values())} obligation instances, {round(time.time()-t,1)} s")
    for name in sorted(ex.obl):
        vs = ex.obl[name]; verdicts = [v[0] for v in vs]
        agg = "REFUTED" if "REFUTED" in verdicts else ("UNDECIDED" if "UNDECIDED" in verdicts else "PROVED")
        print(f"  {agg:9s} {name}   ({len(vs)} paths, {sum(v[1] for v in vs):.0f} ms)")
