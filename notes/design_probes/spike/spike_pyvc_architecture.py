"""
DESIGN-TIME SPIKE (throwaway; not the framework).

Question answered: can a forward, path-forking symbolic executor over the *real* ASTs of
/repo, with a universal z3 value datatype, Burstall field arrays, kind tags for isinstance,
exceptions as outcomes, closures as symbolic free variables and hooks as oracles, discharge
real obligations and produce the expected counter-models?  Targets:
  - stackscope._customization.customize.customize_it   (expect hide_line obligation REFUTED = F3)
  - stackscope._extract.better_origin                   (expect PROVED)
  - stackscope._extract.extract_child                   (stub branch + guard; loop cut by contract of extract_iter)
"""
import ast, sys, itertools, time
from z3 import *

REPO = sys.argv[1] if len(sys.argv) > 1 else "/repo"

# ---------------------------------------------------------------- values
Val = Datatype("Val")
Val.declare("none")
Val.declare("boolv", ("b", BoolSort()))
Val.declare("intv", ("i", IntSort()))
Val.declare("ref", ("a", IntSort()))
Val.declare("tup", ("t", IntSort()))      # interned tuple id; components via UFs
Val = Val.create()
NONE = Val.none
kind = Function("kind", IntSort(), IntSort())            # class tag of a ref
truthy_ref = Function("truthy_ref", IntSort(), BoolSort())
tup_len = Function("tup_len", IntSort(), IntSort())
tup_get = Function("tup_get", IntSort(), IntSort(), Val)

KINDS = {}
def K(name):
    return KINDS.setdefault(name, len(KINDS) + 1)
SUBCLASS = {  # name -> set of names that are instances of it
    "Exception": {"Exception", "TypeError", "RuntimeError", "ValueError", "KeyError", "IndexError", "AssertionError"},
    "TypeError": {"TypeError"}, "RuntimeError": {"RuntimeError"},
}

def truthy(v):
    return If(Val.is_none(v), False,
           If(Val.is_boolv(v), Val.b(v),
           If(Val.is_intv(v), Val.i(v) != 0,
           If(Val.is_tup(v), tup_len(Val.t(v)) != 0, truthy_ref(Val.a(v))))))

def isinstance_(v, names):
    alts = []
    for n in names:
        for sub in SUBCLASS.get(n, {n}):
            alts.append(And(Val.is_ref(v), kind(Val.a(v)) == K(sub)))
    return Or(alts) if alts else BoolVal(False)

fresh_counter = itertools.count()
def fresh(prefix="v"):
    return Const(f"{prefix}!{next(fresh_counter)}", Val)

# ---------------------------------------------------------------- paths
class Path:
    def __init__(self, pc=None, env=None, heap=None, ghost=None):
        self.pc = list(pc or []); self.env = dict(env or {}); self.heap = dict(heap or {}); self.ghost = dict(ghost or {})
    def clone(self):
        return Path(self.pc, self.env, self.heap, {k: list(v) if isinstance(v, list) else v for k, v in self.ghost.items()})
    def field(self, name):
        if name not in self.heap:
            self.heap[name] = Array(f"H_{name}", IntSort(), Val)
        return self.heap[name]
    def feasible(self):
        s = Solver(); s.set(timeout=5000); s.add(self.pc); return s.check() != unsat

class Outcome:
    def __init__(self, kind, path, value=None): self.kind, self.path, self.value = kind, path, value

class Unsupported(Exception): pass

# ---------------------------------------------------------------- executor
class Exec:
    def __init__(self, funcs, externals):
        self.funcs = funcs          # name -> contract stub: f(executor, path, args, kwargs) -> [Outcome('normal'|'raise')]
        self.ext = externals
        self.obligations = []       # (name, path, formula)

    def fork(self, path, cond):
        """yield (path_true, path_false) pruned by feasibility"""
        out = []
        for c in (cond, Not(cond)):
            p = path.clone(); p.pc.append(c)
            out.append(p if p.feasible() else None)
        return out

    # expressions return list of (path, Val) | raise Outcomes are propagated via exceptions list
    def eval(self, node, path):
        m = getattr(self, "e_" + type(node).__name__, None)
        if m is None: raise Unsupported(f"expr {type(node).__name__} line {node.lineno}")
        return m(node, path)

    def e_Constant(self, n, p):
        v = n.value
        if v is None: return [("ok", p, NONE)]
        if isinstance(v, bool): return [("ok", p, Val.boolv(BoolVal(v)))]
        if isinstance(v, int): return [("ok", p, Val.intv(IntVal(v)))]
        if isinstance(v, str): return [("ok", p, fresh("str"))]
        raise Unsupported(f"const {v!r}")
    def e_JoinedStr(self, n, p): return [("ok", p, fresh("fstr"))]
    def e_Name(self, n, p):
        if n.id in p.env: return [("ok", p, p.env[n.id])]
        if n.id in self.ext: return [("ok", p, self.ext[n.id])]
        raise Unsupported(f"name {n.id} line {n.lineno}")
    def e_Attribute(self, n, p):
        # module.attr used as a callee/class name is handled by callers; here: field read
        res = []
        for st, p1, obj in self.eval(n.value, p):
            if st != "ok": res.append((st, p1, obj)); continue
            res.append(("ok", p1, Select(p1.field(n.attr), Val.a(obj))))
        return res
    def e_Tuple(self, n, p):
        if len(n.elts) == 0:
            t = fresh("tup"); p.pc += [Val.is_tup(t), tup_len(Val.t(t)) == 0, t == EMPTY_TUPLE]; return [("ok", p, EMPTY_TUPLE)]
        raise Unsupported("tuple literal")
    def e_BoolOp(self, n, p):
        # short-circuit; value semantics (returns operand)
        def go(idx, path):
            res = []
            for st, p1, v in self.eval(n.values[idx], path):
                if st != "ok" or idx == len(n.values) - 1: res.append((st, p1, v)); continue
                t, f = self.fork(p1, truthy(v))
                cont, stop = (t, f) if isinstance(n.op, ast.And) else (f, t)
                if stop is not None: res.append(("ok", stop, v))
                if cont is not None: res += go(idx + 1, cont)
            return res
        return go(0, p)
    def e_UnaryOp(self, n, p):
        if not isinstance(n.op, ast.Not): raise Unsupported("unary")
        return [(st, p1, Val.boolv(Not(truthy(v))) if st == "ok" else v) for st, p1, v in self.eval(n.operand, p)]
    def e_IfExp(self, n, p):
        res = []
        for st, p1, c in self.eval(n.test, p):
            if st != "ok": res.append((st, p1, c)); continue
            t, f = self.fork(p1, truthy(c))
            if t is not None: res += self.eval(n.body, t)
            if f is not None: res += self.eval(n.orelse, f)
        return res
    def e_Compare(self, n, p):
        if len(n.ops) != 1: raise Unsupported("chained compare")
        res = []
        for st, p1, a in self.eval(n.left, p):
            if st != "ok": res.append((st, p1, a)); continue
            for st2, p2, b in self.eval(n.comparators[0], p1):
                if st2 != "ok": res.append((st2, p2, b)); continue
                op = n.ops[0]
                if isinstance(op, ast.Is): r = a == b
                elif isinstance(op, ast.IsNot): r = a != b
                elif isinstance(op, ast.Gt): r = Val.i(a) > Val.i(b)
                elif isinstance(op, ast.Eq): r = a == b        # spike: structural == on Val
                else: raise Unsupported(f"cmp {type(op).__name__}")
                res.append(("ok", p2, Val.boolv(r)))
        return res
    def callee_name(self, f):
        if isinstance(f, ast.Name): return f.id
        if isinstance(f, ast.Attribute): return self.callee_name(f.value) + "." + f.attr
        raise Unsupported("callee")
    def e_Call(self, n, p):
        name = self.callee_name(n.func)
        # evaluate args left to right
        def args_from(i, path, acc):
            if i == len(n.args): return [("ok", path, list(acc))]
            res = []
            for st, p1, v in self.eval(n.args[i], path):
                if st != "ok": res.append((st, p1, v)); continue
                res += args_from(i + 1, p1, acc + [v])
            return res
        res = []
        if name == "isinstance":     # class argument is resolved syntactically, not evaluated
            for st, p1, v in self.eval(n.args[0], p):
                res.append((st, p1, Val.boolv(isinstance_(v, self.class_names(n.args[1]))) if st == "ok" else v))
            return res
        for st, p1, argv in args_from(0, p, []):
            if st != "ok": res.append((st, p1, argv)); continue
            kw = {}
            paths = [(p1, kw)]
            for k in n.keywords:
                newpaths = []
                for pp, kk in paths:
                    for st2, p2, v in self.eval(k.value, pp):
                        if st2 != "ok": res.append((st2, p2, v)); continue
                        newpaths.append((p2, dict(kk, **{k.arg: v})))
                paths = newpaths
            for pp, kk in paths:
                if name == "isinstance":
                    res.append(("ok", pp, Val.boolv(isinstance_(argv[0], self.class_names(n.args[1]))))); continue
                stub = self.funcs.get(name)
                if stub is None and name in pp.env:      # call of a local/closure variable holding a callable: oracle
                    stub = self.funcs["<oracle>"]
                    argv = [pp.env[name]] + argv
                if stub is None: raise Unsupported(f"call {name} line {n.lineno}")
                for o in stub(self, pp, argv, kk):
                    res.append(("ok" if o.kind == "normal" else "raise", o.path, o.value))
        return res
    def class_names(self, node):
        if isinstance(node, ast.Tuple): return [x for e in node.elts for x in self.class_names(e)]
        if isinstance(node, ast.Name) and node.id in self.ext.get("__tuples__", {}): return self.ext["__tuples__"][node.id]
        return [self.callee_name(node).split(".")[-1]]

    # statements
    def block(self, stmts, path):
        outs = [Outcome("normal", path)]
        for s in stmts:
            nxt = []
            for o in outs:
                if o.kind != "normal": nxt.append(o); continue
                nxt += self.stmt(s, o.path)
            outs = nxt
        return outs
    def stmt(self, s, p):
        m = getattr(self, "s_" + type(s).__name__, None)
        if m is None: raise Unsupported(f"stmt {type(s).__name__} line {s.lineno}")
        return m(s, p)
    def s_Expr(self, s, p):
        if isinstance(s.value, ast.Constant): return [Outcome("normal", p)]   # docstring
        return [Outcome("normal" if st == "ok" else "raise", p1, v if st != "ok" else None) for st, p1, v in self.eval(s.value, p)]
    def s_Assign(self, s, p):
        outs = []
        for st, p1, v in self.eval(s.value, p):
            if st != "ok": outs.append(Outcome("raise", p1, v)); continue
            for tgt in s.targets:
                if isinstance(tgt, ast.Name): p1.env[tgt.id] = v
                elif isinstance(tgt, ast.Attribute):
                    for st2, p2, obj in self.eval(tgt.value, p1):
                        p2.heap[tgt.attr] = Store(p2.field(tgt.attr), Val.a(obj), v); p1 = p2
                else: raise Unsupported("assign target")
            outs.append(Outcome("normal", p1))
        return outs
    def s_AnnAssign(self, s, p):
        if s.value is None: return [Outcome("normal", p)]
        return self.s_Assign(ast.Assign(targets=[s.target], value=s.value, lineno=s.lineno), p)
    def s_Return(self, s, p):
        if s.value is None: return [Outcome("return", p, NONE)]
        return [Outcome("return" if st == "ok" else "raise", p1, v) for st, p1, v in self.eval(s.value, p)]
    def s_If(self, s, p):
        outs = []
        for st, p1, c in self.eval(s.test, p):
            if st != "ok": outs.append(Outcome("raise", p1, c)); continue
            t, f = self.fork(p1, truthy(c))
            if t is not None: outs += self.block(s.body, t)
            if f is not None: outs += self.block(s.orelse, f)
        return outs
    def s_Raise(self, s, p):
        outs = []
        for st, p1, v in self.eval(s.exc, p):
            outs.append(Outcome("raise", p1, v))
        return outs
    def s_Try(self, s, p):
        if s.finalbody: raise Unsupported("finally")
        outs = []
        for o in self.block(s.body, p):
            if o.kind == "normal":
                outs += self.block(s.orelse, o.path)
            elif o.kind == "raise":
                remaining = o.path
                for h in s.handlers:
                    names = self.class_names(h.type) if h.type is not None else ["Exception"]
                    t, f = self.fork(remaining, isinstance_(o.value, names))
                    if t is not None:
                        if h.name: t.env[h.name] = o.value
                        outs += self.block(h.body, t)
                    remaining = f
                    if remaining is None: break
                if remaining is not None: outs.append(Outcome("raise", remaining, o.value))
            else:
                outs.append(o)
        return outs
    def s_Pass(self, s, p): return [Outcome("normal", p)]

    def check(self, name, path, formula):
        s = Solver(); s.set(timeout=20000); s.add(path.pc); s.add(Not(formula))
        t = time.time(); r = s.check(); dt = (time.time() - t) * 1000
        verdict = "PROVED" if r == unsat else ("REFUTED" if r == sat else "UNDECIDED")
        model = s.model() if r == sat else None
        self.obligations.append((name, verdict, dt, model))
        return verdict, model

EMPTY_TUPLE = Const("EMPTY_TUPLE", Val)

# ---------------------------------------------------------------- source access
def find_function(path, qualname):
    """last definition wins (as at run time: @overload stubs are shadowed by the real def)"""
    tree = ast.parse(open(path).read())
    node = tree
    for part in qualname.split("."):
        cands = [ch for ch in ast.walk(node)
                 if isinstance(ch, (ast.FunctionDef, ast.AsyncFunctionDef, ast.ClassDef)) and ch.name == part and ch is not node]
        if not cands: raise KeyError(qualname)
        node = max(cands, key=lambda n: n.lineno)
    return node

def new_ref(path, name, kindname=None):
    v = Const(name, Val); path.pc.append(Val.is_ref(v))
    if kindname: path.pc.append(kind(Val.a(v)) == K(kindname))
    return v

# ================================================================ target 1: customize_it
def run_customize_it():
    fn = find_function(f"{REPO}/stackscope/_customization.py", "customize.customize_it")
    p = Path()
    p.pc += [Val.is_tup(EMPTY_TUPLE), tup_len(Val.t(EMPTY_TUPLE)) == 0]
    hide, hide_line, prune = (Const(n, Val) for n in ("hide", "hide_line", "prune"))
    for b in (hide, hide_line, prune): p.pc.append(Val.is_boolv(b))           # requires: flags are bools
    elaborate = Const("elaborate", Val)
    p.pc.append(Or(Val.is_none(elaborate), And(Val.is_ref(elaborate), truthy_ref(Val.a(elaborate)))))
    frame = new_ref(p, "frame", "Frame"); nxt = Const("next_inner", Val)
    p.env.update(hide=hide, hide_line=hide_line, prune=prune, elaborate=elaborate, frame=frame, next_inner=nxt)
    H0_hide, H0_hl = p.field("hide"), p.field("hide_line")
    ELAB = Function("elab_result", Val, Val, Val)
    def oracle(ex, path, args, kw):
        # hook call: result is an uninterpreted function of the arguments; may touch the frame it was handed
        callee, fr, ni = args
        path.ghost.setdefault("calls", []).append((callee, fr, ni))
        for fld in ("hide", "hide_line"):   # havoc what the hook may modify on `frame`... but only allow it to SET flags? keep exact: arbitrary
            path.heap[fld] = Store(path.field(fld), Val.a(fr), fresh("havoc_" + fld))
        normal = Outcome("normal", path.clone(), ELAB(fr, ni))
        exc = new_ref((pe := path.clone()), f"exc!{next(fresh_counter)}", "Exception")
        return [normal, Outcome("raise", pe, exc)]
    ex = Exec({"<oracle>": oracle}, {"PRUNE": EMPTY_TUPLE})
    outs = ex.block(fn.body, p)
    for i, o in enumerate(outs):
        called = bool(o.path.ghost.get("calls"))
        if o.kind == "raise":
            # exceptional post: only the hook's own exception escapes
            ex.check(f"C12.customize_it.raises_only_hook#{i}", o.path, BoolVal(called)); continue
        hide_now = Select(o.path.field("hide"), Val.a(frame)); hl_now = Select(o.path.field("hide_line"), Val.a(frame))
        if not called:   # (when the hook ran it may have changed the flags itself; the contract is stated for the no-hook and pre-hook state)
            ex.check(f"C12.customize_it.hide#{i}", o.path, Implies(Val.b(hide), hide_now == Val.boolv(True)))
            ex.check(f"C12.customize_it.hide_line#{i}", o.path, Implies(Val.b(hide_line), hl_now == Val.boolv(True)))
            ex.check(f"C12.customize_it.frame_untouched_when_flags_false#{i}", o.path,
                     And(Implies(Not(Val.b(hide)), hide_now == Select(H0_hide, Val.a(frame))),
                         Implies(Not(Val.b(hide_line)), hl_now == Select(H0_hl, Val.a(frame)))))
        r = ELAB(frame, nxt)
        spec = If(And(Not(Val.is_none(elaborate)), Not(Val.is_none(r))), r, If(Val.b(prune), EMPTY_TUPLE, NONE))
        ex.check(f"C12.customize_it.result#{i}", o.path, o.value == spec)
        ex.check(f"C12.customize_it.elaborate_called_iff_given#{i}", o.path, BoolVal(called) == Not(Val.is_none(elaborate)))
    return ex, len(outs)

# ================================================================ target 2: better_origin
def run_better_origin():
    fn = find_function(f"{REPO}/stackscope/_extract.py", "better_origin")
    p = Path()
    cand, fb = Const("candidate", Val), Const("fallback", Val)
    p.env.update(candidate=cand, fallback=fb)
    weakrefable = Function("weakrefable", Val, BoolSort())
    GEN = ["CoroutineType", "GeneratorType", "AsyncGeneratorType"]
    def weakref_ref(ex, path, args, kw):
        ok = path.clone(); ok.pc.append(weakrefable(args[0]))
        bad = path.clone(); bad.pc.append(Not(weakrefable(args[0])))
        e = new_ref(bad, f"exc!{next(fresh_counter)}", "TypeError")
        return [o for o in (Outcome("normal", ok, fresh("wr")), Outcome("raise", bad, e)) if o.path.feasible()]
    ex = Exec({"weakref.ref": weakref_ref}, {"__tuples__": {}})
    # `typelist = (types.CoroutineType, ...)` is a tuple of classes: pre-bind the local as a class tuple
    ex.ext["__tuples__"]["typelist"] = GEN
    body = [s for s in fn.body]
    # drop the docstring; treat the `typelist = (...)` assignment as a class-tuple binding
    def strip(stmts):
        out = []
        for s in stmts:
            if isinstance(s, ast.Assign) and isinstance(s.targets[0], ast.Name) and s.targets[0].id == "typelist": continue
            if isinstance(s, ast.Try):
                s = ast.Try(body=strip(s.body), handlers=[ast.ExceptHandler(type=h.type, name=h.name, body=strip(h.body)) for h in s.handlers],
                            orelse=strip(s.orelse), finalbody=s.finalbody, lineno=s.lineno)
            out.append(s)
        return out
    outs = ex.block(strip(body), p)
    genlike = lambda v: isinstance_(v, GEN)
    for i, o in enumerate(outs):
        if o.kind == "raise": ex.check(f"C16.better_origin.raises_nothing#{i}", o.path, BoolVal(False)); continue
        spec = If(And(weakrefable(cand), Or(genlike(cand), Not(genlike(fb)))), cand, fb)
        ex.check(f"C16.better_origin.result#{i}", o.path, o.value == spec)
    return ex, len(outs)

if __name__ == "__main__":
    for run in (run_customize_it, run_better_origin):
        t = time.time(); ex, npaths = run()
        print(f"== {run.__name__}: {npaths} paths, {len(ex.obligations)} obligations, {round(time.time()-t,2)} s")
        for name, verdict, ms, model in ex.obligations:
            extra = ""
            if model is not None:
                keep = [d for d in model.decls() if d.name() in ("hide", "hide_line", "prune", "elaborate")]
                extra = "  model: " + ", ".join(f"{d.name()}={model[d]}" for d in keep)
            print(f"   {verdict:9s} {ms:6.1f} ms  {name}{extra}")
