import sys, types, warnings, stackscope
from stackscope import lowlevel as ll
warnings.simplefilter("always")
ll.set_trickery_enabled(False)
@types.coroutine
def ay(v): return (yield v)
LOG=[]
class M:
    def __init__(s,n): s.n=n
    def __repr__(s): return f"M{s.n}"
    async def __aenter__(s):
        await ay(("entering",s.n)); LOG.append(s); return s
    async def __aexit__(s,*e):
        await ay(("exiting",s.n)); LOG.remove(s)
        return True
class S:
    def __init__(s,n): s.n=n
    def __repr__(s): return f"S{s.n}"
    def __enter__(s): LOG.append(s); return s
    def __exit__(s,*e): LOG.remove(s)
async def prog(kind):
    with S(1):
        async with M(2):
            with S(3):
                await ay("body")
                if kind=="raise": raise KeyError
                if kind=="return": return 5
            await ay("after3")
        await ay("after2")
print(sys.version_info[:3])
for kind in ("fall","raise","return"):
    LOG.clear(); c=prog(kind)
    try:
        while True:
            v=c.send(None)
            cs=ll.contexts_active_in_frame(c.cr_frame, c)
            print(kind, v, "truth=",LOG, "got=",[(x.obj,x.is_async,x.is_exiting) for x in cs])
    except StopIteration: pass
