# Hand-derived VCs for the elaborate phase of extract_iter (what pyvc will generate), to validate
# the C10.step.* contracts and that F6/F7 come out as counter-models.
from z3 import *
import time
Obj = IntSort()
NONE = IntVal(0)
# deque model: (lo, hi, item-array, depth-array); element k is arr[lo+k]
def dq(name):
    return dict(lo=Int(name+'_lo'), hi=Int(name+'_hi'), it=Array(name+'_it', IntSort(), Obj), dp=Array(name+'_dp', IntSort(), IntSort()))
E0, U0 = dq('E0'), dq('U0')           # state just after `frame, depth = to_elaborate.popleft()`
d = Int('d')                          # depth of elaborated frame
nE = E0['hi']-E0['lo']; nU = U0['hi']-U0['lo']
wf = And(nE >= 0, nU >= 0)
next_inner = If(nE > 0, E0['it'][E0['lo']], NONE)
# abstract queue Q = E0 ++ U0 : Q(k)
def Qit(k): return If(k < nE, E0['it'][E0['lo']+k], U0['it'][U0['lo']+k-nE])
def Qdp(k): return If(k < nE, E0['dp'][E0['lo']+k], U0['dp'][U0['lo']+k-nE])
nQ = nE + nU
# after loop L1 (contract C10.move, proved separately): to_unwrap == Q, to_elaborate == []
# items: symbolic sequence of length nI
nI = Int('nI'); I = Array('I', IntSort(), Obj)
s = Solver(); s.set(timeout=20000)
s.add(wf, nI >= 0, Or(nU == 0, nE >= 1))  # from the unwrap loop exit condition
# --- insert branch taken: items non-empty and items[-1] is next_inner
s.add(nI > 0, I[nI-1] == next_inner)
# safety obligation of to_unwrap.popleft(): len(to_unwrap) > 0, i.e. nQ > 0
s.push(); s.add(Not(nQ > 0))
r = s.check(); print("C10.safe.insert_popleft (unchanged tree):", "REFUTED" if r==sat else r)
if r==sat:
    m=s.model(); print("   model: nE=",m.eval(nE),"nU=",m.eval(nU),"nI=",m.eval(nI),"next_inner=",m.eval(next_inner),"(0=None)")
s.pop()
# functional obligation: result queue == reference queue.
# code (unchanged): R = [(I[j], d) for j<nI] ++ Q[1:]
# reference:        R*= [(I[j], d) for j<nI-1] ++ Q        (next_inner keeps its place and depth)
k = Int('k')
def code_it(k): return If(k < nI, I[k], Qit(k-nI+1))
def code_dp(k): return If(k < nI, d, Qdp(k-nI+1))
def ref_it(k):  return If(k < nI-1, I[k], Qit(k-(nI-1)))
def ref_dp(k):  return If(k < nI-1, d, Qdp(k-(nI-1)))
s.push(); s.add(nQ > 0, 0 <= k, k < nI-1+nQ, Or(code_it(k) != ref_it(k), code_dp(k) != ref_dp(k)))
r = s.check(); print("C10.step.insert (unchanged tree):", "REFUTED" if r==sat else r)
if r==sat:
    m=s.model(); print("   model: k=",m.eval(k),"d=",m.eval(d),"depth(next_inner)=",m.eval(Qdp(0)),"nI=",m.eval(nI))
s.pop()
# with known-finding split: assume ¬W where W := depth(Q[0]) != d  -> must be proved
s.push(); s.add(nQ > 0, Qdp(0) == d, 0 <= k, k < nI-1+nQ, Or(code_it(k) != ref_it(k), code_dp(k) != ref_dp(k)))
print("C10.step.insert ∧ ¬W(F7):", "PROVED" if s.check()==unsat else "not proved"); s.pop()
# fixed tree: items = items[:-1]; R = [(I[j], d) for j<nI-1] ++ Q ; no popleft
def fix_it(k): return If(k < nI-1, I[k], Qit(k-(nI-1)))
def fix_dp(k): return If(k < nI-1, d, Qdp(k-(nI-1)))
s.push(); s.add(0 <= k, k < nI-1+nQ, Or(fix_it(k) != ref_it(k), fix_dp(k) != ref_dp(k)))
print("C10.step.insert (fixed tree):", "PROVED" if s.check()==unsat else "not proved"); s.pop()
