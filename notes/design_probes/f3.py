import stackscope, sys
def target():
    return stackscope.extract_since(sys._getframe(0))
stackscope.customize(target, hide_line=True)
s = target()
print("F3 direct: hide_line =", s.frames[0].hide_line)
@stackscope.customize(hide_line=True, hide=True)
def t2():
    return stackscope.extract_since(sys._getframe(0))
s = t2()
print("F3 decorator: hide_line =", s.frames[0].hide_line, "hide=", s.frames[0].hide)
