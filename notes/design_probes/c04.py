import sys, itertools, stackscope
from stackscope import StackSlice, extract
bad=0; n=0
def truth():
    f = sys._getframe(1); out=[]
    while f: out.append(f); f=f.f_back
    return out[::-1]
def leaf(depth):
    global bad,n
    T = truth()   # outermost..leaf
    N=len(T)
    cands=[None]+T
    for o,i,lim in itertools.product(cands,cands,[None]+list(range(1,N+2))):
        s = extract(StackSlice(outer=o, inner=i, limit=lim))
        got=[f.pyframe for f in s.frames]
        lo = 0 if o is None else T.index(o)
        hi = N-1 if i is None else T.index(i)
        if lo>hi:
            continue  # outer inward of inner: unspecified
        exp = T[lo:hi+1]
        if lim is not None and len(exp)>lim:
            exp = exp[:lim] if (i is None and o is not None) else exp[-lim:]
        n+=1
        if got!=exp or s.error is not None:
            bad+=1
            if bad<6: print("MISMATCH", lo,hi,lim,[f.f_code.co_name for f in got],[f.f_code.co_name for f in exp], s.error)
def rec(d, depth):
    if d==0: leaf(depth)
    else: rec(d-1, depth)
rec(4,4)
print("cases",n,"bad",bad)
