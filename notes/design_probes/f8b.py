import sys, greenlet, stackscope
res={}
def child_entry():
    res['from_descendant'] = stackscope.extract(g1)
def g1_inner():
    c = greenlet.greenlet(child_entry)   # parent = g1
    c.switch()
    main.switch()
def g1_entry():
    g1_inner()
main = greenlet.getcurrent()
g1 = greenlet.greenlet(g1_entry)
def main_fn():
    g1.switch()
    res['from_main'] = stackscope.extract(g1)
main_fn()
for k,v in res.items():
    print(k, [f.funcname for f in v.frames], v.error)
