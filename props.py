"""Registry: which contract modules (deductive leg) and which native legs decide each property."""
PY312 = "/venv/bin/python"
PY311 = "python3-vt"

PROPS = {
    "C12": dict(
        level="proof",
        contracts=["contracts.c12"],
        legs=[],
        explanation="",
        assumptions=[],
        technique="contract-based deductive verification: VCs generated from the real source ASTs by pyvc, discharged by z3/cvc5",
        claim="Every obligation generated from the current source of IdentityDict (8 methods: whole-view postconditions + representation "
              "invariant), get_code (unwrapping loop and first-matching-constant lookup, loop invariants), code_dispatch's dispatch/register "
              "closures (identity-keyed lookup, latest registration wins, all three call forms) and customize/customize_it (all four options, "
              "direct and decorator form) is discharged for all inputs, unbounded. Proof is relative to the listed assumptions.",
        note="trusted: pyvc executor/encoding, z3/cvc5, externals (inspect.unwrap, functools.partial, id() injective), ghost spec function "
             "definitions; not covered: IdentityDict.__init__/__iter__/__eq__/__repr__ (comprehensions, super()), functools.update_wrapper plumbing",
    ),
}
NOT_APPLICABLE = {}
