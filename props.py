"""Registry: which contract modules (deductive leg) and which native legs decide each property."""
PY310 = "/root/.pyenv/versions/3.10.13/bin/python"
PY39 = "/root/.pyenv/versions/3.9.18/bin/python"


def old_pythons(name, script):
    """the same leg on CPython 3.10 and 3.9 (vendored typing_extensions / exceptiongroup): version-specific branches and APIs"""
    return [dict(name=f"{name}_py310", cmd="PYTHONPATH={repo}:{verif}/.vendor " + PY310 + " legs/" + script),
            dict(name=f"{name}_py39", cmd="PYTHONPATH={repo}:{verif}/.vendor " + PY39 + " legs/" + script)]


PY312 = "/venv/bin/python"
PY311 = "python3-vt"

PROPS = {
    "C12": dict(
        level="proof",
        contracts=["contracts.c12"],
        legs=[dict(name="c12_native", cmd="PYTHONPATH={repo} " + PY312 + " legs/c12_native.py")],
        explanation="",
        assumptions=[],
        technique="contract-based deductive verification: VCs generated from the real source ASTs by pyvc, discharged by z3/cvc5",
        claim="Every obligation generated from the current source of IdentityDict (8 methods: whole-view postconditions + representation "
              "invariant), get_code (unwrapping loop and first-matching-constant lookup, loop invariants), code_dispatch's dispatch/register "
              "closures (identity-keyed lookup, latest registration wins, all three call forms) and customize/customize_it (all four options, "
              "direct and decorator form) is discharged for all inputs, unbounded. Proof is relative to the listed assumptions.",
        note="trusted: pyvc executor/encoding, z3/cvc5, externals (inspect.unwrap, functools.partial, id() injective), ghost spec function "
             "definitions; not covered: IdentityDict.__init__/__iter__/__eq__/__repr__ (comprehensions, super()), functools.update_wrapper plumbing",
    ),
}
TECH = "contract-based deductive verification: VCs generated from the real source ASTs by pyvc (sidecar contracts, loop invariants, ghost state), discharged by z3/cvc5"
EI_NOTE = ("trusted: pyvc executor/encoding, z3/cvc5; hooks modelled as oracles (any result, any Exception, may set hide/hide_line/contexts "
           "of the Frame they get); hook Sequence results are builtin tuples/lists and do not alias the private error list; "
           "BaseException-only exceptions pass through by design; partial correctness (termination / F9 hang not covered)")

PROPS["C05"] = dict(
    level="other", contracts=["contracts.extract_iter", "contracts.c13", "contracts.glue_small"],
    unit_filter=lambda u: u.name in ("C05.extract_iter", "C13.extract_child", "C13.extract", "C11.unwrap_generatorbased_contextmanager",
                                     "C09.elaborate_exit_stack"),
    legs=[dict(name="c05_faults", cmd="PYTHONPATH={repo} " + PY312 + " legs/c05_faults.py"),
          dict(name="c17_glue_faults", cmd="PYTHONPATH={repo} " + PY312 + " legs/c17_history.py faults-only")] + old_pythons("c05_faults", "c05_faults.py"), technique=TECH + "; bounded fault-enumeration leg",
    explanation="Deductive part (all inputs, unbounded): extract_iter (whole real body, 8 loops cut by invariants), extract_child and extract "
                "are executed symbolically from their entries: no path lets an Exception escape, the error ledger grows by exactly the "
                "exceptions raised in order, extract_child turns it into None / the single error / an ExceptionGroup, an elaborate_frame "
                "fault keeps and un-hides the frame. RESIDUE the contracts do not carry: that an error recorded in a NESTED stack (a "
                "context's inner_stack, a child) stays reachable from the result tree. It does not always: fill_context drops the inner "
                "stack of a generator-based manager when its registered unwrapper succeeds (known finding F11), and the contextlib glue's nested "
                "extract_outermost on the generator of an EXITING manager returns a Frame, which cannot carry the errors recorded while it was "
                "built (known finding F19); both are reported by the leg and suppressed by their witness keys only. Also under contract here: "
                "unwrap_generatorbased_contextmanager (a fault met by that nested call is not 'no frames': it propagates) and elaborate_exit_stack "
                "(nothing swallowed). The bounded leg enumerates every single fault at every dynamic hook invocation in 9 scenarios (incl. an "
                "exiting generator-based manager with a registered unwrapper and yields_frames hooks that return plain iterators) plus bounded "
                "pairs and checks retrievability by identity over the whole result tree.",
    claim="extract_iter (whole real body, all 8 loops cut by invariants), extract_child and extract are executed symbolically from their "
          "entries: no path lets an Exception escape (every hook call site is inside a handler that records it; every pop/index/unpack/"
          "assert is safe); the error ledger clause shows save_errors grows by exactly the exceptions raised, in order, and extract_child "
          "turns it into error None / the single error / an ExceptionGroup; an elaborate_frame fault keeps and un-hides the frame. "
          "'identical to the fault-free extraction' is covered only through the per-iteration step clauses (C10) plus append-only frames.",
    note=EI_NOTE + "; formatting of the result after a fault is C18/C19's subject")
PROPS["C10"] = dict(
    level="other", contracts=["contracts.extract_iter", "contracts.small_units", "contracts.c12"],
    unit_filter=lambda u: u.name in ("C05.extract_iter", "C10.frame_iterator_next", "C12.customize_it", "C12.customize") or u.name.startswith("C10.default."),
    legs=[dict(name="c10_model", cmd="PYTHONPATH={repo} " + PY312 + " legs/c10_model.py"),
          dict(name="c12_native", cmd="PYTHONPATH={repo} " + PY312 + " legs/c12_native.py")] + old_pythons("c10_model", "c10_model.py"), technique=TECH + "; bounded reference-interpreter leg",
    explanation="Deductive part (all queue contents and hook results, unbounded): the per-iteration step clauses C10.step.* (head frame "
                "yielded; None keeps the rest; move-back in order; replace form = dropWhile by depth; insert form drops nothing and omits the "
                "trailing next_inner with the depth rule; push at the frame's depth in order; unwrap step bookkeeping) and the guard <= 100. "
                "RESIDUE: the induction over iterations that turns the step clauses into 'frames / leaf equal the reference interpretation' "
                "is argued in DESIGN.md, not machine-checked, and termination is not proved (F9). The bounded leg compares the real "
                "extraction with a reference interpreter of the documented rules on 600 (4 000) random item trees.",
    claim="Step refinement of the documented rules by the two-deque loop, proved per outer iteration for all queue contents and hook results: "
          "the head frame is yielded; None keeps the rest; otherwise the queue is moved back in order, the replace form drops exactly the "
          "longest prefix with depth >= the frame's depth (dropWhile), the insert form drops nothing and omits the trailing next_inner, "
          "then the items are pushed at the frame's depth in order; loops_since_progress <= 100 is invariant and exceeding it records a "
          "RuntimeError and makes the item irreducible. The composition over iterations (simulation) and the exact content pushed by the "
          "unwrap step (None members filtered) are argued in DESIGN.md, not machine-checked; termination is not proved (known finding F9).",
    note=EI_NOTE)
PROPS["C11"] = dict(
    level="proof", contracts=["contracts.c11", "contracts.c13", "contracts.glue_small", "contracts.small_units"],
    unit_filter=lambda u: u.name.startswith("C11.") or u.name == "C13.push", legs=[dict(name="c11_contexts", cmd="PYTHONPATH={repo} " + PY312 + " legs/c11_contexts.py")] + old_pythons("c11_contexts", "c11_contexts.py"), technique=TECH + "; bounded native cross-check",
    claim="fill_context's loop is cut by an invariant: elaborate_context runs on the current manager, unwrap_context sees it as elaborate left "
          "it; a returned manager replaces obj and resets inner_stack/children before re-elaboration (invariant for k>0); None stops with "
          "nothing else changed; PRUNE sets hide and stops; 100 iterations end in RuntimeError after one extra unwrap call; outside an "
          "extraction it pushes (True, False), calls itself, and restores the unset options. The generator-based dispatch "
          "(unwrap_generatorbased_contextmanager) is under contract in the C09/C11 glue units.",
    note="hooks as oracles: elaborate_context may set obj/inner_stack/children/hide/description/varname and raise; unwrap_context returns or raises")
PROPS["C13"] = dict(
    level="proof", contracts=["contracts.c13", "contracts.extract_iter", "contracts.c11", "contracts.c04"],
    unit_filter=lambda u: u.name.startswith("C13.") or u.name in ("C05.extract_iter", "C11.fill_context.outside", "C11.fill_context.inside",
                                                                  "C04.extract_until", "C04.extract_since"),
    legs=[dict(name="c13_options", cmd="PYTHONPATH={repo} " + PY312 + " legs/c13_options.py")], technique=TECH + "; bounded native cross-check",
    claim="push() restores both fields on every exit of the with-body (normal or exceptional) and the body sees exactly the arguments; "
          "extract / extract_outermost push exactly their arguments and restore on every exit incl. the raise paths; extract_child refuses "
          "outside an extraction, returns a frameless stub (root only, no hook or generator step) for for_task without recursion, and "
          "leaves the options untouched; with_contexts=False never calls context analysis. Thread scoping: the model reads the class "
          "definition — if ExtractOptions is not a threading.local every read of the fields returns an arbitrary value (interference) "
          "and the clauses are refuted.",
    note="threading.local semantics assumed (per-thread attribute namespace); contextlib.contextmanager protocol assumed; schedules are not "
         "explored, thread-locality is a rely condition")
PROPS["C16"] = dict(
    level="other", contracts=["contracts.c16", "contracts.extract_iter", "contracts.c13"],
    unit_filter=lambda u: u.name in ("C16.better_origin", "C05.extract_iter", "C13.extract_outermost"),
    legs=[dict(name="chains_C16", cmd="PYTHONPATH={repo} " + PY312 + " legs/chains.py C16")] + old_pythons("chains_C16", "chains.py C16"), technique=TECH,
    explanation="Deductive part (all inputs): better_origin's result is characterised exactly; at the only place a Frame is built in "
                "extract_iter a non-None origin is a weak-referenceable generator-like object whose own gi_frame / cr_frame / ag_frame IS "
                "that frame, a generator-like origin arriving with its own frame is kept, queue entries carry such an item as its own "
                "origin; extract_outermost returns the first value yielded by the same generator under the same options and raises the "
                "group / the single error / RuntimeError otherwise. RESIDUE: 'extract_outermost(origin).pyframe is that frame' and "
                "'every frame found inside a suspended object has it as origin' are compositions of these clauses with the built-in "
                "unwrappers (units C03.*) and the hook dispatch; the composition is argued, not machine-checked, and is what the bounded "
                "leg checks natively (all chains of depth <= 2 over 8 link kinds, exiting outermost frame, hooks using next_inner, "
                "hook redirects to suspended objects in single / tuple / insert form, running coroutine, foreign frames).",
    claim="better_origin's result is characterised exactly; at the only place a Frame is built in extract_iter a non-None origin is a "
          "generator-like object whose own gi_frame/cr_frame/ag_frame IS that frame, and a generator-like origin arriving with its own "
          "frame is kept; queue entries carry a weak-referenceable generator-like item as its own origin; extract_outermost returns the "
          "first value yielded by the same generator under the same options and raises group / single error / RuntimeError otherwise.",
    note=EI_NOTE + "; that extract_outermost(origin) unwraps to origin's own frame relies on the built-in unwrapper contracts (C03 glue units)")
PROPS["C03"] = dict(
    level="other", contracts=["contracts.extract_iter", "contracts.small_units", "contracts.glue_small"],
    unit_filter=lambda u: u.name.startswith("C03.") or u.name in ("C05.extract_iter", "C10.default.unwrap_stackitem"),
    legs=[dict(name="chains_C03", cmd="PYTHONPATH={repo} " + PY312 + " legs/chains.py C03"),
          dict(name="chains_C03_py311", cmd="PYTHONPATH={repo} " + PY311 + " legs/chains.py C03")] + old_pythons("chains_C03", "chains.py C03"), technique=TECH + "; bounded throw-oracle leg for the interpreter axioms",
    explanation="Deductive part: the five built-in unwrappers are proved against their contracts (suspended: (own frame, delegate); running: "
                "StackSlice(outer=own frame); async generators running only when ag_await is None; asend/athrow and coroutine_wrapper: first "
                "referent with ag_frame/cr_frame), Frame.__post_init__ captures f_lineno, extract_child's root rule, and extract_iter's queue "
                "discipline (unwrap step: children pushed at depth+1 in front of the rest, None members skipped; leaf returned when the head "
                "is not a Frame; the with_contexts block writes only frame.contexts and the error list). That these contracts add up to 'the "
                "path a thrown exception takes' rests on CPython object-model axioms (gi_yieldfrom/cr_await/ag_await name the delegate) which no "
                "verifier here can discharge: the bounded leg compares extract(x).frames with the traceback of x.throw(Probe) on every chain of "
                "depth <= 2 (thorough: 3) over 8 link kinds x 2 ends — a bounded stand-in, not a proof.",
    claim="Unwrapper and queue-discipline contracts proved for all inputs; agreement with the interpreter's exception path checked on an "
          "exhaustively enumerated bounded family of chains (stated bound), which is what decides the property's interpreter-dependent part.",
    note=EI_NOTE + "; CPython object-model axioms assumed for the composition; exact DFS-flattening lemma (C03.flatten) not machine-checked")
PROPS["C17"] = dict(
    level="other", contracts=["contracts.c17"], static=["contracts.c17_static"],
    legs=[dict(name="c17_history", cmd="PYTHONPATH={repo} " + PY312 + " legs/c17_history.py")] + old_pythons("c17_history", "c17_history.py"), technique=TECH + "; bounded history leg",
    explanation="Deductive part (all inputs, unbounded): the scan loop of add_glue_as_needed is cut by an invariant with a per-iteration step "
                "clause — the built-in entry is popped from the pending table before any call, the module's function is popped from the "
                "module dict, at most one glue function is called per module and it is the module's when it has one, every Exception of a "
                "glue function becomes exactly one warning and the loop continues, the scan runs under glue_lock, and the length cache keeps "
                "its entry value throughout the scan and is set to the length of the SCANNED snapshot only after the loop (glue functions "
                "may change sys.modules arbitrarily); builtin_glue.decorate runs now XOR registers; syntactic obligations: extract_iter calls add_glue_as_needed() before its first other call, outside any branch, and every extraction entry point drives extract_iter (in time). Exactly-once is linearity: a function is "
                "called only right after being removed from the single place that holds it. The fast-path obligation 'equal length implies "
                "every module scanned' is REFUTED (known finding F4). Histories: bounded leg enumerates all op sequences of length <= 4 over "
                "three fake modules with every glue kind, a raising glue, and one two-thread schedule. Schedules are not explored: the "
                "lock argument is in DESIGN.md.",
    claim="Scan-loop, cache and decorator contracts proved; F4 (len fast path) is a known, genuine finding; histories and one forced "
          "two-thread schedule checked on a bounded exhaustive family.",
    note="warnings.warn returns normally; threading.Lock is a mutex; module names are atoms; glue functions do not touch the pending table, "
         "other modules' glue entries or the cache; thread interleavings other than the one forced schedule are not explored")
PROPS["C04"] = dict(
    level="other", contracts=["contracts.c04", "contracts.glue_small"],
    unit_filter=lambda u: u.name.startswith("C04.") or u.name in ("C15.greenback_shim", "C15.greenback_trampoline", "C15.greenback_await", "C15.unwrap_greenlet"),
    legs=[dict(name="c04_slices", cmd="PYTHONPATH={repo} " + PY312 + " legs/c04_slices.py"),
          # the running stack of a greenback task crosses the greenback bridges: the same leg as C15 decides that part
          dict(name="c15_greenlets", cmd="PYTHONPATH={repo} " + PY312 + " legs/c15_greenlets.py")], technique=TECH + "; exhaustive bounded cross-product leg",
    explanation="Deductive part (all inputs, unbounded): try_from's f_back walk is cut by an invariant (frames == chain prefix, outer frame "
                "not met earlier) and returns the chain up to and including outer_frame outermost-first, the whole chain when no outer is "
                "given, [] iff outer is not on the chain; the index/slice block of unwrap_stackslice (extracted from the real AST by "
                "statement pattern) is proved, with exact PySlice_AdjustIndices semantics for the [to:from:-1] slice and list.index, to "
                "yield exactly the contiguous run L[idx(outer)..idx(inner)] for ALL lists of distinct frames and all anchor choices (incl. "
                "the from_idx=None special case); the limit block keeps the frames nearest the anchor (outer only if only outer is given); "
                "extract_since maps onto StackSlice(outer=...); get_true_caller walks past exactly the frames of the package (outside its "
                "tests) and singledispatch's wrapper and returns the first other frame; the two nested loops that build the "
                "greenlet-stitched list (extracted by statement pattern) visit every greenlet parent up to the one without a parent, walk "
                "each parent's f_back chain from its gr_frame to the end, and every collected frame is the k-th f_back ancestor of its "
                "greenlet's start frame (ghost owner / offset functions). Not proved: that these pieces compose into the property's "
                "sentence end to end, and the other-thread search - decided by the bounded leg: the full (outer, inner, limit) cross "
                "product at depth 5, in three nested greenlets, in parent chains with a dead immediate parent / dead middle ancestor / "
                "never-started middle ancestor, from plain functions, running generators and running coroutines.",
    claim="Slicing arithmetic, f_back walk, limit trimming, caller detection and the greenlet stitching loops proved for all inputs; their "
          "composition checked on an exhaustive bounded cross product.",
    note="frames of one stack are pairwise distinct; list.index on frames is identity; f_back of a frame is None or a frame; the "
         "other-thread search loop (sys._current_frames) is not under contract")


def g1(mode, py, tag, depth=2, thorough_only=False, stride=None, vendor=False):
    env = "PYTHONPATH={repo}" + (":{verif}/.vendor" if vendor else "")
    if stride:
        env = f"G1_STRIDE={stride} " + env
    return dict(name=f"g1_{mode}_{tag}" + (f"_d{depth}" if depth != 2 else ""), cmd=f"{env} {py} legs/g1.py {mode} {depth}",
                thorough_only=thorough_only, timeout=3400)


def corpus(mode, py, tag, thorough_only=False):
    return dict(name=f"corpus_{mode}_{tag}", cmd="PYTHONPATH={repo} " + py + f" legs/corpus.py {mode}", thorough_only=thorough_only)


BOUNDED_TECH = ("bounded contract check (stand-in): sidecar postcondition evaluated natively on an exhaustively enumerated program family with a "
                "stated bound; the CPython compiler is not formalised, so no deductive obligation can decide this property")
BOUNDED_NOTE = ("NOT a proof: bound = G1 programs of nesting depth <= 2 plus the depth-3 slice with > control statement > with > leaf, with "
                "statements in finally / except clauses, and wide-constant layouts (EXTENDED_ARG) (quick, exhaustive: about 38 800 programs x all "
                "branch vectors x all suspension / probe points) on CPython 3.12.1, 3.11.7 and 3.10.13; thorough adds 3.9.18 and a strided "
                "sample of full depth 3; the ground truth is a shadow log kept by the generated managers; `match` statements and >2 items per "
                "with are not generated")
PROPS["C01"] = dict(
    level="exploration", contracts=["contracts.inspect311", "contracts.c01_lemmas", "contracts.lowlevel", "contracts.inspect310", "contracts.c02_exiting"],
    unit_filter=lambda u: (not u.name.startswith("C20.") or u.name == "C20.contexts_active_in_frame") and u.name != "C02.inspect_frame_310.stack",
    legs=[dict(name="c20_reentrant", cmd="PYTHONPATH={repo} " + PY312 + " legs/c20_reentrant.py"),
          dict(name="c20_reentrant_py311", cmd="PYTHONPATH={repo} " + PY311 + " legs/c20_reentrant.py"),
          dict(name="c02_exit_names", cmd="PYTHONPATH={repo} " + PY312 + " legs/c02_exit_names.py"),
          dict(name="c02_exit_names_O", cmd="PYTHONPATH={repo} " + PY312 + " -O legs/c02_exit_names.py"),
          dict(name="c01_cmanagers_O", cmd="PYTHONPATH={repo} " + PY312 + " -O legs/c01_cmanagers.py"),
          dict(name="c02_exit_names_py311", cmd="PYTHONPATH={repo} " + PY311 + " legs/c02_exit_names.py")] + old_pythons("c02_exit_names", "c02_exit_names.py") + [
          dict(name="c01_huge_consts", cmd="PYTHONPATH={repo} " + PY312 + " legs/c01_huge_consts.py"),
          dict(name="c01_huge_consts_py310", cmd="PYTHONPATH={repo}:{verif}/.vendor " + PY310 + " legs/c01_huge_consts.py"),
          dict(name="c01_huge_consts_py311", cmd="PYTHONPATH={repo} " + PY311 + " legs/c01_huge_consts.py", thorough_only=True),
          dict(name="c01_huge_consts_py39", cmd="PYTHONPATH={repo}:{verif}/.vendor " + PY39 + " legs/c01_huge_consts.py", thorough_only=True),
          dict(name="c01_cmanagers", cmd="PYTHONPATH={repo} " + PY312 + " legs/c01_cmanagers.py"),
          dict(name="c01_cmanagers_py311", cmd="PYTHONPATH={repo} " + PY311 + " legs/c01_cmanagers.py")] + old_pythons("c01_cmanagers", "c01_cmanagers.py") + [
          g1("suspended", PY312, "py312"), g1("suspended", PY311, "py311"), corpus("exits", PY312, "py312"),
          corpus("exits", PY311, "py311", True), g1("suspended", PY310, "py310", vendor=True),
          g1("suspended", PY39, "py39", thorough_only=True, vendor=True), g1("suspended", PY312, "py312", 3, True, stride=40)],
    technique=BOUNDED_TECH + "; sub-lemmas (varint / exception-table decoding, handler-chain walk, the join of block stack and "
              "with-statement table in _contexts_active_by_trickery, the three closures of currently_exiting_context, the interpreter "
              "dispatch of inspect_frame) discharged deductively",
    explanation="Deductive sub-lemmas reported alongside the bounded stand-in (they do not make the property proved): _parse_varint and _parse_exception_table decode exactly the spec function of the 3.11+ table format for all byte strings; inspect_frame's handler-chain walk returns the outside-in chain of handlers covering f_lasti (relative to sorted, disjoint table entries); analyze_with_blocks returns a FRESH dict of FRESH Context templates that are obj-less and not exiting (3.12 and 3.10 configurations of the source); the 3.9/3.10 inspect_frame's block-stack walk (statements selected by pattern, 3.10 configuration) records exactly the SETUP_FINALLY entries among the first f_iblock block-stack entries, in order, each at position = number of such entries before it, handler scaled to bytes, level copied, reading no entry at or above f_iblock; _contexts_active_by_trickery joins them correctly: entry j of the result is the j-th block of the block stack whose handler is a key of the table, no such block is dropped or reordered, its obj is the __self__ of the stack slot just below the block's level, is_async / start_line are the table's, and the entry for a context whose exit is in progress is appended last with is_exiting. NOT decided deductively: which with statement a handler offset belongs to and where an exit call sits in the bytecode (analyze_with_blocks' layout knowledge, currently_exiting_context): the CPython compiler is not formalised; the G1 legs decide it. Two closures of currently_exiting_context (3.11+ branch) are under contract as well: innermost_with_handler(at) returns (depth, target) of the FIRST entry on the exception table's handler chain from `at` (at each hop the first entry covering the current offset) whose handler starts with PUSH_EXC_INFO; WITH_EXCEPT_START, None if the chain leaves the table first (C02.handler_chain.*); predecessors(of) returns exactly the instructions that fall through to `of` (CACHE entries skipped, never-falling-through opnames excluded) or jump to it, in instruction order, none twice (C02.predecessors.*). That the sequence matched before them IS an exit call and the choice among candidates stay with the bounded legs.",
    claim="Bounded stand-in: at every suspension point of every program of the family, Frame.contexts equals the shadow log (identity of obj, "
          "is_async, is_exiting on exactly the exiting one) with no InspectionWarning; plus every exit site of the running interpreter's "
          "standard library resolves to the with block on its own source line. Sub-lemmas proved deductively are reported alongside and do "
          "not make this a proof.",
    note=BOUNDED_NOTE)
PROPS["C02"] = dict(
    level="exploration", contracts=["contracts.inspect311", "contracts.inspect310", "contracts.c13", "contracts.lowlevel", "contracts.c02_exiting"],
    unit_filter=lambda u: u.name in ("C07.inspect_frame_311", "C02.inspect_frame_310.stack", "C13.push", "C20.contexts_active_in_frame",
                                     "C02.innermost_with_handler", "C02.predecessors", "C02.backtrack_over_load_none", "C02.frame_object_310.f_stacktop"),
    legs=[dict(name="c20_reentrant", cmd="PYTHONPATH={repo} " + PY312 + " legs/c20_reentrant.py"),
          dict(name="c02_exit_names", cmd="PYTHONPATH={repo} " + PY312 + " legs/c02_exit_names.py"),
          dict(name="c02_exit_names_py311", cmd="PYTHONPATH={repo} " + PY311 + " legs/c02_exit_names.py")] + old_pythons("c02_exit_names", "c02_exit_names.py") + [
          dict(name="c13_options", cmd="PYTHONPATH={repo} " + PY312 + " legs/c13_options.py"), g1("running", PY312, "py312"), g1("running", PY311, "py311"),
                                             g1("running", PY310, "py310", vendor=True),
                                             g1("running", PY39, "py39", thorough_only=True, vendor=True),
                                             g1("running", PY312, "py312", 3, True, stride=40)],
    technique=BOUNDED_TECH + "; sub-lemmas (stack trimming of running frames in both frame readers, f_stacktop on 3.10, the closures "
              "innermost_with_handler / predecessors / backtrack_over_load_none of currently_exiting_context) discharged deductively",
    explanation='Deductive sub-lemma: inside inspect_frame (3.11+), a frame that is executing (stacktop == -1) has its value stack cut to the depth of the FIRST exception-table entry covering f_lasti, computed in the same validated attempt, 0 if none covers it (C02.trim, C02.first_covering_entry_scan); on 3.9/3.10 (statements selected by pattern from the other inspect_frame, 3.10 configuration) a running frame\'s raw stack is cut to the deepest level any recorded block needs (0 without blocks) before any slot is turned into an object reference, NULL slots become None, and a suspended frame\'s slots are looked up among the frame\'s gc referents by address (never cast), None when no referent lives there; Because every frame inward of a re-entrant extraction gets its contexts only if the per-thread options survive it, ExtractOptions.push (restores both fields on every exit) and the options leg run here too. c02_exit_names: the exiting manager is identified whatever its exit function is called (aliased, decorated with an explicit self, inherited, lambda, async alias) for every way of leaving the block; everything else is the bounded stand-in. Two closures of currently_exiting_context (3.11+ branch) are under contract as well: innermost_with_handler(at) returns (depth, target) of the FIRST entry on the exception table\'s handler chain from `at` (at each hop the first entry covering the current offset) whose handler starts with PUSH_EXC_INFO; WITH_EXCEPT_START, None if the chain leaves the table first (C02.handler_chain.*); predecessors(of) returns exactly the instructions that fall through to `of` (CACHE entries skipped, never-falling-through opnames excluded) or jump to it, in instruction order, none twice (C02.predecessors.*). That the sequence matched before them IS an exit call and the choice among candidates stay with the bounded legs.',
    claim="Bounded stand-in: the same family probed from inside every __enter__/__exit__/__aenter__/__aexit__ invocation and every body call "
          "of running coroutines, generators and async generators (extract_since on the running frame): a manager being entered is not yet "
          "listed, one being exited is listed last with is_exiting and obj set, for every way of leaving the block.",
    note=BOUNDED_NOTE)
PROPS["C08"] = dict(
    level="exploration", contracts=["contracts.lowlevel"], unit_filter=lambda u: u.name == "C01.contexts_active_by_trickery",
    legs=[g1("meta", PY312, "py312"), g1("meta", PY311, "py311"), corpus("meta", PY312, "py312"),
                                             dict(name="c08_targets_py312", cmd="PYTHONPATH={repo} " + PY312 + " legs/c08_targets.py"),
                                             dict(name="c08_targets_py311", cmd="PYTHONPATH={repo} " + PY311 + " legs/c08_targets.py"),
                                             dict(name="c08_targets_py310", cmd="PYTHONPATH={repo}:{verif}/.vendor " + PY310 + " legs/c08_targets.py"),
                                             dict(name="c08_targets_py39", cmd="PYTHONPATH={repo}:{verif}/.vendor " + PY39 + " legs/c08_targets.py"),
                                             corpus("meta", PY311, "py311", True), g1("meta", PY310, "py310", vendor=True),
                                             g1("meta", PY39, "py39", thorough_only=True, vendor=True)],
    technique=BOUNDED_TECH + "; the varname rule of the join (static `as` name, else a local whose value IS the manager) discharged deductively",
    explanation="Deductive sub-lemma (the varname rule of _contexts_active_by_trickery): an entry's varname is the static `as` name of its with statement when the table has one; otherwise it is None or the name of a local whose value IS the manager (ids compared, id injective on live objects), never a name for the obj-less placeholder of an exiting context; the locals scan and the fill loop are cut by invariants. start_line and the text of complex targets are the bounded stand-in's.",
    claim="Bounded stand-in: start_line equals the line of the with keyword and varname equals the `as` target (None without one) for every "
          "context of the family; for every with statement of the standard library start_line is a with line and varname is None or parses "
          "to the item's target, supported targets not dropped.",
    note=BOUNDED_NOTE + "; the generated family uses simple name targets, the richer target forms come from the standard-library corpus")
PROPS["C20"] = dict(
    level="exploration", contracts=["contracts.lowlevel"], unit_filter=lambda u: u.name.startswith("C20."),
    legs=[dict(name="c20_mode", cmd="PYTHONPATH={repo} " + PY312 + " legs/c20_mode.py"),
          dict(name="c20_reentrant", cmd="PYTHONPATH={repo} " + PY312 + " legs/c20_reentrant.py"),
          dict(name="c20_reentrant_py311", cmd="PYTHONPATH={repo} " + PY311 + " legs/c20_reentrant.py")] + old_pythons("c20_reentrant", "c20_reentrant.py") + [
          dict(name="c01_huge_consts", cmd="PYTHONPATH={repo} " + PY312 + " legs/c01_huge_consts.py"),
          dict(name="c01_huge_consts_py310", cmd="PYTHONPATH={repo}:{verif}/.vendor " + PY310 + " legs/c01_huge_consts.py"),
          dict(name="c01_huge_consts_py311", cmd="PYTHONPATH={repo} " + PY311 + " legs/c01_huge_consts.py", thorough_only=True),
          dict(name="c01_huge_consts_py39", cmd="PYTHONPATH={repo}:{verif}/.vendor " + PY39 + " legs/c01_huge_consts.py", thorough_only=True),
          dict(name="c01_cmanagers", cmd="PYTHONPATH={repo} " + PY312 + " legs/c01_cmanagers.py"),
          dict(name="c01_cmanagers_py311", cmd="PYTHONPATH={repo} " + PY311 + " legs/c01_cmanagers.py"),
          dict(name="c20_faults", cmd="PYTHONPATH={repo} " + PY312 + " legs/c20_faults.py"),
          dict(name="c20_faults_py311", cmd="PYTHONPATH={repo} " + PY311 + " legs/c20_faults.py")] + old_pythons("c20_faults", "c20_faults.py") + [
          g1("referents", PY312, "py312"), g1("referents", PY311, "py311"), g1("referents", PY310, "py310", vendor=True),
          g1("referents", PY39, "py39", thorough_only=True, vendor=True)],
    technique=BOUNDED_TECH + "; containment and mode-switch obligations discharged deductively",
    explanation="Deductive part: contexts_active_in_frame contains every Exception of the trickery analysis (one InspectionWarning, then the referents fallback on the same frame / origin) and never calls the analysis when it is disabled; _contexts_active_by_referents (3.12 and 3.10 configurations) scans the referents of the generator object (3.11+) or the frame, emits exactly one Context per bound method named __exit__/__aexit__ in referent order with obj = its __self__ and is_async from the name, and appends the is_exiting placeholder last iff an exit call is in progress; set_trickery_enabled stores the setting under _trickery_lock; _check_trickery_available stores its verdict only under that lock and only over a cell it saw unset under the same acquisition (the global is read as volatile whenever the lock is not held), so a concurrent set_trickery_enabled is never overwritten. That the referents of a frame are what the property needs (interpreter behaviour) is the bounded stand-in's.",
    claim="Bounded stand-in for the over-approximation clause (fallback mode: every truly active manager present in order with right obj / "
          "is_async, an is_exiting entry iff an exit is in progress, extras only the manager being entered or exited); containment of "
          "trickery failures and the set_trickery_enabled mode switch are proved deductively. c20_faults: an exception injected at the k-th "
          "call (k <= 3) of each of 7 helpers of the trickery path, at every suspension point of 6 programs, on a code object never analysed "
          "before: warning + sound fallback, and the next fault-free inspection (same frame, fresh frame of the same function) is exact again.",
    note=BOUNDED_NOTE + "; what gc.get_referents reports is interpreter behaviour")
PROPS["C06"] = dict(
    level="exploration", contracts=["contracts.inspect311", "contracts.lowlevel", "contracts.inspect310", "contracts.c13"], static=["contracts.c06_effects"],
    unit_filter=lambda u: u.name in ("C07.inspect_frame_311", "C01.analyze_with_blocks", "C01.inspect_frame_310.blocks", "C02.inspect_frame_310.stack",
                                     "C20.contexts_active_by_referents", "C13.push"),
    legs=[dict(name="c13_options", cmd="PYTHONPATH={repo} " + PY312 + " legs/c13_options.py"),
          dict(name="c08_targets_py312", cmd="PYTHONPATH={repo} " + PY312 + " legs/c08_targets.py"),
          dict(name="c20_faults", cmd="PYTHONPATH={repo} " + PY312 + " legs/c20_faults.py"), g1("twin", PY312, "py312"), g1("twin", PY311, "py311", thorough_only=True),
          dict(name="c07_preempt", cmd="PYTHONPATH={repo} " + PY312 + " legs/c07_preempt.py")],
    technique=BOUNDED_TECH + " (twin runs)",
    explanation='Deductive / syntactic part: five effect and retention obligations over the package ASTs (no resuming call on a target, no memoising decorator, no clock / RNG, module-level mutable state only in the listed places, ...); inspect_frame reads only value-stack slots below the validated depth and brackets every slot read by an f_lasti check; analyze_with_blocks hands out a fresh table of fresh templates (nothing shared between calls, so filling in obj cannot leak a manager into module state). _contexts_active_by_referents touches its referents only through isinstance tests and the attributes of bound methods (no attribute lookup on arbitrary user objects); ExtractOptions.push and the options leg (two threads interleaved) run here too: an extraction must not disturb another one in progress. Reference counts of the ctypes reads and crash-freedom are assumptions.',
    claim="Bounded stand-in: every program of the family run twice, un-observed and with two extractions at every suspension point: identical "
          "traces, the two extractions compare equal, managers are collectable once results are dropped. Reference-count balance of the "
          "ctypes reads and crash-freedom are NOT decided (sampled only).",
    note=BOUNDED_NOTE + "; ctypes reference handling and interpreter crash-freedom remain assumptions")
PROPS["C18"] = dict(
    level="exploration", contracts=["contracts.types_fmt"],
    unit_filter=lambda u: u.name.startswith("C18.") or u.name == "C19.Stack._format_header",
    legs=[dict(name="trees_C18", cmd="PYTHONPATH={repo} " + PY312 + " legs/trees.py C18"),
          dict(name="trees_C18_ascii_stdout", cmd="PYTHONIOENCODING=ascii PYTHONPATH={repo} " + PY312 + " legs/trees.py C18"),
          dict(name="trees_C18_O", cmd="PYTHONPATH={repo} " + PY312 + " -O legs/trees.py C18"),
          dict(name="trees_C18_py311", cmd="PYTHONPATH={repo} " + PY311 + " legs/trees.py C18", thorough_only=True)] + old_pythons("trees_C18", "trees.py C18"),
    technique="bounded contract check: decoder (parse) applied to format() of generated Stack trees must return the tree's shape; "
              "string obligations of the line grammar are not discharged deductively (see DESIGN.md: fallback B taken)",
    explanation="Deductive sub-lemmas: Formattable.format passes each public flag in its own field of one FormatOptions object and returns _format's lines unchanged; __str__ is ''.join(self.format()) with default options; Stack._format (string obligations, z3 sequences): the result is the header, then for every frame that is not (hidden and not show_hidden_frames), in order, that frame's lines each prefixed by the start-of-frame marker (first line) or the continuation marker (others) selected by ascii_only, then the leaf line (marker + repr + newline) iff there is a leaf, then the error lines iff there is an error; nothing else, no frame line dropped or reordered (ghost owner / offset functions). Stack._format_header names the root (by repr) iff root is not None, whatever its truth value; Stack._format_error (generator, two cuts) yields the heading, then for every chunk of traceback.format_exception(type(err), err, err.__traceback__) other than the banner every line of chunk.splitlines(True) behind two spaces, and nothing else; Context._name_and_type is '<name or _>: <type name>' iff there IS a manager object (falsy ones included), the bare name iff there is none. The decodability of the composed prefixes is decided by the bounded leg only (fallback B of DESIGN.md).",
    claim="Bounded stand-in: on 600 (thorough 3000) pseudo-random Stack trees of depth/width <= 3 built from real frames x 8 option sets, "
          "format() yields single newline-terminated lines, the executable decoder recovers the nesting from the box-drawing prefixes, "
          "str(x) is the concatenation, ascii_only is the image under the fixed marker map, hidden items are printed iff "
          "show_hidden_frames, nested error blocks (real multi-line tracebacks) keep the structure.",
    note="NOT a proof; payload strings are single-line by construction of the generator (a repr containing a line separator would break the "
         "single-line clause trivially)")
PROPS["C19"] = dict(
    level="other", contracts=["contracts.types_fmt"],
    unit_filter=lambda u: u.name.startswith("C19.") or u.name == "C18.Stack._format_error",
    legs=[dict(name="trees_C19", cmd="PYTHONPATH={repo} " + PY312 + " legs/trees.py C19"),
          dict(name="trees_C19_py311", cmd="PYTHONPATH={repo} " + PY311 + " legs/trees.py C19", thorough_only=True)] + old_pythons("trees_C19", "trees.py C19"),
    technique=TECH + "; bounded leg against an executable structural specification",
    explanation="Deductive part (all inputs): the three summary generators are verified as producers (ghost output = list of segments, one per "
                "`yield` / `yield from`), each callee an abstract sequence given by an uninterpreted function of its arguments: "
                "Stack._frame_summaries yields, per frame in order, nothing iff the frame is hidden and show_hidden_frames is off, else the "
                "with-contexts expansion (same flags) iff show_contexts, else the frame's own entry; "
                "Frame.as_stdlib_summary_with_contexts yields each context's summaries (this frame as parent, flags in the right positions, "
                "no override line) and then its own entry unless the last context is exiting; Context._frame_summaries yields nothing iff "
                "hidden, else one entry (parent's filename, start_line or parent.lineno, locals iff capture_locals), then the inner stack "
                "summarised WITH contexts and the same flags, then each child Context's summaries with the same parent and flags (child "
                "stacks skipped); Frame.as_stdlib_summary carries filename / lineno / funcname and locals iff capture_locals; every "
                "FrameSummary argument is sort-checked to hold no frame; Stack.as_stdlib_summary is StackSummary.from_list of its own entries with "
                "the three flags in their own positions. format_flat is the header, then StackSummary.format() of as_stdlib_summary(show_contexts=...) iff there are frames, "
                "then the leaf line iff there is a leaf (frames or not), then the _format_error lines iff there is an error, in this order and nothing else; "
                "the header and _format_error units are shared with C18. Not under contract: "
                "the text of override lines, StackSummary.format itself (stdlib), pickling - decided by the bounded leg (random trees x 8 flag sets, pickle "
                "round trip, format_flat identity incl. recursion collapsing).",
    claim="Summary generators proved to be the structural projection; format_flat, pickling and the traceback module's rendering checked on "
          "a bounded family.",
    note="traceback.FrameSummary / StackSummary behaviour assumed; callee sequences are abstract (modular: each generator is proved "
         "against the others' contracts)")
PROPS["C09"] = dict(
    level="other", contracts=["contracts.glue_small", "contracts.c11", "contracts.c13"],
    unit_filter=lambda u: u.name.startswith("C09.") or u.name.startswith("C11.fill_context") or u.name in ("C13.push", "C11.unwrap_generatorbased_contextmanager"),
    legs=[dict(name="c09_trees", cmd="PYTHONPATH={repo} " + PY312 + " legs/c09_trees.py"),
          dict(name="c11_contexts", cmd="PYTHONPATH={repo} " + PY312 + " legs/c11_contexts.py"),
          dict(name="c09_trees_O", cmd="PYTHONPATH={repo} " + PY312 + " -O legs/c09_trees.py"), dict(name="c13_options", cmd="PYTHONPATH={repo} " + PY312 + " legs/c13_options.py")] + old_pythons("c09_trees", "c09_trees.py"), technique=TECH + "; bounded registration-sequence leg",
    explanation="Deductive part (all inputs): elaborate_generatorbased_contextmanager sets inner_stack = extract_child(mgr.gen, for_task=False) "
                "iff the context is not exiting and always a description, touching nothing else; elaborate_exit_stack's loop is cut by an "
                "invariant (children attached up front, one child appended per callback at position idx = registration order, fill_context run "
                "on exactly that child) with clauses at the append: obj is the callback's __self__ if it has a truthy one else the callback, "
                "is_async == not is_sync, start_line inherited, not exiting, the method constant has the right sync/async kind, the enter form "
                "is chosen iff the callback is a non-method with __self__ or a bound __exit__/__aexit__, the await tag iff async enter form; "
                "no hook exception is swallowed. Relative to the contextlib storage axioms listed in the assumptions, which the bounded leg "
                "checks against the RUNNING contextlib: every sequence of length <= 3 over the 10 registration forms, generator-based entries "
                "nested two deep, the exit stack observed while exiting, a functools.wraps-decorated pushed function.",
    claim="Classification and tree-building contracts proved relative to contextlib's storage shapes; those shapes and the end-to-end tree are "
          "checked on an enumerated bounded family against the running contextlib.",
    note="contextlib private attributes (_exit_callbacks, gen, func/args/kwds) assumed as observed on the running interpreter; "
         "description TEXT beyond the method name is not specified; varname f-string not decoded deductively (leg checks it)")
PROPS["C07"] = dict(
    level="other", contracts=["contracts.glue_small", "contracts.c04", "contracts.inspect311"],
    unit_filter=lambda u: u.name.startswith("C07.") or u.name in ("C04.try_from", "C04.slice_block", "C04.limit_block"),
    legs=[dict(name="c07_threads", cmd="PYTHONPATH={repo} " + PY312 + " legs/c07_threads.py"),
          dict(name="c02_exit_names", cmd="PYTHONPATH={repo} " + PY312 + " legs/c02_exit_names.py"),
          dict(name="c07_preempt", cmd="PYTHONPATH={repo} " + PY312 + " legs/c07_preempt.py"),
          dict(name="c07_preempt_py311", cmd="PYTHONPATH={repo} " + PY311 + " legs/c07_preempt.py", thorough_only=True)],
    technique=TECH + "; bounded blocked-thread leg and sampled racing-thread stress",
    explanation="Deductive part (all inputs): unwrap_thread returns [] unless the thread was alive BEFORE and AFTER the sys._current_frames() "
                "read (in that order: the read is bracketed by the two liveness checks) and a frame was found, else StackSlice(inner=that "
                "frame); with the C04 contracts (try_from: the f_back chain of that frame, outermost first) every reported frame is on the "
                "f_back chain of the thread's current frame, hence belongs to that thread (CPython axiom). Bounded part: a thread blocked at a "
                "fixed point, depth 1..6 x manager nesting 0..2: frames == f_back truth, exact contexts, no warning; nothing before start / "
                "after finish. inspect_frame (3.11+) is under contract with every read of f_lasti, of a raw struct field and of a "
                "value-stack slot modelled as a VOLATILE read logged in ghost state: on the path that leaves the 10-attempt retry loop by "
                "break all f_lasti observations of that attempt equal lasti_before, every slot read is immediately preceded by such a check "
                "and the attempt ends with one; an AssertionError propagates only if f_lasti is unchanged, otherwise the attempt is retried; "
                "ten failures raise RuntimeError; a running frame's stack is cut to the depth of the FIRST exception-table entry covering "
                "the lasti of the SAME attempt; slot indices stay within the validated extent; the handler-chain walk returns the outside-in "
                "chain (relative to sorted_disjoint(handlers)). Deterministic preemption leg: a sys.settrace line hook on the inspecting "
                "thread lets the target advance at EVERY line of inspect_frame (start position x progress x line), the accepted snapshot "
                "must be consistent with one position.  NOT decided: 'never crashes' (memory safety of the ctypes reads under races; ABA).",
    claim="unwrap_thread's liveness bracketing, its composition with the slicing contracts, and inspect_frame's snapshot-validation protocol "
          "proved (volatile-read model); blocked-thread exactness and every preemption point of the snapshot code checked on bounded "
          "exhaustive families; memory safety of the raw reads under races remains an unverified assumption.",
    note="memory safety / crash-freedom of the ctypes reads under concurrent modification is assumed, not checked; schedules are not explored")
PROPS["C14"] = dict(
    level="other", contracts=["contracts.glue_small", "contracts.c12", "contracts.extract_iter"],
    unit_filter=lambda u: u.name.startswith("C14.") or u.name in ("C12.customize_it", "C12.customize", "C05.extract_iter"),
    legs=[dict(name="c14_trio", cmd="PYTHONPATH={repo} " + PY312 + " legs/c14_trio.py")],
    technique=TECH + "; bounded Trio task-tree leg",
    explanation="Deductive part: elaborate_to_thread_run_sync splices the frames of THE thread whose name object is the frame's thread_name "
                "(identity, first such thread in threading.enumerate()), from that thread's current frame out to the frame just inward of "
                "worker_fn (f_back walk cut by an invariant over a ghost ancestor function), hides the run_sync frame, and keeps the "
                "task's inward rest iff the task is not simply waiting for the thread (reentrant from_thread call); unwrap_task(t) == t.coro; elaborate_nursery sets obj = manager._nursery and children == "
                "[extract_child(t, for_task=True) for t in obj.child_tasks] in iteration order (element-wise, via the comprehension schema); "
                "trap customisations are hide+prune through the proved customize/customize_it contracts; the insert / prune depth rule that "
                "the thread-hop elaborators rely on (a prune issued from the inserted thread stack stops at next_inner) is the proved "
                "C10.step.push clause. The isomorphism with Trio's own tree additionally needs the C01 contract on Trio's frames (bounded only) "
                "and Trio's axioms (task.child_nurseries order, nursery.child_tasks): decided by the bounded leg: 161 task trees (depth<=2, "
                "fan<=2, 0..2 nested nurseries, blocked in body or __aexit__, 4 body endings) compared with task.child_nurseries / "
                "nursery.child_tasks by identity, stub children without recursion, and to_thread/from_thread ping-pong of depth 0..2 "
                "(thorough 3).  The thread-hop elaborators read Trio-private locals by name and are not under contract.",
    claim="Glue contracts proved; tree isomorphism and thread hops checked on an enumerated bounded family against the running Trio 0.34.",
    note="Trio internals assumed (manager._nursery, nursery.child_tasks, task.coro, private locals of to_thread/from_thread); CPython 3.12 only")
PROPS["C15"] = dict(
    level="other", contracts=["contracts.glue_small", "contracts.c04"],
    unit_filter=lambda u: u.name.startswith("C15.") or u.name in ("C04.try_from", "C04.slice_block", "C04.limit_block"),
    legs=[dict(name="c15_greenlets", cmd="PYTHONPATH={repo} " + PY312 + " legs/c15_greenlets.py")],
    technique=TECH + "; bounded greenlet / greenback leg",
    explanation="Deductive part (all inputs): unwrap_greenlet by cases — dead or unstarted -> []; running but not the caller's current greenlet -> "
                "RuntimeError; current -> StackSlice(inner=true caller, outer=a frame on the caller's f_back chain whose f_back is the "
                "parent's switch frame or None; no outer bound for the main greenlet); suspended -> StackSlice(inner=gr_frame, outer=the end "
                "of ITS OWN f_back chain), which with the proved slicing contracts of C04 gives exactly the frames from its entry function "
                "to its switch point whoever asks (this is the F8 repair; both walks are cut by invariants). Minimality of the outer bound "
                "for the current greenlet is not expressed deductively. greenback: the three elaborators discriminate on greenback-private "
                "locals and the shape of the next frame and are not under contract. Bounded leg: parent chains of depth 1..3 x call depth "
                "1..3 inspected from main and from a descendant, the current greenlet, unstarted/dead, a greenlet running in another thread "
                "(child and that thread's main greenlet), greenback alternation depth 0..3 from outside and inside the task.",
    claim="unwrap_greenlet's case analysis proved and composed with the C04 slicing contracts; greenback bridges and end-to-end stacks "
          "checked on an enumerated bounded family against the running greenlet 3 / greenback.",
    note="greenlet semantics assumed (gr_frame None when running/dead/unstarted, truthiness); greenback internals not modelled; CPython only")
NOT_APPLICABLE = {}
