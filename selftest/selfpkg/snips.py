"""Snippets for the engine differential (tools/engine_diff.py): each function is run by CPython and by pyvc's symbolic
executor on the same concrete arguments; outcomes (value or exception class) must agree.  These are NOT code of the
repository; they exercise the Python subset the sidecar contracts rely on."""


def slices(xs, a, b):
    return (xs[a:b], xs[a:], xs[:b], xs[::-1], xs[b:a:-1], xs[-1:], xs[:-1])


def filt(xs, k):
    return [x for x in xs if x > k]


def filt_map(xs, k):
    return [x + 1 for x in xs if x != k]


def mapc(xs):
    return [(x, x * 2) for x in xs]


def for_else(xs, k):
    for i, x in enumerate(xs):
        if x == k:
            r = i
            break
    else:
        r = -1
    return r


def init_before_loop(xs, k):
    r = -1
    for x in xs:
        if x >= k:
            r = x
            break
    return r


def while_flag(n):
    going = True
    acc = 0
    while going:
        if n > 3:
            n = n - 2
            acc += 1
        elif n > 0:
            n -= 1
            acc += 10
        else:
            going = False
    return acc


def try_finally(xs, i):
    log = []
    try:
        log.append(xs[i])
    except IndexError:
        log.append(-1)
    else:
        log.append(0)
    finally:
        log.append(99)
    return log


def nested_try(d, k):
    try:
        try:
            v = d[k]
        finally:
            d[k] = 7
    except KeyError:
        return (None, d[k])
    return (v, d[k])


def dict_ops(ks):
    d = {}
    for k in ks:
        d[k] = d.get(k, 0) + 1
    return [d.get(1), d.get(2), d.get(3), len(d), 1 in d, 5 in d]


def boolops(a, b, c):
    return (a and b, a or b, not a, (a or b) and c, a if b else c)


def minmax(a, b):
    return (max(a, b), min(a, b), a // 1 if b else 0)


def tuple_unpack(t):
    a, b, *rest = t
    return (b, a, rest)


def popping(xs):
    out = []
    while xs:
        out.append(xs.pop())
    return out


def is_none_chain(a, b):
    return a if a is not None else (b if b is not None else 0)


def compare_chain(a, b, c):
    return (a <= b <= c, a < b < c, a == b != c)


def reversed_enum(xs):
    out = []
    for i, x in enumerate(reversed(xs)):
        out.append((i, x))
    return out


def augassign(xs):
    n = 0
    for x in xs:
        n += x
        n -= 1
    return n


def early_return(xs, k):
    for x in xs:
        if x == k:
            return True
    return False


def raise_in_loop(xs):
    for x in xs:
        if x < 0:
            raise ValueError("neg")
    return len(xs)


def listcomp_alloc(xs):
    return [[x, x] for x in xs]


def insert_extend(xs, ys):
    zs = list(xs)
    zs.extend(ys)
    zs.append(42)
    return zs


def str_prefix(s):
    return (s.startswith("ab"), "b" in s, s == "abc")


def untyped_dict(x, k):
    if isinstance(x, dict):
        return x.get(k, -1)
    return None


def sentinel(d, k):
    missing = object()
    v = d.get(k, missing)
    if v is missing:
        return "absent"
    return v


def fstr(a, b):
    return f"{a}-{b}|" + "x"


def int_or_bool(x):
    if isinstance(x, bool):
        return "bool"
    if isinstance(x, int):
        return "int"
    return "other"


def max_of_seq(xs):
    return (max(xs), min(xs), max(x * 2 for x in xs))


def ifexp_in_comp(xs, k):
    return [None if x == k else x + 1 for x in xs]


def dictcomp_get(xs, k):
    d = {x: x * 10 for x in xs}
    return (d.get(k), k in d, len(xs))


def del_tail(xs, k):
    ys = list(xs)
    del ys[k:]
    return ys


def static_ifexp(a):
    import sys
    m = 2 if sys.version_info >= (3, 10) else 1
    return a * m
