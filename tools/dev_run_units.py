import sys, importlib, os; sys.path.insert(0,'/verif')
mod = importlib.import_module('contracts.'+sys.argv[1])
from pyvc.unit import run_unit
import pyvc.exec as E
from pyvc.obligations import discharge
import z3
only = sys.argv[2] if len(sys.argv)>2 else None
dbg = os.environ.get('DBG')
if dbg:
    orig=E.ExecBase.oblig
    seen=set()
    def hook(s,name,cls,path,goal,axioms=None,quiet=False):
        v=orig(s,name,cls,path,goal,axioms,quiet)
        if v!='PROVED' and dbg in name and name not in seen:
            seen.add(name)
            g=goal
            print('  >>', name, v, 'notes', path.notes[-8:])
            def conj(g,ind):
                if z3.is_and(g):
                    for i in range(g.num_args()): conj(g.arg(i),ind)
                elif z3.is_implies(g):
                    path.pc.append(g.arg(0)); conj(g.arg(1),ind+2); path.pc.pop()
                else:
                    r=discharge(path.pc,g,s.axioms)[0]
                    if r!='PROVED': gs=str(g).replace("\n"," "); import re; gs=re.sub(r"\s+"," ",gs); print(" "*ind, r, gs[:150], " ..... ", gs[-500:])
            conj(z3.simplify(goal) if False else goal,6)
        return v
    E.ExecBase.oblig=hook
for u in mod.UNITS:
    if only and only not in u.name: continue
    r = run_unit(u)
    agg={}
    for o in r.obls:
        a=agg.setdefault(o.name,[0,0,0]); a[{'PROVED':0,'REFUTED':1,'UNDECIDED':2}[o.verdict]]+=1
    print(u.name, 'paths', r.paths, r.outcomes, 'err', r.error, 'canary', r.canary, round(r.wall,2), 'obls', len(r.obls))
    if r.crash: print(r.crash[-1500:])
    if r.never_evaluated and not r.error: print('    NEVER-EVALUATED clauses:', sorted(r.never_evaluated))
    shown=set()
    for n,a in agg.items():
        if a[1] or a[2]: print('    BAD', n, a)
    for o in r.obls:
        if o.verdict!='PROVED' and o.name not in shown:
            shown.add(o.name); print('      ', o.verdict, o.name, o.backend, (str(o.model)[:300] if os.environ.get('MODEL') else ''), o.notes[-7:])
from pyvc.state import STATS; print(STATS)
