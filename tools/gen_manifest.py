#!/opt/veriftools/pyvenv/bin/python
"""Regenerates MANIFEST.json from props.py (claimed properties) — every property not claimed goes to not_applicable."""
import json, os, sys
HERE = os.path.dirname(os.path.dirname(os.path.abspath(__file__)))
sys.path.insert(0, HERE)
import props
ALL = [json.loads(l)["id"] for l in open(os.path.join(HERE, "properties.jsonl"))]
m = json.load(open(os.path.join(HERE, "MANIFEST.json")))
checks = []
for pid in ALL:
    sp = props.PROPS.get(pid)
    if not sp:
        continue
    checks.append(dict(
        property_id=pid,
        quick_cmd=f"./check {pid} --tier quick",
        thorough_cmd=f"./check {pid} --tier thorough",
        evidence_file=f"/verif/evidence/{pid}.json",
        replay_cmd_template=f"./check {pid} --replay {{path}}",
        engine="pyvc",
        level_claimed=dict(category=sp["level"], text=sp["claim"], design_ref=sp.get("design_ref", "DESIGN.md section 5 / " + pid)),
        level_note=sp["note"],
        technique=sp["technique"],
    ))
m["checks"] = checks
m["not_applicable"] = [dict(property_id=p, reason=props.NOT_APPLICABLE.get(p, "leg not built yet (build in progress; see DESIGN.md section 9)"))
                       for p in ALL if p not in props.PROPS]
m["engines"] = [dict(name="pyvc", path="/verif/pyvc", serves_properties=sorted(props.PROPS),
                     kind_free_text="function-modular VC generator / symbolic executor over the real ASTs of /repo with sidecar contracts; "
                                    "obligations discharged by z3 5.1 (cvc5 1.0.3 and z3 4.8.12 as second opinions); bounded native contract legs "
                                    "on CPython 3.12/3.11/3.10/3.9 where the compiler/interpreter is not formalised")]
m["notes"] = ("see DESIGN.md (section 0 = as built); exit codes: 0 held, 1 violation, 2 undecided (unknown, unsupported construct, lost contract "
              "anchor, proof failed after a loop under invariant changed shape), 3 checker crash (incl. a disagreement of the engine "
              "differential tools/engine_diff.py, which every check with deductive units runs); known findings: known_findings.json; "
              "independent test material: seeded/ (317 seeded defects from eight rounds, seeded/DETECTION.md) and refactorings/ (behaviour-preserving edits from two rounds)")
json.dump(m, open(os.path.join(HERE, "MANIFEST.json"), "w"), indent=1)
print("claimed:", [c["property_id"] for c in checks])
