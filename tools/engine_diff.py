#!/opt/veriftools/pyvenv/bin/python
"""Engine differential (self-test of the trusted base): every snippet of selftest/selfpkg/snips.py is run by CPython and by
pyvc's symbolic executor ON THE SAME CONCRETE ARGUMENTS; the executor must end in exactly one feasible outcome and that
outcome (returned value, or class of the escaping exception) must equal CPython's.  A disagreement is an executor /
encoding bug (exit 3), never a property verdict.  usage: tools/engine_diff.py [-v]"""
import os, sys, copy, itertools, json, time
HERE = os.path.dirname(os.path.dirname(os.path.abspath(__file__)))
os.environ["PYVC_REPO"] = os.path.join(HERE, "selftest")
sys.path.insert(0, HERE)
sys.path.insert(0, os.path.join(HERE, "selftest"))
import z3
from pyvc.values import *  # noqa
from pyvc.state import SV
from pyvc.unit import Unit, Clause, run_unit
from pyvc.exec import NONE_SV, sv_int, sv_bool
from contracts.common import STD_BINDINGS, STD_METHODS
import selfpkg.snips as S

VERBOSE = "-v" in sys.argv


def to_sv(ex, p, v):
    if v is None:
        return NONE_SV
    if isinstance(v, bool):
        return sv_bool(v)
    if isinstance(v, int):
        return sv_int(z3.IntVal(v))
    if isinstance(v, str):
        return ex.const(p, v)
    if isinstance(v, (list, tuple)):
        return ex.make_tuple(p, [to_sv(ex, p, x) for x in v], "list" if isinstance(v, list) else "tuple")
    if isinstance(v, dict):
        d = p.new_dict()
        for k, x in v.items():
            p.dset(d, to_sv(ex, p, k).t, to_sv(ex, p, x).t)
        return SV(d, ty="dict")
    raise TypeError(v)


def solve(p):
    s = z3.Solver()
    s.add(*p.pc)
    assert s.check() == z3.sat
    return s.model()


def decode(p, H, t, ex):
    """python value of term t in heap H on path p.  Container elements are read THROUGH the path (which instantiates the
    schemas that define them); reading and solving are repeated until no new fact appears, then the value is taken from the
    final model (the path condition then pins it: the executor is deterministic on concrete inputs)."""
    def walk(m, t, read):
        v = m.eval(t, model_completion=True)
        if z3.is_true(m.eval(Val.is_none(v))):
            return None
        if z3.is_true(m.eval(Val.is_boolv(v))):
            return z3.is_true(m.eval(Val.b(v)))
        if z3.is_true(m.eval(Val.is_intv(v))):
            return m.eval(Val.i(v)).as_long()
        a = m.eval(Val.a(v)).as_long()
        kn = kind_name(m.eval(kind(a), model_completion=True).as_long())
        if kn in ("list", "tuple", "deque"):
            lo, hi = m.eval(H.lo_(v), model_completion=True).as_long(), m.eval(H.hi_(v), model_completion=True).as_long()
            xs = [walk(m, (p.read(t, z3.IntVal(j), H) if read else H.raw(t, z3.IntVal(j))), read) for j in range(lo, min(hi, lo + 40))]
            return xs if kn != "tuple" else tuple(xs)
        if kn == "str":
            for val, sv in ex_consts(ex):
                if isinstance(val, str) and z3.is_true(m.eval(sv.t == v, model_completion=True)):
                    return val
            sval = m.eval(strval(a), model_completion=True)
            return sval.as_string() if z3.is_string_value(sval) else "<str>"
        return f"<{kn}>"
    for _ in range(12):
        n0 = len(p.pc)
        walk(solve(p), t, True)
        if len(p.pc) == n0:
            break
    return walk(solve(p), t, False)


def equals(p, H, t, val, ex):
    """z3 Bool: term t (heap H, path p) denotes the python value val; reads go through the path so that schemas are instantiated"""
    if val is None:
        return Val.is_none(t)
    if isinstance(val, bool):
        return And(Val.is_boolv(t), Val.b(t) == z3.BoolVal(val))
    if isinstance(val, int):
        return And(Val.is_intv(t), Val.i(t) == val)
    if isinstance(val, str):
        return And(is_exact_kind(t, "str"), strval(Val.a(t)) == z3.StringVal(val))
    if isinstance(val, (list, tuple)):
        lo = H.lo_(t)
        p.read(t, lo + len(val), H)        # one instance beyond the end: lets the solver refute "there is one more element"
        return And([is_exact_kind(t, "list" if isinstance(val, list) else "tuple"), H.length(t) == len(val)] +
                   [equals(p, H, p.read(t, lo + j, H), x, ex) for j, x in enumerate(val)])
    raise TypeError(val)


def ex_consts(ex):
    return list(getattr(ex, "_consts_seen", {}).items())


CASES = {
    "slices": [([1, 2, 3, 4, 5], a, b) for a in (-7, -2, 0, 1, 3, 6) for b in (-6, -1, 0, 2, 4, 9)],
    "filt": [([3, 1, 4, 1, 5], k) for k in (0, 1, 3, 9)] + [([], 0)],
    "filt_map": [([3, 1, 4, 1, 5], k) for k in (1, 4, 7)],
    "mapc": [([],), ([7],), ([1, 2, 3],)],
    "for_else": [([5, 6, 7], k) for k in (5, 7, 8)] + [([], 1)],
    "init_before_loop": [([1, 5, 9], k) for k in (0, 5, 6, 10)],
    "while_flag": [(n,) for n in (0, 1, 3, 4, 7, 8)],
    "try_finally": [([10, 20], i) for i in (0, 1, 2, -1, -3)],
    "nested_try": [({1: 5}, 1), ({1: 5}, 2)],
    "dict_ops": [([1, 2, 1, 3, 1],), ([],), ([5, 5],)],
    "boolops": [(a, b, c) for a in (0, 2) for b in (None, 3) for c in (False, True)],
    "minmax": [(1, 2), (2, 1), (3, 3), (0, 0)],
    "tuple_unpack": [((1, 2),), ((1, 2, 3, 4),)],
    "popping": [([1, 2, 3],), ([],)],
    "is_none_chain": [(None, None), (None, 4), (0, 5)],
    "compare_chain": [(1, 2, 3), (1, 1, 2), (3, 2, 1), (2, 2, 2)],
    "reversed_enum": [([4, 5, 6],), ([],)],
    "augassign": [([1, 2, 3],), ([],)],
    "early_return": [([1, 2, 3], 2), ([1, 2, 3], 9)],
    "raise_in_loop": [([1, 2],), ([1, -2, 3],)],
    "listcomp_alloc": [([1, 2],), ([],)],
    "insert_extend": [([1], [2, 3]), ([], [])],
    "str_prefix": [("abc",), ("abd",), ("xb",), ("q",)],
    "untyped_dict": [({1: 5}, 1), ({1: 5}, 2), ([1], 0), (None, 0)],
    "sentinel": [({1: 5}, 1), ({1: None}, 1), ({}, 3)],
    "fstr": [("ab", "c"), ("", "")],
    "int_or_bool": [(True,), (3,), (None,), ("s",)],
    "max_of_seq": [([3, 1, 4],), ([7],), ([],), ([-2, -5],)],
    "ifexp_in_comp": [([1, 2, 3], 2), ([], 0), ([5, 5], 5)],
    "dictcomp_get": [([1, 2, 3], 2), ([1, 2, 3], 9), ([], 1), ([4], 4)],
    "del_tail": [([1, 2, 3, 4], k) for k in (0, 2, 4, 7)],
    "static_ifexp": [(3,), (0,)],
}


def run_cpython(fn, args):
    try:
        return ("return", getattr(S, fn)(*copy.deepcopy(args)))
    except Exception as e:  # noqa
        return ("raise", type(e).__name__)


def run_pyvc(fn, args, want):
    got = []
    names = getattr(S, fn).__code__.co_varnames[:getattr(S, fn).__code__.co_argcount]
    def setup(ex, p):
        orig = ex.const
        ex._consts_seen = {}
        def const(p_, value):
            sv = orig(p_, value)
            if isinstance(value, str):
                ex._consts_seen[value] = sv
            return sv
        ex.const = const
        for n, v in zip(names, args):
            p.env[n] = to_sv(ex, p, v)
        return {}
    def capture(ctx):
        if not ctx.p.feasible():
            return None
        if ctx.kind == "return":
            val = decode(ctx.p, ctx.H, ctx.result.t, ctx.ex)
            # the path condition must ENTAIL CPython's value (not merely admit it)
            if want[0] == "return":
                from pyvc.obligations import discharge
                goal = equals(ctx.p, ctx.H, ctx.result.t, want[1], ctx.ex)
                r = discharge(ctx.p.pc, goal, ctx.ex.axioms)[0]
                if r != "PROVED":
                    val = ("NOT-ENTAILED", val)
            got.append(("return", val))
        else:
            m = solve(ctx.p)
            a = m.eval(Val.a(ctx.exc.t)).as_long()
            got.append(("raise", kind_name(m.eval(kind(a), model_completion=True).as_long())))
        return None
    fi_name = "selfpkg.snips." + fn
    u = Unit("selftest." + fn, fi_name, setup, post=[Clause("capture", capture, on=("any",))], bindings=dict(STD_BINDINGS),
             methods=dict(STD_METHODS), allowed_raise=lambda ctx: z3.BoolVal(True),
             unroll={(fi_name, "while#1"): 16}, options=dict(strings=True, unroll_concrete=True))
    r = run_unit(u)
    if r.error or r.crash:
        return ("engine-error", (r.error or r.crash)[-300:])
    if len(got) != 1:
        return ("paths", got)
    return got[0]


def norm(x):
    if isinstance(x, tuple):
        return tuple(norm(y) for y in x)
    if isinstance(x, list):
        return [norm(y) for y in x]
    return x


def main():
    t0 = time.time()
    bad, n = [], 0
    for fn, cases in CASES.items():
        for args in cases:
            n += 1
            want = run_cpython(fn, args)
            have = run_pyvc(fn, args, want)
            ok = norm(want) == norm(have)
            if VERBOSE or not ok:
                print(("ok  " if ok else "DIFF"), fn, args, "cpython:", want, "pyvc:", have)
            if not ok:
                bad.append((fn, args, want, have))
    print(json.dumps(dict(selftest="engine_diff", snippets=len(CASES), cases=n, disagreements=len(bad), wall=round(time.time() - t0, 1))))
    sys.exit(3 if bad else 0)


if __name__ == "__main__":
    main()
