#!/usr/bin/env python3
"""tools/recheck_seeds.py [seed ids...] — re-runs every seeded defect (on a scratch copy of /repo, evidence untouched) against the
checks recorded in its meta.json and refreshes the detection record."""
import glob, json, os, shutil, subprocess, sys, tempfile
ids = sys.argv[1:]
RUN_DIR = os.environ.get("VERIF_RUN_DIR", "/verif")      # where ./check is run from (a snapshot keeps live edits out of the experiment)
for meta_path in sorted(glob.glob("/verif/seeded/*/meta.json")):
    m = json.load(open(meta_path))
    if ids and m["id"] not in ids:
        continue
    if m.get("obsolete"):
        print(m["id"], "obsolete")
        continue
    d = os.path.dirname(meta_path)
    T = tempfile.mkdtemp(prefix="seedchk_")
    try:
        shutil.copytree("/repo/stackscope", T + "/stackscope")
        r = subprocess.run(f"cd {T} && patch -p1 -s < {d}/patch.diff", shell=True, capture_output=True, text=True)
        if r.returncode != 0:
            m["detection_now"] = "patch no longer applies to HEAD"
            print(m["id"], "patch no longer applies")
        else:
            det = {}
            for c in m["detection"]:
                env = dict(os.environ, PYVC_REPO=T, PYVC_EVIDENCE_DIR=T + "/ev", PYVC_REPLAY_DIR="/tmp/seedreplays")
                rr = subprocess.run(["./check", c], cwd=RUN_DIR, capture_output=True, text=True, env=env)
                alll = [l for l in rr.stdout.splitlines() if l.startswith(("VIOLATION", "UNDECIDED", "CHECKER"))]
                LEGS = ("g1_", "c0", "c1", "c2", "chains", "trees", "corpus")
                vi = [l.split("replay=")[1].split("/")[-1] for l in alll if l.startswith("VIOLATION") and "replay=" in l]
                counts = dict(leg=sum(1 for v in vi if v.startswith(LEGS)), obligation=sum(1 for v in vi if not v.startswith(LEGS)),
                              undecided=sum(1 for l in alll if l.startswith("UNDECIDED")), crash=sum(1 for l in alll if l.startswith("CHECKER")))
                # a few lines of each kind (the full output is not kept)
                lines = [l for l in alll if l.startswith("VIOLATION") and l.split("replay=")[1].split("/")[-1].startswith(LEGS)][:2] + \
                        [l for l in alll if l.startswith("VIOLATION") and not l.split("replay=")[1].split("/")[-1].startswith(LEGS)][:2] + \
                        [l for l in alll if not l.startswith("VIOLATION")][:2]
                det[c] = dict(exit=rr.returncode, lines=lines, counts=counts)
            m["detection_now"] = det
            print(m["id"], {k: v["exit"] for k, v in det.items()})
        json.dump(m, open(meta_path, "w"), indent=1)
    finally:
        shutil.rmtree(T, ignore_errors=True)
