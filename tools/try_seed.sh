#!/bin/sh
# usage: tools/try_seed.sh <diff file> <property id> [more ids...]   — applies the diff to /repo, runs the checks, reverts
D=$1; shift
cd /repo && git apply "$D" || { echo "APPLY FAILED"; exit 9; }
cd /verif
rm -rf /tmp/ev_backup_$$; cp -r evidence /tmp/ev_backup_$$   # evidence files must come from the UNCHANGED tree: restore them afterwards
for P in "$@"; do
  ./check $P > /tmp/try_seed_$P.log 2>&1; rc=$?
  echo "== $P exit=$rc"; grep -E "^\[|VIOLATION|UNDECIDED|CHECKER-CRASH|KNOWN" /tmp/try_seed_$P.log | cut -c1-220 | head -8
done
cd /repo && git checkout -- . && git status --short | head -3
rm -rf /verif/evidence; mv /tmp/ev_backup_$$ /verif/evidence
