#!/bin/sh
# runs every claimed check on the current tree (4 at a time) and prints exit codes; refreshes evidence/
cd "$(dirname "$0")/.."
ids=$(python3 -c "import json; print(' '.join(c['property_id'] for c in json.load(open('MANIFEST.json'))['checks']))")
echo $ids | tr ' ' '\n' | xargs -P 4 -I{} sh -c './check {} > /tmp/runall_{}.log 2>&1; echo "{} exit=$?"'
