#!/usr/bin/env python3
"""prints the seeded-defect detection table (markdown) from seeded/*/meta.json (detection_now if present, else detection)"""
import json, glob, collections
LEGS = ("g1_", "c0", "c1", "c2", "chains", "trees", "corpus")
rows = []
for mp in sorted(glob.glob("/verif/seeded/*/meta.json")):
    m = json.load(open(mp))
    if m.get("obsolete"):
        rows.append((m["id"], m["property"], "-", "obsolete")); continue
    det = m.get("detection_now") or m["detection"]
    if isinstance(det, str):
        rows.append((m["id"], m["property"], "-", det)); continue
    exits = {c: v["exit"] for c, v in det.items()}
    kinds = set()
    for c, v in det.items():
        if v.get("counts"):
            for kname in ("leg", "obligation", "undecided"):
                if v["counts"].get(kname):
                    kinds.add(kname)
            continue
        for l in v.get("lines", []):
            if "VIOLATION" in l:
                name = l.split("replay=")[1].split("/")[-1]
                kinds.add("leg" if name.startswith(LEGS) else "obligation")
            elif "UNDECIDED" in l:
                kinds.add("undecided")
    own = exits.get(m["property"])
    rows.append((m["id"], m["property"], " ".join(f"{c}={e}" for c, e in exits.items()), "+".join(sorted(kinds)) or "-"))
by = collections.Counter()
print("| seed | own check and others (exit) | caught by |")
print("|---|---|---|")
for sid, prop, ex, kinds in rows:
    print(f"| {sid} | {ex} | {kinds} |")
    by[kinds] += 1
print()
print(dict(by))
own1 = sum(1 for sid, prop, ex, kinds in rows if f"{prop}=1" in ex)
print("own check exit 1:", own1, "of", len(rows))
