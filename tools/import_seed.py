#!/usr/bin/env python3
"""tools/import_seed.py <prop> <n> <seed-id> "<needs>" [check ids...]
Confirms a sub-agent's seeded change in its scratch worktree (/tmp/seed_<prop>): tests pass with it, demo fails with it and
passes without it; then stores it under /verif/seeded/<seed-id>/ and records which checks catch it."""
import json, os, shutil, subprocess, sys
prop, n, sid, needs = sys.argv[1:5]
checks = sys.argv[5:] or [prop]
wt = f"/tmp/seed_{prop}"
diff = f"{wt}/seed/change{n}.diff"
demo = f"{wt}/seed/demo{n}.py"
def sh(cmd, **kw):
    return subprocess.run(cmd, shell=True, capture_output=True, text=True, **kw)
sh(f"git -C {wt} checkout -- stackscope")
r0 = sh(f"cd /tmp && PYTHONPATH={wt} /venv/bin/python {demo}")
assert r0.returncode == 0, ("demo fails on clean tree", r0.stdout[-500:], r0.stderr[-500:])
a = sh(f"git -C {wt} apply {diff}")
assert a.returncode == 0, a.stderr
t = sh(f"cd {wt} && /venv/bin/python -m pytest -q -p no:cacheprovider --timeout=900")
tests = t.stdout.strip().splitlines()[-1]
r1 = sh(f"cd /tmp && PYTHONPATH={wt} /venv/bin/python {demo}")
sh(f"git -C {wt} checkout -- stackscope")
assert "52 passed" in tests, tests
assert r1.returncode != 0, "demo passes with the change"
out = f"/verif/seeded/{sid}"
os.makedirs(out, exist_ok=True)
shutil.copy(diff, f"{out}/patch.diff")
shutil.copy(demo, f"{out}/demo.py")
det = {}
a = sh(f"git -C /repo apply {out}/patch.diff")
assert a.returncode == 0, a.stderr
sh("rm -rf /tmp/ev_backup_imp; cp -r /verif/evidence /tmp/ev_backup_imp")     # evidence must come from the unchanged tree
try:
    for c in checks:
        r = sh(f"cd /verif && ./check {c}")
        lines = [l for l in r.stdout.splitlines() if l.startswith(("VIOLATION", "UNDECIDED", "CHECKER"))][:4]
        det[c] = dict(exit=r.returncode, lines=lines)
finally:
    sh("git -C /repo checkout -- .")
    sh("rm -rf /verif/evidence; mv /tmp/ev_backup_imp /verif/evidence")
meta = dict(id=sid, property=prop, needs=needs, source="independent sub-agent (saw only the property text and a scratch worktree)",
            confirmed=dict(tests_with_change=tests, demo_with_change_exit=r1.returncode, demo_without_change_exit=r0.returncode,
                           demo_failure=(r1.stderr or r1.stdout).strip().splitlines()[-1][:300]),
            ran=[f"git apply patch.diff (scratch worktree); pytest -> {tests}; demo.py -> exit {r1.returncode}; reverted; demo.py -> exit 0",
                 "git -C /repo apply patch.diff; ./check <id>; git -C /repo checkout -- ."],
            detection=det)
json.dump(meta, open(f"{out}/meta.json", "w"), indent=1)
print(sid, {k: v["exit"] for k, v in det.items()})
