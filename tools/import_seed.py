#!/usr/bin/env python3
"""tools/import_seed.py <prop> <n> <seed-id> "<needs>" [check ids...]
Confirms a sub-agent's seeded change in its scratch worktree (/tmp/seed_<prop>): tests pass with it, demo fails with it and
passes without it; then stores it under /verif/seeded/<seed-id>/ and records which checks catch it."""
import json, os, shutil, subprocess, sys
prop, n, sid, needs = sys.argv[1:5]
checks = sys.argv[5:] or [prop]
wt = os.environ.get("SEED_WT_PREFIX", "/tmp/seed_") + prop
diff = f"{wt}/seed/change{n}.diff"
demo = f"{wt}/seed/demo{n}.py"
def sh(cmd, **kw):
    return subprocess.run(cmd, shell=True, capture_output=True, text=True, **kw)
sh(f"git -C {wt} checkout -- stackscope")
DEMO_PY = os.environ.get("SEED_DEMO_PY", "/venv/bin/python")          # some seeds only manifest on an older interpreter
DEMO_PP = wt + (":" + os.environ["SEED_DEMO_EXTRA_PATH"] if os.environ.get("SEED_DEMO_EXTRA_PATH") else "")
r0 = sh(f"cd /tmp && PYTHONPATH={DEMO_PP} {DEMO_PY} {demo}")
assert r0.returncode == 0, ("demo fails on clean tree", r0.stdout[-500:], r0.stderr[-500:])
a = sh(f"git -C {wt} apply {diff}")
assert a.returncode == 0, a.stderr
t = sh(f"cd {wt} && /venv/bin/python -m pytest -q -p no:cacheprovider --timeout=900")
tests = t.stdout.strip().splitlines()[-1]
r1 = sh(f"cd /tmp && PYTHONPATH={DEMO_PP} {DEMO_PY} {demo}")
sh(f"git -C {wt} checkout -- stackscope")
assert "52 passed" in tests, tests
assert r1.returncode != 0, "demo passes with the change"
out = f"/verif/seeded/{sid}"
assert not os.path.exists(out), f"seed id {sid} exists already: choose another id (an earlier seed would be overwritten)"
os.makedirs(out)
shutil.copy(diff, f"{out}/patch.diff")
shutil.copy(demo, f"{out}/demo.py")
det = {}
# detection runs on a scratch copy of /repo's package with the patch applied (PYVC_REPO), so /repo itself, the evidence files
# and any concurrently running check are left alone
import tempfile
T = tempfile.mkdtemp(prefix="seedimp_")
try:
    shutil.copytree("/repo/stackscope", T + "/stackscope")
    a = sh(f"cd {T} && patch -p1 -s < {out}/patch.diff")
    assert a.returncode == 0, a.stderr + a.stdout
    for c in checks:
        env = dict(os.environ, PYVC_REPO=T, PYVC_EVIDENCE_DIR=T + "/ev", PYVC_REPLAY_DIR="/tmp/seedreplays")
        r = sh(f"cd {os.environ.get('VERIF_RUN_DIR', '/verif')} && ./check {c}", env=env)
        lines = [l for l in r.stdout.splitlines() if l.startswith(("VIOLATION", "UNDECIDED", "CHECKER"))][:4]
        det[c] = dict(exit=r.returncode, lines=lines)
finally:
    shutil.rmtree(T, ignore_errors=True)
meta = dict(id=sid, property=prop, needs=needs, source="independent sub-agent (saw only the property text and a scratch worktree)",
            confirmed=dict(tests_with_change=tests, demo_with_change_exit=r1.returncode, demo_without_change_exit=r0.returncode,
                           demo_failure=(r1.stderr or r1.stdout).strip().splitlines()[-1][:300]),
            demo_interpreter=DEMO_PY,
            ran=[f"git apply patch.diff (scratch worktree); pytest -> {tests}; demo.py -> exit {r1.returncode}; reverted; demo.py -> exit 0",
                 "patch applied to a scratch copy of /repo/stackscope; PYVC_REPO=<copy> ./check <id>; copy removed"],
            detection=det)
json.dump(meta, open(f"{out}/meta.json", "w"), indent=1)
print(sid, {k: v["exit"] for k, v in det.items()})
