#!/bin/sh
# usage: tools/try_refactorings.sh <dir with r*.diff> <ids...> : applies each diff to a scratch copy of /repo and runs the checks there
D=$1; shift
for f in $D/r*.diff; do
  T=$(mktemp -d /tmp/refXXXX); cp -r /repo/stackscope $T/stackscope
  (cd $T && patch -p1 -s < $f) || { echo "$f: APPLY FAILED"; rm -rf $T; continue; }
  for P in "$@"; do
    PYVC_REPO=$T PYVC_EVIDENCE_DIR=$T/ev PYVC_REPLAY_DIR=/tmp/refreplays ./check $P > $T/$P.log 2>&1; rc=$?
    if [ $rc -ne 0 ]; then echo "$(basename $D)/$(basename $f) $P exit=$rc :: $(grep -E 'VIOLATION|UNDECIDED|CHECKER' $T/$P.log | head -2 | cut -c1-230)"; else echo "$(basename $D)/$(basename $f) $P ok"; fi
  done
  rm -rf $T
done
