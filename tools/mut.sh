#!/bin/sh
# usage: tools/mut.sh <file-relative-to-stackscope> <sed-expr> <contracts module> [unit filter]
# applies a sed edit to a scratch copy of /repo and runs the units against it (development aid)
set -e
T=$(mktemp -d /tmp/mutXXXX)
cp -r /repo/stackscope "$T/stackscope"
sed -i "$2" "$T/stackscope/$1"
if diff -q /repo/stackscope/$1 "$T/stackscope/$1" >/dev/null; then echo "MUTATION DID NOT APPLY"; fi
PYVC_REPO=$T python3-vt /verif/tools/dev_run_units.py "$3" "$4" 2>&1 | grep -v "^    OK" | grep -v WARNING | cut -c1-260
rm -rf "$T"
