"""C10 bounded native leg: extract() on synthetic item trees, with unwrap / elaborate_frame hooks registered through the
public API, equals a reference interpretation of the DOCUMENTED rules (specs below).
Bounds: trees of depth <= 3, fan-out <= 3; unwrap results drawn from {None, item, tuple, list, FrameIterator, empty};
elaborate results from {None, PRUNE, replace(subtree), insert-before(items + [next_inner])}; pseudo-random, VERIF_SEED."""
import random, sys, os
sys.path.insert(0, os.path.dirname(__file__))
from _leg import Leg, THOROUGH, SEED
import stackscope
from stackscope import unwrap_stackitem, elaborate_frame, PRUNE
from stackscope._customization import FrameIterator

leg = Leg("c10_model", "random item trees (depth<=3, fan<=3) x unwrap result kinds x elaborate result kinds incl. prunes from inserted "
                       "frames; non-trivial = tree with >=1 elaborate action other than None; distinct by structure string")


def mkframe():
    return sys._getframe(0)


class Item:
    n = 0
    def __init__(s, result):
        Item.n += 1
        s.id = Item.n
        s.result = result      # ("none",) | ("one", x) | ("tuple", [..]) | ("list", [..]) | ("iter", [..]) | ("empty",)
    def __repr__(s):
        return f"I{s.id}"


@unwrap_stackitem.register(Item)
def _unwrap_item(it):
    k = it.result
    if k[0] == "none": return None
    if k[0] == "one": return k[1]
    if k[0] == "tuple": return tuple(k[1])
    if k[0] == "list":
        # the hook hands out a list it KEEPS (like `group.members`): extraction must leave it as it is
        HANDED.append((it, k[1], list(k[1])))
        return k[1]
    if k[0] == "iter": return FrameIterator(iter(list(k[1])))
    if k[0] == "empty": return ()


HANDED = []
ELAB = {}   # id(pyframe) -> ("none",) | ("prune",) | ("replace", [items]) | ("insert", [items])


@elaborate_frame.register(mkframe)
def _elab(frame, next_inner):
    act = ELAB.get(id(frame.pyframe), ("none",))
    if act[0] == "none": return None
    if act[0] == "prune": return PRUNE
    if act[0] == "replace": return list(act[1]) if len(act[1]) != 1 else act[1][0]
    if act[0] == "insert": return list(act[1]) + [next_inner]


def gen_tree(rnd, depth, stats):
    """returns an item (Item | raw frame | None)"""
    r = rnd.random()
    if depth == 0 or r < 0.35:
        if rnd.random() < 0.75:
            f = mkframe()
            KEEP.append(f)
            a = rnd.random()
            if depth > 0 and a < 0.15:
                ELAB[id(f)] = ("prune",); stats["act"] += 1
            elif depth > 0 and a < 0.30:
                ELAB[id(f)] = ("replace", [gen_tree(rnd, depth - 1, stats) for _ in range(rnd.randint(0, 2))]); stats["act"] += 1
                ELAB[id(f)] = ("replace", [x for x in ELAB[id(f)][1] if x is not None])
            elif depth > 0 and a < 0.45:
                ELAB[id(f)] = ("insert", [x for x in (gen_tree(rnd, depth - 1, stats) for _ in range(rnd.randint(0, 2))) if x is not None]); stats["act"] += 1
            return f
        return Item(("none",))
    kind = rnd.choice(["one", "tuple", "list", "iter", "empty", "tuple", "list"])
    if kind == "empty":
        return Item(("empty",))
    if kind == "one":
        x = gen_tree(rnd, depth - 1, stats)
        return Item(("one", x)) if x is not None else Item(("none",))
    kids = [gen_tree(rnd, depth - 1, stats) for _ in range(rnd.randint(1, 3))]
    if kind != "iter" and rnd.random() < 0.2:
        kids.insert(rnd.randrange(len(kids) + 1), None)
    if kind == "iter":
        kids = [k for k in kids if k is not None]
    return Item((kind, kids))


def describe(x):
    import types
    if isinstance(x, types.FrameType):
        a = ELAB.get(id(x), ("none",))
        return "F" + (a[0][0] if a[0] != "none" else "") + ("[" + ",".join(describe(y) for y in a[1]) + "]" if len(a) > 1 else "")
    if x is None:
        return "N"
    k = x.result
    return k[0][0] + ("(" + ",".join(describe(y) for y in (k[1] if isinstance(k[1], list) else [k[1]])) + ")" if len(k) > 1 else "")


# ---- reference interpretation of the documented rules (docs of unwrap_stackitem / elaborate_frame)
def ref_run(root):
    import types
    todo = [(root, 0, False)]      # (thing, depth, irreducible?)
    frames = []
    steps = 0
    while True:
        # unwrap until only frames and irreducible leaves remain
        flat = []
        work = list(todo)
        while work:
            x, d, irr = work.pop(0)
            steps += 1
            if steps > 20000: raise RuntimeError("reference diverges")
            if isinstance(x, types.FrameType) or irr:
                flat.append((x, d, irr)); continue
            r = _unwrap_item(x) if isinstance(x, Item) else None
            if r is None:
                flat.append((x, d, True)); continue
            if isinstance(r, FrameIterator): r = list(r)
            kids = list(r) if isinstance(r, (tuple, list)) else [r]
            work[0:0] = [(k, d + 1, False) for k in kids if k is not None]
        if not flat:
            return frames, None
        x, d, irr = flat[0]
        if not isinstance(x, types.FrameType):
            leaves = [t[0] for t in flat]
            return frames, (leaves[0] if len(leaves) == 1 else leaves)
        rest = flat[1:]
        nxt = rest[0][0] if rest else None
        frames.append(x)
        act = ELAB.get(id(x), ("none",))
        if act[0] == "none":
            todo = rest; continue
        if act[0] == "insert":
            # a sequence ending in next_inner inserts its other items before the rest: they are inward of THIS frame only,
            # so a prune/replace issued from one of them must stop at next_inner (they are deeper than it), while
            # next_inner keeps its place and its own depth
            di = (max(d, rest[0][1]) + 1) if rest else d
            todo = [(i, di, False) for i in act[1]] + [(a, b, False if not isinstance(a, types.FrameType) else c) for a, b, c in rest]
            continue
        items = [] if act[0] == "prune" else list(act[1])
        # anything else replaces the rest: the frame's callees (depth >= its depth) are removed, nothing outward of them
        k = 0
        while k < len(rest) and rest[k][1] >= d:
            k += 1
        todo = [(i, d, False) for i in items] + [(a, b, False if not isinstance(a, types.FrameType) else c) for a, b, c in rest[k:]]


KEEP = []
rnd = random.Random(1000 + SEED)
N = 4000 if THOROUGH else 600
for t in range(N):
    ELAB.clear(); del KEEP[:]; del HANDED[:]
    stats = dict(act=0)
    root = Item(("tuple", [gen_tree(rnd, 3, stats) for _ in range(rnd.randint(1, 3))]))
    desc = describe(root)
    leg.case(desc, stats["act"] > 0, sample=desc if stats["act"] > 1 and len(desc) < 120 else None)
    try:
        exp_frames, exp_leaf = ref_run(root)
    except RuntimeError:
        continue
    try:
        st = stackscope.extract(root, with_contexts=False)
    except BaseException as e:
        leg.violation(desc, f"extract raised {e!r}"); continue
    got = [f.pyframe for f in st.frames]
    def norm(l):
        un = lambda x: x.pyframe if isinstance(x, stackscope.Frame) else x
        return un(l) if not isinstance(l, list) else [un(x) for x in l]
    if got != exp_frames or not (norm(st.leaf) is exp_leaf or norm(st.leaf) == norm(exp_leaf)) or st.error is not None:
        leg.violation(desc, f"frames/leaf differ from the reference interpretation: got {len(got)} frames leaf={st.leaf!r} error={st.error!r}; "
                            f"expected {len(exp_frames)} frames leaf={exp_leaf!r}; tree={desc}")
    for it, lst, snap in HANDED:
        if len(lst) != len(snap) or any(a is not b for a, b in zip(lst, snap)):
            leg.violation(desc, f"extraction changed a list that an unwrap hook returned and keeps ({it!r}: {len(snap)} items before, "
                                f"{len(lst)} after); tree={desc}")
            break
    else:
        # a second extraction of the same item sees the same thing
        try:
            st2 = stackscope.extract(root, with_contexts=False)
        except BaseException as e:
            leg.violation(desc, f"second extract raised {e!r}"); continue
        if [f.pyframe for f in st2.frames] != got:
            leg.violation(desc, f"a second extraction of the same item differs from the first: {len(st2.frames)} frames, then {len(got)}; tree={desc}")
# more than 100 unwrap layers that DO make progress (every layer contributes a frame and then another wrapper, like a deep
# await chain): the guard counts unwrapping WITHOUT progress, not depth
for deep in (99, 100, 101, 130, 250):
    ELAB.clear()
    leg.case(("deep-nesting", deep), True)
    layers = [mkframe() for _ in range(deep + 1)]
    node = layers[-1]
    for fr_ in reversed(layers[:-1]):
        node = Item(("tuple", [fr_, node]))
    std = stackscope.extract(node, with_contexts=False)
    if [f.pyframe for f in std.frames] != layers or std.error is not None or std.leaf is not None:
        leg.violation(("deep-nesting", deep), f"{deep} nested wrappers, one frame per layer: {len(std.frames)} frames of {len(layers)}, leaf={std.leaf!r}, error={std.error!r}")
# linear self-unwrapping ends with an error instead of hanging
class Loop:
    pass
@unwrap_stackitem.register(Loop)
def _ul(x): return Loop()
leg.case("self-unwrap", True)
st = stackscope.extract(Loop(), with_contexts=False)
if st.error is None or "100 times" not in str(st.error):
    leg.violation("self-unwrap", f"no error after 100 non-progressing unwrap steps: {st.error!r}")
leg.finish()
