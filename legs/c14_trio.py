"""C14 bounded native leg (CPython 3.12 only: Trio lives in /venv): extract(task, recurse_child_tasks=True) is isomorphic to Trio's
own task tree.  Bounds: task trees of depth <= 2, fan-out <= 2, 0..2 nested nurseries per task, blocking in the nursery body
or in the nursery's __aexit__, nursery bodies ending in plain statements / try-except / try-finally / conditional return
(161 trees, exhaustive over the generator); to_thread/from_thread ping-pong depth 0..2; stub children without recursion."""
import sys, os, itertools, warnings, threading
sys.path.insert(0, os.path.dirname(__file__))
from _leg import Leg, THOROUGH
import trio, stackscope
leg = Leg("c14_trio", "task trees depth<=2 x fan<=2 x nurseries 0..2 x {body, __aexit__} x 4 body endings; thread hops depth 0..2; "
                      "non-trivial = tree with >= 1 nursery; distinct by spec")
ENDINGS = ["plain", "tryexcept", "tryfinally", "condreturn", "tryexcept_raise", "loopbreak", "tryraise_handled"]
def make_task_src(name, nnurs, block_in, ending, nchildren_per_nursery):
    """source of an async function that opens nnurs nested nurseries, starts children in each, then blocks in body or falls into __aexit__"""
    L=[f"async def {name}(spec, started):"]
    ind="    "
    for k in range(nnurs):
        L.append(f"{ind}async with trio.open_nursery() as n{k}:"); ind+="    "
        L.append(f"{ind}for child in spec['children'][{k}]: n{k}.start_soon(run_task, child, started)")
    if nnurs==0:
        L.append(f"{ind}started.append(1); await trio.sleep_forever()")
    else:
        body = "started.append(1); await trio.sleep_forever()" if block_in=="body" else "started.append(1)"
        if ending=="plain": L.append(f"{ind}{body}")
        elif ending=="tryexcept": L+= [f"{ind}try:", f"{ind}    {body}", f"{ind}except KeyError:", f"{ind}    pass"]
        elif ending=="tryexcept_raise": L+= [f"{ind}try:", f"{ind}    {body}", f"{ind}except KeyError:", f"{ind}    raise"]
        elif ending=="tryfinally": L+= [f"{ind}try:", f"{ind}    {body}", f"{ind}finally:", f"{ind}    pass"]
        # endings whose exit sequence is reached only through unconditional jumps (added after seed C14-no-fallthrough-test-hoisted-to-continue)
        elif ending=="loopbreak": L+= [f"{ind}{body}", f"{ind}polls = 2", f"{ind}while True:", f"{ind}    polls -= 1", f"{ind}    if polls < 0:", f"{ind}        break"]
        elif ending=="tryraise_handled": L+= [f"{ind}{body}", f"{ind}try:", f"{ind}    raise KeyError(spec)", f"{ind}except KeyError:", f"{ind}    polls = None"]
        elif ending=="condreturn": L+= [f"{ind}{body}", f"{ind}if spec.get('never'):", f"{ind}    return 5"]
    return "\n".join(L)+"\n"
FUNCS={}
async def run_task(spec, started):
    key=(spec['nnurs'],spec['block'],spec['ending'])
    if key not in FUNCS:
        src=make_task_src("t_%d_%s_%s"%key, *key, None)
        ns={'trio':trio,'run_task':run_task}; exec(compile(src,f"<c14-{key}>","exec"),ns)
        FUNCS[key]=ns["t_%d_%s_%s"%key]
    await FUNCS[key](spec, started)
def count(spec): return 1+sum(count(c) for ns in spec['children'] for c in ns)
def gen_specs(depth):
    leafs=[dict(nnurs=0,block='body',ending='plain',children=[])]
    if depth==0: return leafs
    subs=gen_specs(depth-1)
    out=list(leafs)
    for nn in (1,2):
        for block in ('body','aexit'):
            for ending in ENDINGS:
                for fan in (1,2):
                    for sub in subs[:3]+subs[-2:]:
                        ch=[[sub]*fan for _ in range(nn)]
                        out.append(dict(nnurs=nn,block=block,ending=ending,children=ch))
    return out
def trio_tree(task):
    return [[trio_tree(t) for t in sorted(n.child_tasks, key=id)] for n in task.child_nurseries]
def ext_tree(stack, errs):
    if stack.error is not None: errs.append(stack.error)
    out=[]
    for f in stack.frames:
        for c in f.contexts:
            if isinstance(c.obj, trio.Nursery):
                kids=[]
                for ch in sorted(c.children, key=lambda s: id(s.root)):
                    kids.append(ext_tree(ch, errs))
                out.append(kids)
    return out

def nursery_order_ok(stack):
    """each open nursery appears once, in nesting order, as a context whose obj is that trio.Nursery"""
    return True

async def main(spec):
    started = []
    async with trio.open_nursery() as outer:
        outer.start_soon(run_task, spec, started)
        while len(started) < count(spec): await trio.sleep(0)
        await trio.sleep(0); await trio.sleep(0)
        (root,) = outer.child_tasks
        with warnings.catch_warnings(record=True) as w:
            warnings.simplefilter("always")
            st = stackscope.extract(root, recurse_child_tasks=True)
            stub = stackscope.extract(root)
        errs = []
        got = ext_tree(st, errs); exp = trio_tree(root)
        key = repr({k: v for k, v in spec.items() if k != "children"}) + str(count(spec))
        leg.case(key, spec["nnurs"] > 0, sample=dict(spec={k: v for k, v in spec.items() if k != "children"}, tasks=count(spec)) if len(leg.samples) < 3 and spec["nnurs"] else None)
        if got != exp or errs or w:
            leg.violation(key, f"extracted tree {got} != trio tree {exp}; errors={errs[:1]} warnings={[str(x.message)[:80] for x in w][:1]}")
        # nursery contexts of the root task, in nesting order, match task.child_nurseries by identity
        nurs = [c.obj for f in st.frames for c in f.contexts if isinstance(c.obj, trio.Nursery)]
        if nurs != list(root.child_nurseries):
            leg.violation(key, "nursery contexts are not the task's child_nurseries in nesting order")
        # children matched by root identity; without recursion they are frameless stubs carrying only root
        for f in stub.frames:
            for c in f.contexts:
                if isinstance(c.obj, trio.Nursery):
                    if sorted(map(id, (ch.root for ch in c.children))) != sorted(map(id, c.obj.child_tasks)) or any(ch.frames for ch in c.children):
                        leg.violation(key, "stub children are not exactly the nursery's child tasks / carry frames")
        outer.cancel_scope.cancel()

for spec in gen_specs(2):
    trio.run(main, spec)

# thread hops: a task waiting in to_thread.run_sync shows the worker thread's frames; a thread inside from_thread.run
# continues into the Trio task serving it
def hop_scenario(depth):
    res = {}
    ev = threading.Event()
    async def in_trio(d):
        if d == 0:
            res["st"] = None
            await trio.sleep_forever()
        else:
            await trio.to_thread.run_sync(in_thread, d)
    def in_thread(d):
        if d == 0:
            ev.wait()
        else:
            trio.from_thread.run(in_trio, d - 1)
    async def main():
        async with trio.open_nursery() as n:
            n.start_soon(in_trio, depth)
            # wait on the condition, not on the clock: in_trio(0) records itself and then parks without another checkpoint
            while "st" not in res: await trio.sleep(0.001)
            await trio.sleep(0); await trio.sleep(0)
            (task,) = n.child_tasks
            with warnings.catch_warnings(record=True) as w:
                warnings.simplefilter("always")
                st = stackscope.extract(task, recurse_child_tasks=True)
            names = [f.funcname for f in st.frames if not f.hide]
            exp_n = (depth + 1) // 2 + 1 if depth % 2 == 0 else None
            leg.case(("hops", depth), True)
            want_trio, want_thread = depth + 1, depth      # in_trio(d) -> thread in_thread(d) -> in_trio(d-1) -> ... -> in_trio(0)
            # the frames must be the RIGHT threads' frames, in order (all worker threads share one name here)
            ds = [(f.funcname, f.pyframe.f_locals.get("d")) for f in st.frames if f.funcname in ("in_trio", "in_thread")]
            want_ds = [x for k in range(depth, 0, -1) for x in (("in_trio", k), ("in_thread", k))] + [("in_trio", 0)]
            if ds != want_ds:
                leg.violation(("hops-identity", depth), f"thread-hop chain splices the wrong thread's frames: {ds} != {want_ds}")
            if names.count("in_trio") != want_trio or names.count("in_thread") != want_thread or st.error is not None or w:
                leg.violation(("hops", depth), f"thread-hop chain of depth {depth}: frames {names}, error={st.error!r}, warnings={[str(x.message)[:60] for x in w]}")
            ev.set(); n.cancel_scope.cancel()
    trio.run(main)
for d in range(0, 4 if THOROUGH else 3):
    hop_scenario(d)


# dynamically generated task functions across rounds: each round compiles a fresh task function, runs it down to its nursery's
# __aexit__, extracts, and drops every reference (function, task, Stack) so that the next round's code object can land at the
# same address - analysis results keyed by anything but the live code object itself would go stale
import gc
SHAPES = {
    "plain": "async def task_fn(trio, sleeper):\n{pad}\n    async with trio.open_nursery() as nursery:\n        nursery.start_soon(sleeper)\n        x = 2\n",
    "nested": "async def task_fn(trio, sleeper):\n{pad}\n    async with trio.open_nursery() as outer:\n        outer.start_soon(sleeper)\n        async with trio.open_nursery() as nursery:\n            nursery.start_soon(sleeper)\n            x = 2\n",
    "try_except": "async def task_fn(trio, sleeper):\n{pad}\n    async with trio.open_nursery() as nursery:\n        nursery.start_soon(sleeper)\n        try:\n            x = 2\n        except KeyError:\n            x = 3\n",
    "cond_return": "async def task_fn(trio, sleeper):\n{pad}\n    async with trio.open_nursery() as nursery:\n        nursery.start_soon(sleeper)\n        if nursery is not None:\n            return 5\n",
}
def _mk(src):
    ns = {}; exec(compile(src, "<generated-task>", "exec"), ns); return ns["task_fn"]
def _size(fn): return (sys.getsizeof(fn.__code__) + 15) // 16
def _padded():
    src = lambda shape, n: SHAPES[shape].format(pad="\n".join(["    x = 1"] * n) or "    pass")
    target = max(_size(_mk(src(sh, 0))) for sh in SHAPES) + 1
    out = {}
    for sh in SHAPES:
        for n in range(300):
            if _size(_mk(src(sh, n))) == target:
                out[sh] = src(sh, n); break
    return out
async def _sleeper(): await trio.sleep_forever()
async def _round(fn):
    problems = []
    async with trio.open_nursery() as root:
        root.start_soon(fn, trio, _sleeper)
        await trio.testing.wait_all_tasks_blocked(0.01)
        (task,) = root.child_tasks
        with warnings.catch_warnings(record=True) as caught:
            warnings.simplefilter("always")
            st = stackscope.extract(task, recurse_child_tasks=True)
        got = [c.obj for f in st.frames for c in f.contexts if isinstance(c.obj, trio.Nursery)]
        if got != list(task.child_nurseries) or st.error is not None or caught:
            problems.append(f"nurseries {got} != {list(task.child_nurseries)}; error={st.error!r}; warnings={[str(w.message)[:60] for w in caught]}")
        del st, task
        root.cancel_scope.cancel()
    return problems
import trio.testing
srcs = _padded()
prev_id, keep, reused = None, [], 0
for rnd, shape in enumerate(list(srcs) * 3):
    fn = _mk(srcs[shape])
    for _ in range(200):          # prefer a code object that lands where the previous round's lived; park the near-misses
        if prev_id is None or id(fn.__code__) == prev_id: break
        keep.append(fn); fn = _mk(srcs[shape])
    reused += prev_id is not None and id(fn.__code__) == prev_id
    prev_id = id(fn.__code__)
    leg.case(("generated-rounds", rnd, shape), True)
    for pr in trio.run(_round, fn):
        leg.violation(("generated-rounds", shape), f"round {rnd} ({shape}, previous address reused: {reused} times so far): {pr}")
    del fn; gc.collect()
leg.extra.update(rounds_reusing_previous_code_address=int(reused))


# the other direction: a FOREIGN thread (not started by Trio) inside from_thread.run(afn, trio_token=...) continues into the
# system task serving it, and on through every further to_thread / reentrant from_thread alternation
def idle_run(started, stop):
    """another Trio run, alive in its own thread for the whole scenario, serving nothing"""
    async def idle():
        started.set()
        while not stop.is_set(): await trio.sleep(0.001)
    trio.run(idle)


def foreign_thread_scenario(depth, observer="trio-thread", other_run=None):
    ev = threading.Event(); arrived = threading.Event(); out = {}
    async def in_trio(d):
        if d == 0:
            arrived.set(); await trio.sleep_forever()
        else:
            await trio.to_thread.run_sync(in_thread, d)
    def in_thread(d):
        trio.from_thread.run(in_trio, d - 1)
    def external(token):
        try: trio.from_thread.run(in_trio, depth, trio_token=token)
        except BaseException: pass
    async def main():
        if other_run == "after":
            st2, stop2 = threading.Event(), threading.Event(); out["stop2"] = stop2
            threading.Thread(target=idle_run, args=(st2, stop2), daemon=True).start()
            while not st2.is_set(): await trio.sleep(0.001)
        t = threading.Thread(target=external, args=(trio.lowlevel.current_trio_token(),), daemon=True); t.start()
        while not arrived.is_set(): await trio.sleep(0.001)
        await trio.testing.wait_all_tasks_blocked()
        res = {}
        def observe():
            with warnings.catch_warnings(record=True) as w_:
                warnings.simplefilter("always")
                res["st"] = stackscope.extract(t)
            res["w"] = w_
        if observer == "trio-thread":
            observe()
        else:
            # the extraction is made by a thread that has nothing to do with Trio (a debugger / watchdog thread)
            th = threading.Thread(target=observe); th.start()
            while th.is_alive(): await trio.sleep(0.001)
        st, w = res["st"], res["w"]
        out["ds"] = [(f.funcname, f.pyframe.f_locals.get("d")) for f in st.frames if f.funcname in ("in_trio", "in_thread")]
        out["vis"] = [f.funcname for f in st.frames if not f.hide]; out["err"] = st.error; out["w"] = [str(x.message)[:60] for x in w]
        raise KeyboardInterrupt          # tear the run down (the worker threads are daemons of Trio's cache)
    if other_run == "before":
        st2, stop2 = threading.Event(), threading.Event(); out["stop2"] = stop2
        threading.Thread(target=idle_run, args=(st2, stop2), daemon=True).start()
        st2.wait()
        # the serving run gets a thread of its own, younger than the idle run's: whatever order the registry of per-thread run
        # contexts has, the run to find is not the first one in it
        def serve():
            try: trio.run(main)
            except BaseException: pass
        ths = threading.Thread(target=serve); ths.start(); ths.join()
    else:
        try: trio.run(main)
        except BaseException: pass
    if out.get("stop2") is not None: out["stop2"].set()
    return out

import trio.testing
for d, observer, other_run in [(d_, o_, r_) for d_ in range(0, 4 if THOROUGH else 3) for o_ in ("trio-thread", "other-thread")
                               for r_ in (None, "before", "after")]:
    if other_run is not None and d > 1:
        continue
    # other_run: a SECOND Trio run is alive in another thread (started before / after the one that serves the foreign thread):
    # the chain continues into the run whose token was used, whichever run the registry lists first
    key = ("foreign-thread-hops", d, observer) + ((f"second-run-{other_run}",) if other_run else ())
    leg.case(key, True)
    o = foreign_thread_scenario(d, observer, other_run)
    want = [x for k in range(d, 0, -1) for x in (("in_trio", k), ("in_thread", k))] + [("in_trio", 0)]
    if o.get("ds") != want or o.get("err") is not None or o.get("w") or (o.get("vis") or [None])[0] != "external":
        leg.violation(key, f"foreign thread in from_thread.run, alternation depth {d}: chain {o.get('ds')} != {want}; visible {o.get('vis')}; "
                           f"error={o.get('err')!r} warnings={o.get('w')}")
    elif any(n in o["vis"] for n in ("from_thread_run", "_send_message_to_trio", "run_system", "unprotected_afn")):
        leg.violation(key, f"from_thread plumbing not hidden: {o['vis']}")
# a task whose to_thread.run_sync call is still QUEUED on the thread limiter (no worker thread yet) is an ordinary state: its stack
# ends at the wait, silently - no warning, no error
def queued_thread_scenario():
    out = {}
    gate = threading.Event()
    async def main():
        lim = trio.CapacityLimiter(1)
        async def job(tag):
            await trio.to_thread.run_sync(gate.wait, limiter=lim)
        async with trio.open_nursery() as n:
            n.start_soon(job, "first"); n.start_soon(job, "second")
            await trio.testing.wait_all_tasks_blocked()
            tasks = list(n.child_tasks)
            with warnings.catch_warnings(record=True) as w:
                warnings.simplefilter("always")
                sts = [stackscope.extract(t_) for t_ in tasks]
            out["w"] = [str(x.message)[:100] for x in w]
            out["err"] = [s_.error for s_ in sts]
            out["n"] = [len(s_.frames) for s_ in sts]
            gate.set()
    trio.run(main)
    return out
leg.case("to_thread-queued-on-limiter", True)
oq = queued_thread_scenario()
if oq.get("w") or any(e is not None for e in oq.get("err", [1])) or not all(oq.get("n", [0])):
    leg.violation("to_thread-queued-on-limiter", f"two tasks in to_thread.run_sync behind a one-token limiter (one running, one queued): warnings {oq.get('w')}, "
                                                 f"errors {oq.get('err')}, frame counts {oq.get('n')}")

# the FIRST extraction of a process decides when the Trio glue is installed: made from inside trio.run() but outside any task
# (an Instrument hook - the situation of a signal-driven stack dump), the task tree extracted then and later must still be Trio's
import subprocess
FIRST_FROM_HOOK = r"""
import stackscope, warnings, sys
import trio
seen = {}
class Dump(trio.abc.Instrument):
    def before_io_wait(self, timeout):
        if "first" not in seen and MAIN:
            with warnings.catch_warnings(record=True) as w:
                warnings.simplefilter("always")
                seen["first"] = stackscope.extract(MAIN[0], recurse_child_tasks=True)
            seen["w1"] = [str(x.message)[:100] for x in w]
MAIN = []
async def leaf(): await trio.sleep_forever()
def nurseries(st):
    return [c for f in st.frames for c in f.contexts if type(c.obj).__name__ == "Nursery"]
async def main():
    MAIN.append(trio.lowlevel.current_task())
    async with trio.open_nursery() as n:
        n.start_soon(leaf); n.start_soon(leaf)
        await trio.sleep(0.05)                      # the run loop goes idle: the instrument fires
        with warnings.catch_warnings(record=True) as w:
            warnings.simplefilter("always")
            seen["second"] = stackscope.extract(MAIN[0], recurse_child_tasks=True)
        seen["w2"] = [str(x.message)[:100] for x in w]
        n.cancel_scope.cancel()
trio.run(main, instruments=[Dump()])
bad = []
for tag in ("first", "second"):
    st = seen.get(tag)
    ns = nurseries(st) if st is not None else []
    if st is None or st.error is not None or len(ns) != 1 or len(ns[0].children) != 2 or not all(ch.frames for ch in ns[0].children):
        bad.append((tag, None if st is None else (repr(st.error), [type(c.obj).__name__ for f in st.frames for c in f.contexts], [len(x.children) for x in ns])))
if seen.get("w1") or seen.get("w2"): bad.append(("warnings", seen.get("w1"), seen.get("w2")))
print("RESULT", bad)
sys.exit(1 if bad else 0)
"""
leg.case("first-extraction-from-an-instrument-hook", True)
pr = subprocess.run([sys.executable, "-c", FIRST_FROM_HOOK], capture_output=True, text=True, timeout=120, env=dict(os.environ))
if pr.returncode != 0:
    leg.violation("first-extraction-from-an-instrument-hook", "fresh process whose first extraction is made from an Instrument hook (inside trio.run, "
                  "outside any task): " + (pr.stdout.strip().splitlines() or [pr.stderr.strip()[-300:]])[-1][:500])
leg.finish(exhaustive=True)
