"""C01 / C02 bounded native leg: managers implemented in C (their __enter__ / __exit__ are builtin methods, not Python functions, so
the value-stack slot holds a builtin_function_or_method): threading.Lock / RLock, file objects, io.BytesIO / StringIO, memoryview,
in every nesting of up to two of them mixed with a Python manager; observed suspended (generator, at the yield in the body; default
analysis and referents mode) and running (probe called from the body): the contexts are exactly the active managers, in order, no warning."""
import sys, os, io, threading, itertools, warnings
sys.path.insert(0, os.path.dirname(__file__))
from _leg import Leg
import stackscope

leg = Leg("c01_cmanagers", "6 C-implemented manager kinds + 1 Python manager, all nestings of 1..2; suspended and running; non-trivial = every case")


class Py:
    def __enter__(s): return s
    def __exit__(s, *a): return False


MAKERS = {
    "Lock": threading.Lock, "RLock": threading.RLock, "file": lambda: open(os.devnull), "BytesIO": io.BytesIO, "StringIO": io.StringIO,
    "memoryview": lambda: memoryview(b"abc"), "Py": Py,
}
ROOT = [None]
OUT = []


def probe():
    with warnings.catch_warnings(record=True) as w:
        warnings.simplefilter("always")
        OUT.append((stackscope.extract_since(ROOT[0]), list(w)))


def gen2(ms):
    if len(ms) == 1:
        with ms[0]:
            yield
    else:
        with ms[0]:
            with ms[1] as second:
                yield


def run2(ms):
    ROOT[0] = sys._getframe(0)
    if len(ms) == 1:
        with ms[0]:
            probe()
    else:
        with ms[0] as first, ms[1]:
            probe()


for n in (1, 2):
    for names in itertools.product(MAKERS, repeat=n):
        if "Py" in names and len(set(names)) == 1:
            continue
        for mode in ("suspended", "running", "suspended-referents"):
            ms = [MAKERS[x]() for x in names]
            key = (mode,) + names
            leg.case(key, True, sample=dict(mode=mode, managers=list(names)) if names == ("Lock", "file") else None)
            if mode.startswith("suspended"):
                # referents mode (C20): the fallback analysis must list them too
                stackscope.lowlevel.set_trickery_enabled(False if mode.endswith("referents") else None)
                g = gen2(ms); next(g)
                with warnings.catch_warnings(record=True) as w:
                    warnings.simplefilter("always")
                    st = stackscope.extract(g)
                stackscope.lowlevel.set_trickery_enabled(None)
                g.close()
            else:
                del OUT[:]
                run2(ms)
                st, w = OUT[0]
            cs = st.frames[0].contexts
            if st.error is not None or w or [c.obj for c in cs] != ms or any(c.is_exiting for c in cs):
                leg.violation(key, f"{mode} frame holding {list(names)}: contexts {[(type(c.obj).__name__, c.is_exiting) for c in cs]}, "
                                   f"warnings {[str(x.message)[:80] for x in w]}, error {st.error!r}")
leg.finish(exhaustive=True)
