"""C13 bounded native leg: scoping of the extraction options.
An elaborate_frame hook registered on a probe generator observes stackscope's option object while an extraction is under way.
Checked: every entry point (extract, extract_outermost, extract_since, extract_until with an int / a frame / no limit) x all
four option pairs -> the hook sees exactly the call's options, and they are unset again afterwards; nested extractions from
inside the hook (every entry point x every pair, incl. one that raises) see their own options and give the outer ones back;
two threads with different options, interleaved by a barrier inside the hook, never see each other's; extract_child refuses
outside an extraction, returns a frameless stub for for_task=True unless recursion was requested (at nesting depth 1 and 2);
with_contexts=False leaves every contexts empty without changing the frames; fill_context called by a hook keeps the
enclosing call's options."""
import sys, os, itertools, threading, contextlib
sys.path.insert(0, os.path.dirname(__file__))
from _leg import Leg
import stackscope
from stackscope import _extract as E

leg = Leg("c13_options", "6 entry points x 4 option pairs, alone and nested inside each other (36 x 16), 2-thread interleaving, extract_child "
                         "stub rule at depth 1 and 2, with_contexts=False, fill_context from a hook; non-trivial = non-default options")
PAIRS = list(itertools.product([True, False], repeat=2))
SEEN = []
ACTION = [None]
TACTIONS = {}          # thread ident -> action (thread scenario)


def now():
    return (E.current_options.with_contexts, E.current_options.recurse_child_tasks)


class Mgr:
    def __enter__(s): return s
    def __exit__(s, *a): return False


def probe():
    with Mgr():
        yield 1


@stackscope.elaborate_frame.register(probe)
def _hook(frame, nxt):
    tact = TACTIONS.pop(threading.get_ident(), None)
    if tact is not None:
        tact()
        return None
    SEEN.append(("hook", now()))
    act = ACTION[0]
    if act is not None:
        ACTION[0] = None
        act()
        SEEN.append(("hook-after-nested", now()))
    return None


class ProbeMgr(Mgr):
    pass


CTX_SEEN = []


@stackscope.elaborate_context.register(ProbeMgr)
def _ctx_hook(mgr, context):
    CTX_SEEN.append(now())


G = probe(); next(G)


def outer_frames():
    return sys._getframe(1)


def entry_points(target_gen):
    """name -> callable(wc, rct) performing one extraction that reaches the probe's frame hook"""
    def via_since(wc, rct):
        # the running stack contains a frame of `probe` only if we are inside it: use a slice of a suspended generator instead
        return stackscope.extract(stackscope.StackSlice(inner=None, outer=None, limit=1), with_contexts=wc, recurse_child_tasks=rct)
    eps = {
        "extract": lambda wc, rct: stackscope.extract(target_gen, with_contexts=wc, recurse_child_tasks=rct),
        "extract_outermost": lambda wc, rct: stackscope.extract_outermost(target_gen, with_contexts=wc, recurse_child_tasks=rct),
    }
    return eps


# running-stack entry points need the probe hook on a RUNNING function: a second hook on a plain function
def running_probe(fn):
    return fn()


@stackscope.elaborate_frame.register(running_probe)
def _hook2(frame, nxt):
    SEEN.append(("hook", now()))
    return None


def call_since(wc, rct):
    return running_probe(lambda: stackscope.extract_since(None, with_contexts=wc, recurse_child_tasks=rct))


def call_until_int(wc, rct):
    return running_probe(lambda: stackscope.extract_until(sys._getframe(0), limit=3, with_contexts=wc, recurse_child_tasks=rct))


def call_until_none(wc, rct):
    return running_probe(lambda: stackscope.extract_until(sys._getframe(0), with_contexts=wc, recurse_child_tasks=rct))


def call_until_frame(wc, rct):
    me = sys._getframe(0)
    return running_probe(lambda: stackscope.extract_until(sys._getframe(0), limit=me, with_contexts=wc, recurse_child_tasks=rct))


EPS = dict(entry_points(G), extract_since=call_since, extract_until_int=call_until_int, extract_until_none=call_until_none,
           extract_until_frame=call_until_frame)

# 1. each entry point alone
for name, ep in EPS.items():
    for wc, rct in PAIRS:
        key = ("alone", name, wc, rct)
        leg.case(key, (wc, rct) != (True, False))
        del SEEN[:]
        try:
            ep(wc, rct)
        except Exception as e:
            leg.violation(key, f"{name} raised {e!r}"); continue
        hooks = [v for k, v in SEEN if k == "hook"]
        if not hooks or any(v != (wc, rct) for v in hooks):
            leg.violation(key, f"{name}(with_contexts={wc}, recurse_child_tasks={rct}): the hook saw options {hooks}")
        if now() != (None, None):
            leg.violation(key, f"{name}: options not unset after the call: {now()}")

# 2. nested: from inside the generator probe's hook, run every entry point with every pair
for (oname, oep), (iname, iep) in itertools.product(list(EPS.items())[:2], EPS.items()):
    for (wc, rct), (wc2, rct2) in itertools.product(PAIRS, PAIRS):
        key = ("nested", oname, wc, rct, iname, wc2, rct2)
        leg.case(key, True)
        del SEEN[:]
        G2 = probe(); next(G2)      # the inner extraction needs its own target (the outer one is being walked)
        inner_eps = dict(entry_points(G2), **{k: v for k, v in EPS.items() if k.startswith("extract_since") or k.startswith("extract_until")})
        ACTION[0] = (lambda: inner_eps[iname](wc2, rct2))
        try:
            oep(wc, rct)
        except Exception as e:
            leg.violation(key, f"raised {e!r}"); G2.close(); continue
        G2.close()
        seq = [(k, v) for k, v in SEEN]
        if not seq or seq[0] != ("hook", (wc, rct)):
            leg.violation(key, f"outer hook saw {seq[:1]}, expected {(wc, rct)}"); continue
        inner_seen = [v for k, v in seq[1:] if k == "hook"]
        after = [v for k, v in seq if k == "hook-after-nested"]
        if any(v != (wc2, rct2) for v in inner_seen[:1]) or not inner_seen:
            leg.violation(key, f"inner {iname} hook saw {inner_seen[:1]}, expected {(wc2, rct2)}")
        if after != [(wc, rct)]:
            leg.violation(key, f"after the nested {iname} the outer options are {after}, expected {[(wc, rct)]}")
        if now() != (None, None):
            leg.violation(key, f"options not unset at the end: {now()}")

# 2b. a nested extraction that RAISES still gives the outer options back
for wc, rct in PAIRS:
    key = ("nested-raises", wc, rct)
    leg.case(key, True)
    del SEEN[:]
    def raising():
        try:
            stackscope.extract_outermost(42, with_contexts=not wc, recurse_child_tasks=not rct)
        except RuntimeError:
            SEEN.append(("raised", now()))
    ACTION[0] = raising
    stackscope.extract(G, with_contexts=wc, recurse_child_tasks=rct)
    if ("raised", (wc, rct)) not in SEEN or ("hook-after-nested", (wc, rct)) not in SEEN:
        leg.violation(key, f"options after a nested extraction that raised: {SEEN}")

# 3. two threads, interleaved inside the hook
for (a, b) in itertools.product(PAIRS, PAIRS):
    key = ("threads", a, b)
    leg.case(key, a != b)
    bar = threading.Barrier(2, timeout=20)
    out = {}
    def worker(tag, opts):
        g = probe(); next(g)
        seen = []
        g2 = probe(); next(g2)
        def act2():
            # both threads are now two pushes deep: let them pop in whatever order the scheduler likes
            seen.append(("nested", now())); bar.wait()
        def act():
            seen.append(now()); bar.wait()
            TACTIONS[threading.get_ident()] = act2
            stackscope.extract(g2, with_contexts=not opts[0], recurse_child_tasks=not opts[1])
            seen.append(now()); bar.wait(); seen.append(now())
        TACTIONS[threading.get_ident()] = act
        try:
            stackscope.extract(g, with_contexts=opts[0], recurse_child_tasks=opts[1])
            seen.append(("after", now()))
        except BaseException as e:
            seen.append(("raised", repr(e)))
        out[tag] = seen
        g.close(); g2.close()
    t1 = threading.Thread(target=worker, args=("a", a)); t2 = threading.Thread(target=worker, args=("b", b))
    t1.start(); t2.start(); t1.join(30); t2.join(30)
    for tag, own in (("a", a), ("b", b)):
        got = out.get(tag)
        if got != [own, ("nested", (not own[0], not own[1])), own, own, ("after", (None, None))]:
            leg.violation(key, f"thread {tag} (own options {own}) observed {got} while the other thread used {b if tag == 'a' else a}")

# 4. extract_child: refuses outside, stub rule inside (depth 1 and 2)
leg.case("extract_child-outside", True)
try:
    E.extract_child(G, for_task=False)
    leg.violation("extract_child-outside", "extract_child ran outside any extraction")
except RuntimeError:
    pass
for depth, (wc, rct), for_task in itertools.product((1, 2), PAIRS, (False, True)):
    key = ("extract_child", depth, wc, rct, for_task)
    leg.case(key, True)
    res = {}
    G3 = probe(); next(G3)
    def do_child():
        res["st"] = E.extract_child(G3, for_task=for_task); res["opts"] = now()
    if depth == 1:
        ACTION[0] = do_child
    else:
        G4 = probe(); next(G4)
        def level2():
            ACTION[0] = do_child
            stackscope.extract(G4, with_contexts=wc, recurse_child_tasks=rct)
        ACTION[0] = level2
    stackscope.extract(G, with_contexts=(wc if depth == 1 else not wc), recurse_child_tasks=(rct if depth == 1 else not rct))
    st = res.get("st")
    if st is None:
        leg.violation(key, "extract_child was not reached"); continue
    stub = for_task and not rct
    if stub and (st.frames or st.root is not G3 or st.leaf is not None or st.error is not None):
        leg.violation(key, f"for_task=True without recursion must give a frameless stub carrying only root: frames={len(st.frames)} root={st.root!r}")
    if not stub and not st.frames:
        leg.violation(key, "extract_child returned no frames although recursion was requested / the child is not a task")
    if res["opts"] != (wc, rct):
        leg.violation(key, f"extract_child changed the options: {res['opts']} != {(wc, rct)}")
    G3.close()

# 4b. option values that are truthy / falsy without being bools (callers do pass 0 / 1): recursion "off" is whatever is falsy
for rct_val in (0, 1, "", "yes"):
    key = ("extract_child-nonbool-option", repr(rct_val))
    leg.case(key, True)
    res = {}
    G5 = probe(); next(G5)
    def do_child5():
        res["st"] = E.extract_child(G5, for_task=True)
    ACTION[0] = do_child5
    stackscope.extract(G, with_contexts=True, recurse_child_tasks=rct_val)
    st5 = res.get("st")
    if st5 is None:
        leg.violation(key, "extract_child was not reached")
    elif bool(st5.frames) != bool(rct_val):
        leg.violation(key, f"recurse_child_tasks={rct_val!r}: a child task came out with {len(st5.frames)} frames (a stub is due iff the option is falsy)")
    G5.close()

# 4c. the same child asked for more than once within one extraction (two hooks that both list it): every answer is a full one
leg.case("extract_child-same-task-twice", True)
res2 = []
G6 = probe(); next(G6)
def twice():
    for _ in range(3):
        res2.append(E.extract_child(G6, for_task=True))
ACTION[0] = twice
stackscope.extract(G, with_contexts=True, recurse_child_tasks=True)
if len(res2) != 3 or not all(s_.frames and s_.root is G6 for s_ in res2):
    leg.violation("extract_child-same-task-twice", f"recurse_child_tasks=True, the same child extracted three times in one call tree: frame counts "
                                                   f"{[len(s_.frames) for s_ in res2]}")
G6.close()

# 5. with_contexts=False: no contexts anywhere, same frames
leg.case("no-contexts", True)
a_, b_ = stackscope.extract(G, with_contexts=True), stackscope.extract(G, with_contexts=False)
if [f.pyframe for f in a_.frames] != [f.pyframe for f in b_.frames] or any(f.contexts for f in b_.frames) or not any(f.contexts for f in a_.frames):
    leg.violation("no-contexts", "with_contexts=False must leave every contexts empty and the frames unchanged")

# 6. fill_context called directly by a hook keeps the enclosing call's options
for wc, rct in PAIRS:
    key = ("fill_context-from-hook", wc, rct)
    leg.case(key, True)
    res = {}
    def do_fill():
        c = stackscope.Context(obj=ProbeMgr(), is_async=False)
        del CTX_SEEN[:]
        E.fill_context(c); res["after"] = now(); res["ctx_hook"] = list(CTX_SEEN)
    ACTION[0] = do_fill
    stackscope.extract(G, with_contexts=wc, recurse_child_tasks=rct)
    if res.get("after") != (wc, rct) or ("hook-after-nested", (wc, rct)) not in SEEN[-3:]:
        leg.violation(key, f"fill_context from a hook under {(wc, rct)} left the options at {res.get('after')}")
    if res.get("ctx_hook") != [(wc, rct)]:
        leg.violation(key, f"context hooks run by fill_context inside an extraction with options {(wc, rct)} saw {res.get('ctx_hook')}")
leg.case("fill_context-outside", True)
c = stackscope.Context(obj=ProbeMgr(), is_async=False)
del CTX_SEEN[:]
E.fill_context(c)
if CTX_SEEN != [(True, False)]:
    leg.violation("fill_context-outside", f"fill_context outside an extraction ran the context hooks under {CTX_SEEN}, expected [(True, False)]")
if now() != (None, None):
    leg.violation("fill_context-outside", f"fill_context outside an extraction left options set: {now()}")
leg.finish(exhaustive=True)
