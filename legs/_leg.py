"""Shared helper for native bounded contract legs.  A leg imports the REAL package from /repo (PYTHONPATH), evaluates a
contract (sidecar postcondition / spec function) on an enumerated family and prints one JSON object on its last line."""
import json, os, sys, time, hashlib

TIER = os.environ.get("VERIF_TIER", "quick")
SEED = int(os.environ.get("VERIF_SEED", "0") or 0)
THOROUGH = TIER == "thorough"


_CURRENT = []


def _excepthook(tp, exc, tb):
    """An exception that escapes a leg: if it was RAISED INSIDE the package under test (the innermost traceback frame belongs to
    stackscope) the library broke a 'never raises' / 'returns a value' expectation of the scenario being run - a violation with
    the traceback as witness; anything else is a defect of the harness itself and stays a crash (exit 3 in ./check)."""
    import traceback
    last = tb
    while last is not None and last.tb_next is not None:
        last = last.tb_next
    fn = last.tb_frame.f_code.co_filename if last is not None else ""
    if _CURRENT and (os.sep + "stackscope" + os.sep) in fn and "legs" + os.sep not in fn:
        leg = _CURRENT[-1]
        leg.violation("library-exception", "an exception raised inside the package escaped to the harness (scenario after "
                      f"{leg.evals} evaluations): " + "".join(traceback.format_exception(tp, exc, tb))[-450:])
        leg.finish()
    sys.__excepthook__(tp, exc, tb)


sys.excepthook = _excepthook


class Leg:
    def __init__(s, name, rule, replay_hint=None):
        _CURRENT.append(s)
        s.name, s.rule = name, rule
        s.evals = 0
        s.distinct = set()
        s.viol = []
        s.samples = []
        s.t0 = time.time()
        s.extra = {}
        s.replay_hint = replay_hint or f"PYTHONPATH=/repo {sys.executable} {os.path.abspath(sys.argv[0])}"

    def case(s, key, nontrivial=True, sample=None):
        s.evals += 1
        if nontrivial:
            s.distinct.add(hashlib.sha1(repr(key).encode()).hexdigest()[:12])
        if sample is not None and len(s.samples) < 6:
            s.samples.append(sample)

    def violation(s, key, desc, replay=None):
        if len(s.viol) < 50:
            s.viol.append(dict(key=str(key), desc=str(desc)[:600], replay=replay or s.replay_hint))

    def finish(s, exhaustive=False):
        out = dict(leg=s.name, evaluations=s.evals, distinct_nontrivial=len(s.distinct), rule=s.rule, samples=s.samples,
                   violations=s.viol, exhaustive=exhaustive, python=sys.version.split()[0], wall_s=round(time.time() - s.t0, 2))
        out.update(s.extra)
        print(json.dumps(out, default=str))
        sys.exit(1 if s.viol else 0)
