"""C15 bounded native leg (CPython 3.12: greenlet / greenback live in /venv).
 greenlets: parent chains of depth 1..3 with call depth 1..3 inside each; a suspended greenlet inspected from outside (main),
   from a sibling and from a descendant: exactly the frames from its entry function to its switch point; the current
   greenlet: exactly its own portion of the running stack; unstarted / dead: no frames; running in another thread (child and
   MAIN greenlet of that thread): an error, not some other stack.
 greenback: sync/async alternation depth 0..3 (thorough 4), extraction taken from outside the task (suspended) and from
   inside it; the chain continues through every await_ bridge; bridging internals hidden; no error."""
import sys, os, threading, types
sys.path.insert(0, os.path.dirname(__file__))
from _leg import Leg, THOROUGH
import greenlet, greenback, stackscope

leg = Leg("c15_greenlets", "greenlet parent chains depth<=3 x call depth<=3 x 3 askers; lifecycle states; foreign thread (child + main greenlet); "
                           "greenback alternation depth 0..%d x {outside, inside}; non-trivial = every case" % (4 if THOROUGH else 3))


def chain_from(f):
    out = []
    while f is not None: out.append(f); f = f.f_back
    return out[::-1]


def names(st):
    return [f.funcname for f in st.frames]


# ---- suspended / current greenlets
def build(depth, calls):
    """greenlet g1 -> g2 -> ... (each the parent of the next), each with `calls` nested calls before switching back"""
    glets = []; results = {}
    def entry(level):
        def inner(k):
            if k: return inner(k - 1)
            if level + 1 < depth:
                child = greenlet.greenlet(lambda: entry(level + 1))
                glets.append(child); child.switch()
            # innermost: probe from a descendant's point of view, then suspend
            if level == depth - 1:
                results["from_descendant"] = {id(g): stackscope.extract(g) for g in glets[:-1]}
                results["current"] = (stackscope.extract(greenlet.getcurrent()), chain_from(sys._getframe(0)))
            greenlet.getcurrent().parent.switch()
        inner(calls)
    g0 = greenlet.greenlet(lambda: entry(0)); glets.append(g0); g0.switch()
    return glets, results


for depth in (1, 2, 3):
    for calls in (1, 2, 3):
        glets, results = build(depth, calls)
        for idx, g in enumerate(glets):
            truth = chain_from(g.gr_frame)
            for asker, st in (("main", stackscope.extract(g)),) + ((("descendant", results["from_descendant"][id(g)]),) if id(g) in results.get("from_descendant", {}) else ()):
                key = ("suspended", depth, calls, idx, asker)
                leg.case(key, True, sample=dict(depth=depth, calls=calls, greenlet=idx, asker=asker) if len(leg.samples) < 3 and asker == "descendant" else None)
                got = [f.pyframe for f in st.frames]
                if asker == "descendant":
                    # at probe time the greenlet was suspended at the same switch point as now except for the innermost chain
                    got_names, truth_names = [f.f_code.co_name for f in got], None
                    if got and got[0].f_code.co_name != "<lambda>":
                        leg.violation(key, f"suspended greenlet seen from a descendant starts with {got[0].f_code.co_name}: ancestor frames prepended")
                    if st.error is not None:
                        leg.violation(key, f"error {st.error!r}")
                elif got != truth or st.error is not None:
                    leg.violation(key, f"suspended greenlet: {[f.f_code.co_name for f in got]} != entry..switch point {[f.f_code.co_name for f in truth]}, error={st.error!r}")
        cur_st, cur_truth = results["current"]
        key = ("current", depth, calls)
        leg.case(key, True)
        if [f.pyframe for f in cur_st.frames] != cur_truth or cur_st.error is not None:
            leg.violation(key, f"current greenlet: {names(cur_st)} is not exactly its own portion of the running stack ({len(cur_truth)} frames)")
        for g in glets: g.switch()         # let them finish
        for g in glets:
            leg.case(("dead", depth, calls), True)
            if stackscope.extract(g).frames:
                leg.violation(("dead", depth, calls), "a dead greenlet yields frames")
# call depth exactly ONE: the greenlet's run function itself is the frame that switches away (no caller inside the greenlet)
def depth_one():
    res = {}
    def p_run():
        child = greenlet.greenlet(c_run)
        child.switch()                                   # suspended HERE (one frame) while the child asks about us
        res["self"] = (stackscope.extract(greenlet.getcurrent()), [sys._getframe(0)])
        greenlet.getcurrent().parent.switch()
    def c_run():
        res["from_child"] = stackscope.extract(box["p"])
        res["child_self"] = (stackscope.extract(greenlet.getcurrent()), [sys._getframe(0)])
    box = {}
    box["p"] = greenlet.greenlet(p_run)
    box["p"].switch()
    res["from_main"] = stackscope.extract(box["p"])
    box["p"].switch()
    return res
r1 = depth_one()
for tag, want in (("from_child", ["p_run"]), ("from_main", ["p_run"])):
    leg.case(("depth-one", tag), True)
    st = r1[tag]
    if names(st) != want or st.error is not None:
        leg.violation(("depth-one", tag), f"greenlet whose only frame is its run function, asked {tag}: {names(st)} (expected {want}), error={st.error!r}")
for tag in ("self", "child_self"):
    leg.case(("depth-one", tag), True)
    st, truth = r1[tag]
    if [f.pyframe for f in st.frames] != truth or st.error is not None:
        leg.violation(("depth-one", tag), f"current greenlet of call depth one ({tag}): {names(st)} is not exactly its own single frame, error={st.error!r}")
# a greenlet suspended DEEPER than the recursion limit in force when it is inspected (parked 400 frames deep, limit then lowered
# by the shallow asker): all of its frames, entry function first
def parked_deep():
    def descend(n):
        if n == 0:
            greenlet.getcurrent().parent.switch()
        else:
            descend(n - 1)
    def entry_deep():
        descend(400)
    gd = greenlet.greenlet(entry_deep); gd.switch()
    old = sys.getrecursionlimit()
    try:
        sys.setrecursionlimit(150)
        return stackscope.extract(gd), chain_from(gd.gr_frame), gd
    except RecursionError:
        return None, None, gd
    finally:
        sys.setrecursionlimit(old)
st_d, truth_d, gd_ = parked_deep()
leg.case(("parked-deeper-than-the-recursion-limit",), st_d is not None)
if st_d is not None and ([f.pyframe for f in st_d.frames] != truth_d or st_d.error is not None):
    leg.violation(("parked-deeper-than-the-recursion-limit",), f"greenlet parked 400 deep inspected under recursion limit 150: {len(st_d.frames)} frames starting "
                                                                f"at {st_d.frames[0].funcname if st_d.frames else None}, expected {len(truth_d)} from entry_deep; error={st_d.error!r}")
gd_.switch()
g = greenlet.greenlet(lambda: None)
leg.case("unstarted", True)
if stackscope.extract(g).frames: leg.violation("unstarted", "an unstarted greenlet yields frames")
# the CURRENT non-main greenlet asks about itself while its immediate parent is not a live suspended greenlet (never started /
# already dead / dead below a live grandparent): exactly its own portion, whatever state the parent is in (added after seed
# C15-parent-gr-frame-none-treated-as-main)
def _self_ask(depth, box):
    if depth:
        return _self_ask(depth - 1, box)
    box["st"] = stackscope.extract(greenlet.getcurrent()); box["truth"] = chain_from(sys._getframe(0))
def _own_entry(depth, box):
    return _self_ask(depth, box)
def parent_states():
    out = {}
    b = {}; greenlet.greenlet(_own_entry).switch(2, b); out["suspended-main-parent"] = b
    unstarted = greenlet.greenlet(lambda *a: None)
    b = {}; greenlet.greenlet(_own_entry, parent=unstarted).switch(1, b); out["never-started-parent"] = b
    keep = {}
    def short_lived(): keep["child"] = greenlet.greenlet(_own_entry)
    d = greenlet.greenlet(short_lived); d.switch()
    b = {}; keep["child"].switch(3, b); out["dead-parent"] = b
    def grandparent():
        d2 = greenlet.greenlet(short_lived); d2.switch()
        b2 = {}; keep["child"].switch(0, b2); out["dead-parent-below-live-grandparent"] = b2
    greenlet.greenlet(grandparent).switch()
    return out
for tag, b in parent_states().items():
    leg.case(("current-greenlet-asks-about-itself", tag), True)
    st = b.get("st")
    if st is None or st.error is not None or [f.pyframe for f in st.frames] != b["truth"]:
        leg.violation(("current-greenlet-asks-about-itself", tag), f"extract(getcurrent()) inside a greenlet with a {tag}: {names(st) if st else None}, expected exactly its own "
                                                                   f"{len(b.get('truth') or [])} frames; error={getattr(st, 'error', None)!r}")
# main greenlet asking about itself: the whole running stack down to here
leg.case("main-current", True)
st = stackscope.extract(greenlet.getcurrent())
if [f.pyframe for f in st.frames] != chain_from(sys._getframe(0)) or st.error is not None:
    leg.violation("main-current", "the main greenlet's own stack is not the running stack")

# ---- running in another thread: child greenlet and that thread's MAIN greenlet
box = {}; go = threading.Event(); ready = threading.Event()
def thread_main():
    box["main"] = greenlet.getcurrent()
    def child():
        box["child"] = greenlet.getcurrent(); ready.set(); go.wait()
    greenlet.greenlet(child).switch()
t = threading.Thread(target=thread_main); t.start(); ready.wait()
for which in ("child", "main"):
    leg.case(("foreign", which), True)
    st = stackscope.extract(box[which])
    if which == "child":
        if st.error is None or st.frames:
            leg.violation(("foreign", which), f"greenlet running in another thread: got frames {names(st)} error={st.error!r} instead of an error")
    else:
        # the foreign thread's main greenlet is suspended there (its child runs): its frames, or an error, but never OUR stack
        mine = set(map(id, chain_from(sys._getframe(0))))
        if any(id(f.pyframe) in mine for f in st.frames):
            leg.violation(("foreign", which), f"another thread's main greenlet reported with the CALLER's frames {names(st)}")
go.set(); t.join()
# a greenlet that is RUNNING (not suspended) in another thread, main greenlet of that thread
box2 = {}; go2 = threading.Event(); ready2 = threading.Event()
def thread2():
    box2["main"] = greenlet.getcurrent(); ready2.set(); go2.wait()
t2 = threading.Thread(target=thread2); t2.start(); ready2.wait()
leg.case(("foreign", "running-main"), True)
st = stackscope.extract(box2["main"])
mine = set(map(id, chain_from(sys._getframe(0))))
if st.error is None or any(id(f.pyframe) in mine for f in st.frames):
    leg.violation(("foreign", "running-main"), f"main greenlet running in another thread: frames {names(st)} error={st.error!r}; expected an error, not the caller's stack")
go2.set(); t2.join()

# ---- greenback bridges (driven by Trio: greenback needs a supported async library)
import trio

def make(depth, inside):
    out = {}
    async def a_level(k):
        if k == 0:
            if inside: out["st"] = stackscope.extract(trio.lowlevel.current_task())
            out["reached"] = True
            await trio.sleep_forever()
        else:
            sync_level(k)
    def sync_level(k):
        greenback.await_(a_level(k - 1))
    async def root():
        await greenback.ensure_portal()
        await a_level(depth)
    async def main():
        async with trio.open_nursery() as n:
            n.start_soon(root)
            while "reached" not in out: await trio.sleep(0.001)      # condition, not clock
            await trio.sleep(0); await trio.sleep(0)
            (task,) = n.child_tasks
            if not inside: out["st"] = stackscope.extract(task)
            n.cancel_scope.cancel()
    trio.run(main)
    return out.get("st")

for depth in range(0, 5 if THOROUGH else 4):
    for inside in (False, True):
        key = ("greenback", depth, "inside" if inside else "outside")
        leg.case(key, True, sample=dict(alternations=depth, where=key[2]) if depth == 2 else None)
        try:
            st = make(depth, inside)
        except BaseException as e:
            leg.violation(key, f"harness error {e!r}"); continue
        vis = [f.funcname for f in st.frames if not f.hide]
        want = ["root"] + [n for k in range(depth, 0, -1) for n in ("a_level", "sync_level")] + ["a_level"]
        got = [n for n in vis if n in ("root", "a_level", "sync_level")]
        if got != want or st.error is not None:
            leg.violation(key, f"greenback chain: visible {vis}, expected the alternation {want}; error={st.error!r}")
        if any(n in vis for n in ("await_", "_greenback_shim", "trampoline", "switch")):
            leg.violation(key, f"bridging internals not hidden: {vis}")

# ---- a greenlet started by the task's OWN synchronous code asks for the task's stack (greenback supports await_ from such a
# nested greenlet: the shim then resumes a greenlet that differs from its child greenlet), with 0..2 further alternations
def nested(extra):
    seen = {}
    def shape(tag):
        st = stackscope.extract(trio.lowlevel.current_task().coro)
        seen[tag] = ([f.funcname for f in st.frames if not f.hide], st.error)
    async def a_leaf(tag):
        shape(tag)
        await trio.sleep(0)
    def s_helper():
        shape("helper-sync")
        if extra >= 1:
            greenback.await_(a_mid())
            shape("helper-after")
        return "done"
    async def a_mid():
        await trio.sleep(0)
        if extra >= 2: s_inner()
        else: shape("mid")
    def s_inner():
        greenback.await_(a_leaf("deep"))
    def s_user():
        h = greenlet.greenlet(s_helper)
        assert h.switch() == "done"
    async def main():
        await greenback.ensure_portal()
        await a_leaf("plain")
        s_user()
    trio.run(main)
    return seen

for extra in (0, 1, 2):
    key = ("greenback-nested-greenlet", extra)
    leg.case(key, True)
    try:
        seen = nested(extra)
    except BaseException as e:
        leg.violation(key, f"harness error {e!r}"); continue
    core = lambda names: [n for n in names if n in ("main", "a_leaf", "s_user", "s_helper", "a_mid", "s_inner")]
    want = {"plain": ["main", "a_leaf"], "helper-sync": ["main", "s_user", "s_helper"]}
    if extra >= 1: want["helper-after"] = ["main", "s_user", "s_helper"]
    if extra == 1: want["mid"] = ["main", "s_user", "s_helper", "a_mid"]
    if extra == 2: want["deep"] = ["main", "s_user", "s_helper", "a_mid", "s_inner", "a_leaf"]
    for tag, w in want.items():
        vis, err = seen.get(tag, (None, None))
        if vis is None or core(vis) != w or err is not None:
            leg.violation(key, f"{tag}: visible {vis}, expected {w}; error={err!r}")
        elif any(n in vis for n in ("await_", "_greenback_shim", "trampoline", "switch")):
            leg.violation(key, f"{tag}: bridging internals not hidden: {vis}")

# ---- the worker greenlet's parent chain contains a FINISHED greenlet (a spawner that created the worker and returned): the
# task's stack, asked for from inside the worker, still runs from the task's coroutine through the sync frames into the worker
def nested_dead_parent():
    seen = {}
    def record(tag):
        st = stackscope.extract(trio.lowlevel.current_task())
        seen[tag] = ([f.funcname for f in st.frames if not f.hide], st.error)
    def sync_body():
        record("plain")
        hold = {}
        def spawner():
            hold["w"] = greenlet.greenlet(worker)          # parent of the worker = spawner
            return "spawned"
        def worker():
            record("dead-parent")
            return 2
        sp = greenlet.greenlet(spawner)
        assert sp.switch() == "spawned" and sp.dead
        assert hold["w"].switch() == 2
    async def a_level(): sync_level()
    def sync_level(): sync_body()
    async def main():
        await greenback.ensure_portal()
        greenback.await_  # noqa
        await a_level()
    trio.run(main)
    return seen

key = ("greenback-nested-greenlet-dead-parent",)
leg.case(key, True)
try:
    seen = nested_dead_parent()
    core = lambda names: [n for n in names if n in ("main", "a_level", "sync_level", "sync_body", "worker")]
    for tag, w in (("plain", ["main", "a_level", "sync_level", "sync_body"]), ("dead-parent", ["main", "a_level", "sync_level", "sync_body", "worker"])):
        vis, err = seen.get(tag, (None, None))
        if vis is None or core(vis) != w or err is not None:
            leg.violation(key, f"{tag}: visible {vis}, expected {w}; error={err!r}")
except BaseException as e:
    leg.violation(key, f"harness error {e!r}")

# ---- asyncio host: a cancellation is THROWN into the task and travels through an await_ bridge; the bridging internals (incl.
# outcome's send helpers) stay hidden, from inside the task and from outside
import asyncio
def asyncio_bridge():
    seen = {}
    def visible(stack):
        return [f.pyframe.f_code.co_name for f in stack.frames if not f.hide]
    async def park(tag):
        task = asyncio.current_task(); loop = asyncio.get_running_loop(); fut = loop.create_future()
        def report():
            st = stackscope.extract(task.get_coro()); seen[tag + "/outside"] = (visible(st), st.error); fut.set_result(None)
        loop.call_soon(report)
        await fut
    def cleanup_sync(tag): greenback.await_(park(tag))
    async def victim(tag, cancel):
        try:
            if cancel: asyncio.current_task().cancel()
            await asyncio.sleep(0)
        finally:
            st = stackscope.extract(asyncio.current_task().get_coro()); seen[tag + "/inside"] = (visible(st), st.error)
            cleanup_sync(tag)
    def sync_mid(tag, cancel): greenback.await_(victim(tag, cancel))
    async def top_async(tag, cancel):
        try:
            sync_mid(tag, cancel)
        except asyncio.CancelledError:
            asyncio.current_task().uncancel()
    async def main():
        await greenback.ensure_portal()
        await top_async("normal", False)
        await top_async("cancelled", True)
    asyncio.run(main())
    return seen

key = ("greenback-asyncio-cancellation",)
leg.case(key, True)
try:
    seen = asyncio_bridge()
    head = ["main", "top_async", "sync_mid", "victim"]
    for tag in ("normal", "cancelled"):
        for where, w in (("inside", head), ("outside", head + ["cleanup_sync", "park"])):
            vis, err = seen.get(f"{tag}/{where}", (None, None))
            if vis is None or [n for n in vis if n != "greenback_shim"] != w or err is not None:
                leg.violation(key, f"{tag}/{where}: visible {vis}, expected {w}; error={err!r}")
except BaseException as e:
    leg.violation(key, f"harness error {e!r}")
# a suspended greenlet owned by another thread is RESUMED THERE while we extract it: the interleaving "it starts running elsewhere
# after k-1 lines of unwrap_greenlet" is forced for every k (settrace on that one function, no hook in /repo).  Whatever k: an
# error, or exactly the frames it had while suspended - never somebody else's stack
def resumed_elsewhere(k):
    suspended, go, running, done = (threading.Event() for _ in range(4))
    box = {}
    def target(): helper()
    def helper():
        greenlet.getcurrent().parent.switch()
        blocker()
    def blocker():
        running.set(); done.wait()
    def thread_fn():
        g = box["g"] = greenlet.greenlet(target)
        g.switch(); suspended.set(); go.wait(); g.switch()
    t = threading.Thread(target=thread_fn); t.start(); suspended.wait()
    g = box["g"]; fired = []; count = [0]
    def fire():
        if not fired:
            fired.append(True); go.set(); running.wait()
    def local_trace(frame, event, arg):
        if event == "line":
            count[0] += 1
            if count[0] == k: fire()
        return local_trace
    def global_trace(frame, event, arg):
        code = frame.f_code
        if code.co_name == "unwrap_greenlet" and code.co_filename.endswith("_glue.py"):
            return local_trace
        return None
    def extracting_caller():
        sys.settrace(global_trace)
        try: return stackscope.extract(g)
        finally: sys.settrace(None)
    try:
        st = extracting_caller()
    finally:
        fire(); done.set(); t.join()
    return st, count[0] >= k


for k in range(1, 15):
    st, reached = resumed_elsewhere(k)
    key = ("resumed-in-its-own-thread-after-line", k)
    leg.case(key, reached)
    got = [f.funcname for f in st.frames]
    if not ((st.error is not None and got == []) or (st.error is None and got == ["target", "helper"])):
        leg.violation(key, f"greenlet resumed by its own thread after {k - 1} lines of unwrap_greenlet: frames {got}, error {st.error!r} "
                           "(expected an error and no frames, or exactly [target, helper])")
leg.finish(exhaustive=True)
