"""C20 bounded native leg: the mode switch.  All sequences of length <= 4 over set_trickery_enabled(True / False / None) followed by
an extraction on this thread AND on a fresh thread: the inspection mode used is the last explicit setting, auto-detection
(trickery on this interpreter) after None.  Plus one forced interleaving: another thread calls set_trickery_enabled(False)
WHILE the first auto-detecting extraction is running its self-test (the self-test's call of the low-level inspector is the
rendezvous point); afterwards every thread must be in referents mode."""
import sys, os, itertools, threading
sys.path.insert(0, os.path.dirname(__file__))
from _leg import Leg
import stackscope
from stackscope import _lowlevel, lowlevel

leg = Leg("c20_mode", "all sequences of length <= 4 over set_trickery_enabled(True/False/None) x {same thread, fresh thread}; one forced "
                      "interleaving with the first-use self-test; non-trivial = sequence with >= 1 explicit setting")
USED = []
orig_trick, orig_ref = _lowlevel._contexts_active_by_trickery, _lowlevel._contexts_active_by_referents
def spy_trick(frame): USED.append("trickery"); return orig_trick(frame)
def spy_ref(frame, origin=None): USED.append("referents"); return orig_ref(frame, origin)
_lowlevel._contexts_active_by_trickery = spy_trick
_lowlevel._contexts_active_by_referents = spy_ref


class M:
    def __enter__(s): return s
    def __exit__(s, *a): return False


def target():
    with M():
        yield


def mode_now():
    g = target(); next(g)
    del USED[:]
    stackscope.extract(g)
    g.close()
    return USED[-1] if USED else None


def mode_on_fresh_thread():
    out = {}
    t = threading.Thread(target=lambda: out.setdefault("m", mode_now()))
    t.start(); t.join(30)
    return out.get("m")


AUTO = "trickery"       # what auto-detection gives on the interpreters this leg runs on (checked below)
lowlevel.set_trickery_enabled(None)
if mode_now() != AUTO:
    leg.case("auto-detect", True); leg.violation("auto-detect", f"auto-detection selected {mode_now()}")
for L in range(1, 5):
    for seq in itertools.product([True, False, None], repeat=L):
        leg.case(seq, any(x is not None for x in seq), sample=[str(x) for x in seq] if L == 3 and len(leg.samples) < 3 else None)
        for v in seq:
            lowlevel.set_trickery_enabled(v)
        want = {True: "trickery", False: "referents", None: AUTO}[seq[-1]]
        got_here, got_thread = mode_now(), mode_on_fresh_thread()
        if got_here != want or got_thread != want:
            leg.violation(seq, f"after set_trickery_enabled{seq} extractions use {got_here} (this thread) / {got_thread} (fresh thread), expected {want}")
lowlevel.set_trickery_enabled(None)

# forced interleaving: reset to 'never detected', then let another thread disable trickery in the middle of the first self-test
leg.case("setting-during-first-self-test", True)
_lowlevel._can_use_trickery = None
fired = []
def rendezvous(frame):
    if not fired:
        fired.append(1)
        t = threading.Thread(target=lambda: lowlevel.set_trickery_enabled(False))
        t.start(); t.join(2)          # with the lock held by the detecting thread the setter simply waits; either way it must win
        fired.append(t)
    USED.append("trickery"); return orig_trick(frame)
_lowlevel._contexts_active_by_trickery = rendezvous
try:
    mode_now()
finally:
    _lowlevel._contexts_active_by_trickery = spy_trick
for x in fired[1:]:
    x.join(30)
after_here, after_thread = mode_now(), mode_on_fresh_thread()
if after_here != "referents" or after_thread != "referents":
    leg.violation("setting-during-first-self-test", f"set_trickery_enabled(False) issued during the first auto-detection was overwritten: "
                                                    f"later extractions use {after_here} / {after_thread}")
lowlevel.set_trickery_enabled(None)
leg.finish(exhaustive=True)
