"""C03 / C16 bounded native leg over await / yield-from chains.
C03: extract(x).frames == frames an exception thrown into x unwinds through (throw oracle), same line numbers, leaf, root,
     with_contexts on/off give the same frames, exhausted x yields no frames.
C16: every non-None Frame.origin recovers its frame through extract_outermost; frames found inside a suspended
     coroutine/generator/async generator have it as origin; extract_outermost(x) == extract(x).frames[0] (also while the
     outermost frame is inside a manager's __aexit__, and with an elaborate_frame hook that uses next_inner); running case.
Bounds: chains of depth 0..2 (quick) / 0..3 (thorough) over 8 link kinds x 2 chain ends; every chain suspended at its trap."""
import sys, os, types, itertools, warnings, collections
sys.path.insert(0, os.path.dirname(__file__))
from _leg import Leg, THOROUGH
import stackscope
PROP = sys.argv[1] if len(sys.argv) > 1 else "C03"
leg = Leg("chains_" + PROP, "all chains of depth<=%d over 8 link kinds x {trap, non-frame leaf}; non-trivial = depth>=1; distinct by link sequence" % (3 if THOROUGH else 2))
warnings.simplefilter("error", stackscope.InspectionWarning)
class Probe(Exception): pass
def awit(x):
    return x if isinstance(x, types.GeneratorType) else x.__await__()

@types.coroutine
def trap():
    yield "trap"

class Leaf:            # non-frame awaitable/iterator leaf
    def __await__(self): return self
    def __iter__(self): return self
    def __next__(self): return "leaf"
    def throw(self, *a): raise a[0] if isinstance(a[0], BaseException) else a[0]()   # not used by oracle comparisons

class GenProtoLeaf(Leaf):   # a hand-written iterator with the FULL generator protocol (send / throw / close): still not a generator, still the leaf
    def send(self, v): return "leaf"
    def close(self): pass

# link kinds: each takes `inner` (an awaitable factory) and returns an awaitable factory
def k_await_coro(inner):
    async def co():
        await inner()
    return co
def k_await_gencoro(inner):
    @types.coroutine
    def gc():
        yield
    # simpler: generator-based coroutine that yields from awaitable's __await__
    @types.coroutine
    def gc2():
        aw = inner()
        yield from awit(aw)
    return gc2
def k_obj_await_wrapper(inner):      # __await__ returns a coroutine_wrapper
    class A:
        def __await__(self):
            async def co(): await inner()
            return co().__await__()
    async def outer(): await A()
    return outer
def k_obj_await_gen(inner):          # __await__ is a generator
    class A:
        def __await__(self):
            yield from awit(inner())
    async def outer(): await A()
    return outer
def k_asyncgen_anext(inner):
    async def ag():
        await inner()
        yield 1
    async def outer():
        async for _ in ag(): pass
    return outer
def k_asyncgen_asend(inner):
    async def ag():
        x = yield 0
        await inner()
        yield 1
    async def outer():
        a = ag()
        await a.asend(None)
        await a.asend(5)
    return outer
def k_asyncgen_asend_agen(inner):
    # the value SENT is itself an async generator (suspended at a yield): the chain follows the generator being driven, not the
    # one that travels as the sent value
    async def decoy():
        yield 0
        yield 1
    async def ag():
        x = yield 0
        await inner()
        yield 1
    async def outer():
        d = decoy()
        await d.asend(None)
        a = ag()
        await a.asend(None)
        await a.asend(d)
    return outer
def k_asyncgen_athrow(inner):
    async def ag():
        try:
            yield 0
        except KeyError:
            await inner()
            yield 1
    async def outer():
        a = ag()
        await a.asend(None)
        await a.athrow(KeyError)
    return outer
def k_asyncgen_aclose(inner):
    async def ag():
        try:
            yield 0
        finally:
            await inner()
    async def outer():
        a = ag()
        await a.asend(None)
        await a.aclose()
    return outer
def k_async_with_exit(inner):
    # the chain continues inside a manager's __aexit__: the frame holding the `async with` is suspended in the EXIT of its block
    class M:
        async def __aenter__(s): return s
        async def __aexit__(s, *a): await inner()
    async def outer():
        x = 1
        async with M() as m:
            x = 2
        return x
    return outer
def k_async_with_enter(inner):
    class M:
        async def __aenter__(s): await inner(); return s
        async def __aexit__(s, *a): return False
    async def outer():
        async with M() as m:
            pass
    return outer
KINDS = [k_await_coro, k_await_gencoro, k_obj_await_wrapper, k_obj_await_gen, k_asyncgen_anext, k_asyncgen_asend, k_asyncgen_asend_agen, k_asyncgen_athrow, k_asyncgen_aclose,
         k_async_with_exit, k_async_with_enter]
if sys.version_info < (3, 12):
    # CPython <= 3.11: an exception thrown into a coroutine that awaits ag.athrow(...) / ag.aclose() is raised in the async
    # generator's own frame WITHOUT unwinding the awaits inside it (observed on 3.9.18, 3.10.13, 3.11.7: traceback [outer, ag] where 3.12 gives
    # [outer, ag, t, trap]); the library reports the inner frames on every version.  The oracle of this leg (the traceback of a
    # thrown exception) therefore cannot be used for these two link kinds on old interpreters: they are left out there and the
    # discrepancy is recorded as observation F18 in DESIGN.md.
    KINDS = [k for k in KINDS if k not in (k_asyncgen_athrow, k_asyncgen_aclose)]
def end_trap():
    async def t(): await trap()
    return t
def end_leaf():
    async def t(): await Leaf()
    return t
def end_leaf_genproto():
    async def t(): await GenProtoLeaf()
    return t


def tb_frames(exc):
    out = []; tb = exc.__traceback__
    while tb: out.append((tb.tb_frame, tb.tb_lineno)); tb = tb.tb_next
    return out

GENLIKE = (types.CoroutineType, types.GeneratorType, types.AsyncGeneratorType)
def own_frame(o):
    return getattr(o, "gi_frame", None) or getattr(o, "cr_frame", None) or getattr(o, "ag_frame", None)

for depth in range(0, 4 if THOROUGH else 3):
    for combo in itertools.product(KINDS, repeat=depth):
        for end in (end_trap, end_leaf, end_leaf_genproto):
            fac = end()
            for k in reversed(combo): fac = k(fac)
            co = fac()
            try: co.send(None)
            except StopIteration: continue
            key = ([k.__name__ for k in combo], end.__name__)
            leg.case(key, depth >= 1, sample=dict(links=key[0], end=key[1]) if depth == 2 and len(leg.samples) < 4 else None)
            s = stackscope.extract(co)
            if PROP == "C16":
                for f in s.frames:
                    if f.origin is not None:
                        try: ok = stackscope.extract_outermost(f.origin).pyframe is f.pyframe
                        except Exception as e: ok = repr(e)
                        if ok is not True:
                            leg.violation(key, f"origin of frame {f.funcname} ({type(f.origin).__name__}) does not recover it: {ok}")
                # frames that are the own frame of a suspended generator-like object on the chain have it as origin
                for f in s.frames:
                    owners = [o for o in __import__("gc").get_referrers(f.pyframe) if isinstance(o, GENLIKE) and own_frame(o) is f.pyframe]
                    for o in owners:
                        if f.origin is not o:
                            leg.violation(key, f"frame {f.funcname} found inside suspended {type(o).__name__} has origin {f.origin!r}")
                fo = stackscope.extract_outermost(co)
                if s.frames and (fo.pyframe is not s.frames[0].pyframe or fo != s.frames[0]):
                    leg.violation(key, "extract_outermost(x) differs from extract(x).frames[0]")
                co.close()
                continue
            s2 = stackscope.extract(co, with_contexts=False)
            got = [f.pyframe for f in s.frames]; lines = [f.lineno for f in s.frames]
            if [f.pyframe for f in s2.frames] != got or [f.lineno for f in s2.frames] != lines:
                leg.violation(key, "with_contexts on/off give different frames / line numbers")
            if s.root is not co:
                leg.violation(key, "root is not x")
            try: co.throw(Probe())
            except Probe as e:
                tbf = [t for t in tb_frames(e)[1:] if t[0].f_code.co_name != "throw"]
                exp = [t[0] for t in tbf]; explines = [t[1] for t in tbf]
            except BaseException as e:
                leg.violation(key, f"oracle raised {type(e)}"); continue
            if got != exp or s.error is not None or lines != explines:
                leg.violation(key, f"frames {[f.f_code.co_name for f in got]} lines {lines} != exception path {[f.f_code.co_name for f in exp]} lines {explines}; error={s.error!r}")
            if end in (end_leaf, end_leaf_genproto) and not isinstance(s.leaf, Leaf):
                leg.violation(key, f"leaf is {s.leaf!r}, expected the non-frame awaitable")
            if end is end_trap and s.leaf is not None:
                leg.violation(key, f"leaf is {s.leaf!r}, expected None")
            # exhausted: no frames
            s3 = stackscope.extract(co)
            if s3.frames:
                leg.violation(key, "an exhausted coroutine still yields frames")

if PROP == "C03":
    # a chain that ends in a plain iterator which is FALSY at that suspension point: it is still the leaf
    class Countdown:
        def __init__(s, n): s.n = n
        def __len__(s): return s.n
        def __iter__(s): return s
        def __next__(s):
            if s.n == 0: raise StopIteration
            s.n -= 1; return s.n
        def __await__(s): return s
    for how in ("yield-from", "await"):
        cd = Countdown(1)
        if how == "yield-from":
            def g():
                yield from cd
            x = g()
        else:
            async def co(): await cd
            x = co()
        x.send(None)
        leg.case(("falsy-leaf", how), True)
        st = stackscope.extract(x)
        if st.leaf is not cd:
            leg.violation(("falsy-leaf", how), f"leaf is {st.leaf!r}, expected the (falsy, len 0) iterator that ends the chain")
    # a long legitimate chain (more unwrap steps than the no-progress guard) is not truncated
    async def deep(n):
        if n == 0: await trap()
        else: await deep(n - 1)
    for n in (60, 130):
        c = deep(n); c.send(None)
        leg.case(("long-chain", n), True)
        st = stackscope.extract(c)
        if len(st.frames) != n + 2 or st.error is not None:
            leg.violation(("long-chain", n), f"chain of {n + 2} frames extracted as {len(st.frames)} frames, error={st.error!r}")
        c.close()

if PROP == "C16":
    # (a) outermost frame suspended inside a manager's __aexit__
    class SlowExit:
        async def __aenter__(self): return self
        async def __aexit__(self, *a): await trap()
    async def in_exit():
        async with SlowExit():
            pass
    co = in_exit(); co.send(None)
    leg.case("outermost-in-aexit", True)
    if stackscope.extract_outermost(co) != stackscope.extract(co).frames[0]:
        leg.violation("outermost-in-aexit", "extract_outermost(x) != extract(x).frames[0] while x is inside __aexit__ (contexts differ)")
    co.close()
    # (b) elaborate_frame hook using next_inner
    async def hooked():
        await trap()
    @stackscope.elaborate_frame.register(hooked)
    def _h(frame, nxt):
        frame.hide = nxt is not None
        frame.hide_line = isinstance(nxt, stackscope.Frame)
        return None
    co = hooked(); co.send(None)
    leg.case("outermost-hook-next-inner", True)
    a, b = stackscope.extract_outermost(co), stackscope.extract(co).frames[0]
    if (a.hide, a.hide_line) != (b.hide, b.hide_line) or a != b:
        leg.violation("outermost-hook-next-inner", f"flags differ {(a.hide, a.hide_line)} vs {(b.hide, b.hide_line)}")
    # ... under every option combination: what the hook is shown as next_inner does not depend on whether contexts are wanted
    # (added after seed C16-lazy-outermost-without-contexts)
    for wc, rc in ((False, False), (False, True), (True, True), (True, False)):
        key_ = ("outermost-hook-next-inner", wc, rc)
        leg.case(key_, True)
        a = stackscope.extract_outermost(co, with_contexts=wc, recurse_child_tasks=rc)
        b = stackscope.extract(co, with_contexts=wc, recurse_child_tasks=rc).frames[0]
        if (a.hide, a.hide_line) != (b.hide, b.hide_line) or a != b:
            leg.violation(key_, f"extract_outermost(x, with_contexts={wc}, recurse_child_tasks={rc}) differs from extract(...).frames[0]: flags "
                                f"{(a.hide, a.hide_line)} vs {(b.hide, b.hide_line)}")
    co.close()
    # (c) running coroutine: frames inward of it must not claim it as origin
    res = {}
    def leafcall(): res["s"] = stackscope.extract(co_run)
    def mid(): leafcall()
    async def running(): mid(); await trap()
    co_run = running(); co_run.send(None)
    leg.case("running-origin", True)
    for f in res["s"].frames:
        if f.origin is not None and stackscope.extract_outermost(f.origin).pyframe is not f.pyframe:
            leg.violation("running-origin", f"frame {f.funcname} inward of a RUNNING coroutine carries it as origin")
    co_run.close()
    # (d) suspended coroutine awaiting a custom item that unwraps to a raw frame / StackSlice of a foreign frame
    class Foreign:
        def __init__(s, fr): s.fr = fr
        def __await__(s): return s
        def __iter__(s): return s
        def __next__(s): return "foreign"
    @stackscope.unwrap_stackitem.register(Foreign)
    def _uf(x): return x.fr
    def helper_gen():
        yield 1
    hg = helper_gen(); next(hg)
    async def awaits_foreign(): await Foreign(hg.gi_frame)
    co = awaits_foreign(); co.send(None)
    leg.case("foreign-frame-origin", True)
    for f in stackscope.extract(co).frames:
        if f.origin is not None and stackscope.extract_outermost(f.origin).pyframe is not f.pyframe:
            leg.violation("foreign-frame-origin", f"foreign frame {f.funcname} claims origin {type(f.origin).__name__}")
    co.close()
    # (f) extract_outermost as the FIRST extraction after a module that brings its own glue appeared: it must agree with extract
    import types as _types
    class NeedsGlue:
        def __init__(s, g): s.g = g
    def _install():
        @stackscope.unwrap_stackitem.register(NeedsGlue)
        def _u(x): return x.g
    def ggen():
        yield
    gg = ggen(); next(gg)
    mod = _types.ModuleType("zz_c16_glue"); mod._stackscope_install_glue_ = _install
    sys.modules["zz_c16_glue"] = mod
    leg.case("outermost-first-after-glue-module", True)
    try:
        fo = stackscope.extract_outermost(NeedsGlue(gg))
        st_ = stackscope.extract(NeedsGlue(gg))
        if not st_.frames or fo.pyframe is not st_.frames[0].pyframe:
            leg.violation("outermost-first-after-glue-module", "extract_outermost differs from extract(x).frames[0] right after a glue module appeared")
    except Exception as e:
        leg.violation("outermost-first-after-glue-module", f"extract_outermost as first extraction after a glue module appeared raised {e!r}")
    sys.modules.pop("zz_c16_glue", None); gg.close()
    # (h) an unwrap hook hands back READY-MADE Frame objects (hand-built ones, the frames of a nested extract_child): they were not
    #     found by looking inside the coroutine that waits on the item, so they carry no origin of its
    class ReadyFrames:
        def __init__(s, how): s.how = how
        def __await__(s): return s
        def __iter__(s): return s
        def __next__(s): return "parked"
    def _mk_rf():
        return sys._getframe(0)
    RF_A, RF_B = _mk_rf(), _mk_rf()
    def rf_gen():
        yield 1
    RF_G = rf_gen(); next(RF_G)
    @stackscope.unwrap_stackitem.register(ReadyFrames)
    def _uw_ready(x):
        if x.how == "hand-built":
            return [stackscope.Frame(pyframe=RF_A), stackscope.Frame(pyframe=RF_B)]
        return stackscope.extract_child(RF_G, for_task=False).frames
    for how in ("hand-built", "extract_child"):
        async def rf_waiter(job): await job
        async def rf_task(job): await rf_waiter(job)
        co_rf = rf_task(ReadyFrames(how)); co_rf.send(None)
        key = ("hook-returns-ready-made-frames", how)
        leg.case(key, True)
        st = stackscope.extract(co_rf)
        if st.error is not None or [f.funcname for f in st.frames][:2] != ["rf_task", "rf_waiter"] or len(st.frames) < 3:
            leg.violation(key, f"frames {[f.funcname for f in st.frames]} error={st.error!r}")
        for f in st.frames:
            if f.origin is not None and stackscope.extract_outermost(f.origin).pyframe is not f.pyframe:
                leg.violation(key, f"frame {f.funcname} handed back by a hook has origin {f.origin!r}, whose outermost frame is another one")
        co_rf.close()
    # (g) no frame at all: extract_outermost raises the RECORDED error if there is one (also for an item that cannot be printed),
    #     a RuntimeError otherwise; extract() of the same item reports the same error
    class Frameless:
        def __init__(s, fail, printable): s.fail, s.printable = fail, printable
        def __repr__(s):
            if not s.printable: raise KeyError("this item cannot be printed")
            return "<Frameless>"
    class HookFault(Exception): pass
    @stackscope.unwrap_stackitem.register(Frameless)
    def _uw_frameless(x):
        if x.fail: raise HookFault("unwrap failed")
        return None
    for fail in (True, False):
        for printable in (True, False):
            item = Frameless(fail, printable)
            key = ("outermost-no-frames", fail, printable)
            leg.case(key, True)
            try:
                stackscope.extract_outermost(item); got = None
            except BaseException as e:
                got = e
            if fail and not isinstance(got, HookFault):
                leg.violation(key, f"no frames and a recorded unwrap error: extract_outermost raised {got!r} instead of the recorded error")
            elif not fail and printable and not isinstance(got, RuntimeError):
                leg.violation(key, f"no frames, no error: extract_outermost raised {got!r} instead of RuntimeError")
            elif not fail and not printable and got is None:
                leg.violation(key, "no frames: extract_outermost returned instead of raising")
            if fail:
                se = stackscope.extract(item)
                if se.frames or not isinstance(se.error, HookFault):
                    leg.violation(key, f"extract() of the same item: frames {se.frames} error {se.error!r}")
    # (e) an elaborate_frame hook REDIRECTS to suspended generator-like objects (single item and a sequence of items, replace
    #     and insert form): the frames found inside each of them have it as origin, and every origin recovers its frame
    async def job_leaf(): await trap()
    async def job(): await job_leaf()
    def gen_job():
        yield "g"
    for form in ("single", "tuple", "tuple+next_inner"):
        j, g = job(), gen_job()
        j.send(None); next(g)
        def runner(parked):
            yield "parked"
        r = runner((j, g)); next(r)
        @stackscope.elaborate_frame.register(runner)
        def _redir(frame, nxt, form=form):
            jj, gg = frame.pyframe.f_locals["parked"]
            return jj if form == "single" else ((jj, gg) if form == "tuple" else (jj, gg, nxt))
        leg.case(("hook-redirect", form), True)
        st = stackscope.extract(r)
        fo_r = stackscope.extract_outermost(r)
        if st.frames and fo_r != st.frames[0]:
            leg.violation(("hook-redirect", form, "outermost"), f"extract_outermost(x) differs from extract(x).frames[0] for an outermost frame whose hook redirects: "
                                                               f"hide={fo_r.hide}/{st.frames[0].hide} hide_line={fo_r.hide_line}/{st.frames[0].hide_line}")
        want = {"job": j, "job_leaf": None, "gen_job": g} if form != "single" else {"job": j, "job_leaf": None}
        by = {f.funcname: f for f in st.frames}
        if st.error is not None or not set(want) <= set(by):
            leg.violation(("hook-redirect", form), f"frames {[f.funcname for f in st.frames]} error={st.error!r}")
        else:
            for nm, o in want.items():
                if o is not None and by[nm].origin is not o:
                    leg.violation(("hook-redirect", form), f"frame {nm} reached through a hook redirect has origin {by[nm].origin!r}, expected the suspended {type(o).__name__}")
            for f in st.frames:
                if f.origin is not None and stackscope.extract_outermost(f.origin).pyframe is not f.pyframe:
                    leg.violation(("hook-redirect", form), f"origin of {f.funcname} does not recover it")
        j.close(); g.close(); r.close()
leg.finish(exhaustive=True)
