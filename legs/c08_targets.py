"""C08 bounded native leg (generated `as` targets): every target of depth <= 2 (thorough 3) over names / attributes / subscripts by
constants or names / positional-only calls / tuple and list unpacking with and without a starred element (all positions of
the star), plus unsupported forms (arithmetic subscripts, keyword calls, slices), x layouts {one line, item per line,
parenthesised (3.10+), context expression over several lines} x 1..2 items x {with, async with}; static contract on
analyze_with_blocks vs the ast of the same source: start_line == line of the with keyword; varname is None or parses to the
item's target; a target in the supported set is never dropped."""
import sys, os, ast, itertools, warnings
sys.path.insert(0, os.path.dirname(__file__))
from _leg import Leg, THOROUGH
warnings.simplefilter("ignore")
from stackscope import _lowlevel as ll

leg = Leg("c08_targets", "generated targets depth<=%d x 4 layouts x 1..2 items x sync/async; non-trivial = target other than a bare name; "
                         "distinct by (target, layout, kind)" % (3 if THOROUGH else 2))


def targets(depth):
    atoms = ["a", "self.x", "obj.f.g", "d[0]", "d['k']", "d[i]", "f(1).y", "g(i, 2)[0]", "obj.m().y", "obj.m(1)[0]", "d.get('k').slot"]
    unsupported = ["d[i + 1]", "f(k=1).y", "d[1:2]"]
    out = [(t, True) for t in atoms] + [(t, False) for t in unsupported]
    if depth <= 0:
        return out
    sub = targets(depth - 1)
    subs = [s for s in sub if s[1]][:5] + [s for s in sub if not s[1]][:1]
    for n in (1, 2, 3):
        for combo in itertools.islice(itertools.product(subs, repeat=n), 0, 40 if not THOROUGH else 200):
            names = [c[0] for c in combo]; sup = all(c[1] for c in combo)
            out.append(("(" + ", ".join(names) + ("," if n == 1 else "") + ")", sup))
            out.append(("[" + ", ".join(names) + "]", sup))
            for star in range(n):
                st = list(names); st[star] = "*" + st[star].split(".")[0].split("[")[0].split("(")[0] if True else st[star]
                # a starred element must be a plain assignable target: use a fresh name at that position
                st[star] = "*rest%d" % star
                out.append(("(" + ", ".join(st) + ("," if n == 1 else "") + ")", sup))
    return out


def norm(node):
    return ast.dump(node).replace("ctx=Load()", "ctx=X()").replace("ctx=Store()", "ctx=X()")


def pnorm(src):
    try:
        n = ast.parse(src, mode="eval").body
    except SyntaxError:
        return "SYNTAXERR:" + src
    # analyze_with_blocks renders tuples and lists alike as tuples: compare modulo that
    return norm(n)


def tuple_list_insensitive(d):
    return d.replace("List(", "Tuple(")


LAYOUTS = ["oneline", "item-per-line", "paren", "expr-multiline"]
WIDE_TOGGLE = [True]
seen = set()
for depth_t, (tgt, supported) in enumerate(targets(3 if THOROUGH else 2)):
    if tgt in seen:
        continue
    seen.add(tgt)
    for kind in ("with", "async with"):
        for layout in LAYOUTS:
            for nitems in (1, 2):
                if layout == "paren" and sys.version_info < (3, 10):
                    continue
                items = [f"cm({k}) as {tgt}" if k == 0 else f"cm({k}) as second" for k in range(nitems)]
                if layout == "oneline":
                    stmt = f"{kind} " + ", ".join(items) + ":"
                elif layout == "item-per-line":
                    stmt = f"{kind} " + ", \\\n            ".join(items) + ":"
                elif layout == "paren":
                    stmt = f"{kind} (\n            " + ",\n            ".join(items) + ",\n        ):"
                else:
                    stmt = f"{kind} cm(\n            0,\n        ) as {tgt}" + ("".join(f", cm({k}) as second" for k in range(1, nitems))) + ":"
                # "wide": 300 other global names are referenced first, so that the with line's FIRST instruction (the load of
                # `cm`) needs an EXTENDED_ARG prefix - the line starts on an argument prefix, not on a "real" instruction
                wide = layout == "oneline" and nitems == 1 and WIDE_TOGGLE[0]
                WIDE_TOGGLE[0] = not WIDE_TOGGLE[0] if (layout == "oneline" and nitems == 1) else WIDE_TOGGLE[0]
                prefix = ("    _w = [" + ", ".join(f"N{q}" for q in range(300)) + "]\n") if wide else ""
                src = ("async def fn(self, obj, d, i, f, g):\n    x = 1\n" + prefix + "    " + stmt.replace("\n", "\n") + "\n        pass\n")
                key = (tgt, layout + ("+wide-names" if wide else ""), kind, nitems)
                try:
                    tree = ast.parse(src)
                    code = compile(src, "<c08>", "exec").co_consts[0]
                except SyntaxError:
                    continue
                leg.case(key, tgt != "a", sample=dict(target=tgt, layout=layout, kind=kind) if len(leg.samples) < 4 and "*" in tgt else None)
                w = [n for n in ast.walk(tree) if isinstance(n, (ast.With, ast.AsyncWith))][0]
                want = {norm(w.items[0].optional_vars)} | ({norm(w.items[1].optional_vars)} if nitems == 2 else set())
                try:
                    info = ll.analyze_with_blocks(code)
                except Exception as e:
                    leg.violation(key, f"analyze_with_blocks raised {e!r} on\n{src}"); continue
                if len(info) != nitems:
                    leg.violation(key, f"{len(info)} contexts for {nitems} items on\n{src}"); continue
                got_first = False
                for c in info.values():
                    if c.start_line != w.lineno:
                        leg.violation(key, f"start_line {c.start_line}, the {kind} keyword is on line {w.lineno}:\n{src}")
                    if c.varname is None:
                        continue
                    d = tuple_list_insensitive(pnorm(c.varname))
                    if d not in {tuple_list_insensitive(x) for x in want}:
                        leg.violation(key, f"varname {c.varname!r} is not the `as` target {tgt!r}:\n{src}")
                    if d == tuple_list_insensitive(norm(w.items[0].optional_vars)):
                        got_first = True
                if supported and not got_first:
                    leg.violation(key, f"supported target {tgt!r} was dropped (varname None):\n{src}")

# ---- target-less items on real suspended frames: varname may only be None or the name of a local that IS the manager (the same
# object); locals that merely compare EQUAL to it (value-like managers, permissive __eq__), in front of or behind the manager in
# the frame's locals, never lend it their name (None is always acceptable)
class ValueCM:
    def __init__(s, tag): s.tag = tag
    def __enter__(s): return None
    def __exit__(s, *a): return None
    def __eq__(s, o): return isinstance(o, ValueCM) and o.tag == s.tag
    __hash__ = None


class Anything:
    def __eq__(s, o): return True
    def __hash__(s): return 0


class CountsEq:
    """a local whose __eq__ / __hash__ are observable: inspection must not call them (pure observation, C06)"""
    calls = 0
    def __eq__(s, o): CountsEq.calls += 1; return False
    def __hash__(s): CountsEq.calls += 1; return 1


DYN = {
    "observable-eq-local": "def fn(V, A):\n    watched = A()\n    with V('k'):\n        yield\n",
    "equal-local-before": "def fn(V, A):\n    twin = V('k')\n    with V('k'):\n        yield\n",
    "equal-local-after": "def fn(V, A):\n    with V('k'):\n        twin = V('k')\n        yield\n",
    "permissive-eq-local": "def fn(V, A):\n    anything = A()\n    with V('k'):\n        yield\n",
    "bound-local": "def fn(V, A):\n    m = V('k')\n    with m:\n        yield\n",
    "bound-local-and-equal-twin-first": "def fn(V, A):\n    twin = V('k')\n    m = V('k')\n    with m:\n        yield\n",
    "bound-local-and-equal-twin-last": "def fn(V, A):\n    m = V('k')\n    twin = V('k')\n    with m:\n        yield\n",
    "two-names": "def fn(V, A):\n    m = V('k')\n    n = m\n    with m:\n        yield\n",
    "two-managers-equal": "def fn(V, A):\n    m1 = V('k')\n    m2 = V('k')\n    with m1, m2:\n        yield\n",
    "two-managers-equal-reversed": "def fn(V, A):\n    m1 = V('k')\n    m2 = V('k')\n    with m2, m1:\n        yield\n",
}
for name, src in DYN.items():
    ns = {}
    exec(compile(src, "<c08dyn>", "exec"), ns)
    gen = ns["fn"](ValueCM, CountsEq if name == "observable-eq-local" else Anything)
    next(gen)
    CountsEq.calls = 0
    frame = gen.gi_frame
    leg.case(("dynamic", name), True)
    try:
        ctxs = ll.contexts_active_in_frame(frame)
    except Exception as e:
        leg.violation(("dynamic", name), f"contexts_active_in_frame raised {e!r} on\n{src}")
        continue
    loc = frame.f_locals
    if CountsEq.calls:
        leg.violation(("dynamic", name), f"inspecting the frame called __eq__ / __hash__ of one of its locals {CountsEq.calls} time(s) on\n{src}")
    for c in ctxs:
        if c.varname is not None and loc.get(c.varname, leg) is not c.obj:
            leg.violation(("dynamic", name), f"varname {c.varname!r} names a local that is NOT the manager object (obj {c.obj!r}, local "
                                             f"{loc.get(c.varname)!r}) on\n{src}")
    gen.close()
leg.finish(exhaustive=True)
