"""C09 bounded native leg: generator-based managers and exit stacks unfold into the exact nested tree.
Bounds: every sequence of length <= 3 (thorough 4) over the 10 registration forms on an AsyncExitStack (and the 5 sync ones on
an ExitStack), observed while suspended; generator-based entries (plain, yield-from, async) nested 2 deep; exit stack
observed while it is exiting; a pushed function carrying __wrapped__ and a closure (functools.wraps)."""
import sys, os, itertools, types, functools, contextlib
sys.path.insert(0, os.path.dirname(__file__))
from _leg import Leg, THOROUGH
import stackscope
from stackscope import Context

leg = Leg("c09_trees", "all sequences of length <= %d over 10 registration forms (AsyncExitStack) / 5 (ExitStack); gcm nestings; exiting "
                       "stack; non-trivial = sequence with >= 2 different forms; distinct by form sequence" % (4 if THOROUGH else 3))


class CM:
    def __init__(s, n): s.n = n
    def __enter__(s): return s
    def __exit__(s, *a): pass
    def other(s, *a): pass
    def __repr__(s): return f"CM({s.n})"


class ACM:
    def __init__(s, n): s.n = n
    async def __aenter__(s): return s
    async def __aexit__(s, *a): pass
    async def aother(s, *a): pass
    def __repr__(s): return f"ACM({s.n})"


class FalsyCM(CM):
    """a manager that answers False to bool() (container-like, empty): still THE registered manager"""
    def __len__(s): return 0
    def __repr__(s): return f"FalsyCM({s.n})"


def fn(*a, **k): pass
async def afn(*a, **k): pass


@contextlib.contextmanager
def innermost():
    yield


@contextlib.contextmanager
def gcm():
    with innermost():
        yield


@contextlib.contextmanager
def delegating():
    yield from gcm.__wrapped__()


@contextlib.asynccontextmanager
async def agcm():
    with gcm():
        yield


@types.coroutine
def ay():
    yield


# form -> (registration action, expected (obj-predicate, is_async, method, inner frames or None))
def forms():
    F = {}
    F["enter_context"] = (lambda st, o: st.enter_context(o), lambda: CM(1), False, "enter_context", lambda c, o: c.obj is o)
    F["push_cm"] = (lambda st, o: st.push(o), lambda: CM(2), False, ("enter_context", "push"), lambda c, o: c.obj is o)
    F["push_fn"] = (lambda st, o: st.push(o), lambda: fn, False, "push", lambda c, o: c.obj is o)
    F["push_method"] = (lambda st, o: st.push(o.other), lambda: CM(3), False, "push", lambda c, o: c.obj is o)
    F["callback"] = (lambda st, o: st.callback(o, 1, k=2), lambda: fn, False, "callback", lambda c, o: getattr(c.obj, "__wrapped__", None) is o)
    F["enter_falsy_cm"] = (lambda st, o: st.enter_context(o), lambda: FalsyCM(4), False, "enter_context", lambda c, o: c.obj is o)
    F["enter_gcm"] = (lambda st, o: st.enter_context(o), lambda: gcm(), False, "enter_context", lambda c, o: c.obj is o)
    F["enter_delegating"] = (lambda st, o: st.enter_context(o), lambda: delegating(), False, "enter_context", lambda c, o: c.obj is o)
    return F


def aforms():
    F = {}
    F["enter_async_context"] = ("await", lambda st, o: st.enter_async_context(o), lambda: ACM(1), True, "enter_async_context", lambda c, o: c.obj is o)
    F["push_async_exit_cm"] = (None, lambda st, o: st.push_async_exit(o), lambda: ACM(2), True, ("enter_async_context", "push_async_exit"), lambda c, o: c.obj is o)
    F["push_async_exit_fn"] = (None, lambda st, o: st.push_async_exit(o), lambda: afn, True, "push_async_exit", lambda c, o: c.obj is o)
    F["push_async_exit_method"] = (None, lambda st, o: st.push_async_exit(o.aother), lambda: ACM(3), True, "push_async_exit", lambda c, o: c.obj is o)
    F["push_async_callback"] = (None, lambda st, o: st.push_async_callback(o, 3), lambda: afn, True, "push_async_callback", lambda c, o: getattr(c.obj, "__wrapped__", None) is o)
    F["enter_agcm"] = ("await", lambda st, o: st.enter_async_context(o), lambda: agcm(), True, "enter_async_context", lambda c, o: c.obj is o)
    return F


INNER = {"enter_gcm": ["gcm"], "enter_delegating": ["delegating", "gcm"], "enter_agcm": ["agcm"]}


def check_children(key, ctx, regs, stackname):
    if len(ctx.children) != len(regs):
        leg.violation(key, f"{len(ctx.children)} children for {len(regs)} registered callbacks"); return
    for idx, (child, (form, obj, is_async, method, pred)) in enumerate(zip(ctx.children, regs)):
        methods = method if isinstance(method, tuple) else (method,)
        if not isinstance(child, Context):
            leg.violation(key, f"child {idx} is not a Context"); continue
        if not pred(child, obj):
            leg.violation(key, f"child {idx} ({form}): obj {child.obj!r} does not identify the registered {obj!r}")
        if child.is_async != is_async:
            leg.violation(key, f"child {idx} ({form}): is_async {child.is_async}")
        if child.varname != f"{stackname}[{idx}]":
            leg.violation(key, f"child {idx} ({form}): varname {child.varname!r}")
        if not any(f"{stackname}.{m}(" in (child.description or "") for m in methods):
            leg.violation(key, f"child {idx} ({form}): description {child.description!r} does not name the registration method {methods}")
        if child.is_exiting:
            leg.violation(key, f"child {idx} ({form}) flagged as exiting although it is still registered")
        if form in INNER:
            got = [f.pyframe.f_code.co_name for f in child.inner_stack.frames] if child.inner_stack is not None else None
            if got != INNER[form]:
                leg.violation(key, f"child {idx} ({form}): inner_stack frames {got}, expected {INNER[form]}")
            elif form != "enter_delegating" and not (child.inner_stack.frames[0].contexts and child.inner_stack.frames[0].contexts[0].inner_stack is not None):
                leg.violation(key, f"child {idx} ({form}): the nested generator-based manager inside it was not unfolded recursively")


SF, AF = forms(), aforms()
maxlen = 4 if THOROUGH else 3
# sync ExitStack inside a generator (suspended)
for L in range(0, maxlen + 1):
    for seq in itertools.product(list(SF), repeat=L):
        regs = []
        def g():
            with contextlib.ExitStack() as stack:
                for form in seq:
                    act, mk, is_async, method, pred = SF[form]
                    o = mk(); act(stack, o); regs.append((form, o, is_async, method, pred))
                yield
        it = g(); next(it)
        key = ("ExitStack",) + seq
        leg.case(key, len(set(seq)) >= 2, sample=list(seq) if L == 3 and len(leg.samples) < 2 else None)
        st = stackscope.extract(it)
        ctx = st.frames[0].contexts[0]
        if st.error is not None:
            leg.violation(key, f"error {st.error!r}")
        check_children(key, ctx, regs, "stack")
        it.close()
# AsyncExitStack inside a coroutine (suspended), sync and async forms mixed
ALL = {**{k: (None,) + v for k, v in SF.items()}, **AF}
names = list(ALL)
import random
rnd = random.Random(5)
combos = [seq for L in range(0, maxlen + 1) for seq in itertools.product(names, repeat=L)]
if not THOROUGH:
    combos = [c for c in combos if len(c) <= 2] + rnd.sample([c for c in combos if len(c) == 3], 400)
for seq in combos:
    regs = []
    async def co():
        async with contextlib.AsyncExitStack() as astack:
            for form in seq:
                aw, act, mk, is_async, method, pred = ALL[form]
                o = mk(); r = act(astack, o)
                if aw: await r
                regs.append((form, o, is_async, method, pred))
            await ay()
    c = co(); c.send(None)
    key = ("AsyncExitStack",) + seq
    leg.case(key, len(set(seq)) >= 2, sample=list(seq) if len(seq) == 3 and len(leg.samples) < 4 else None)
    st = stackscope.extract(c)
    if st.error is not None:
        leg.violation(key, f"error {st.error!r}")
    check_children(key, st.frames[0].contexts[0], regs, "astack")
    c.close()
# exit stack observed while it is exiting: remaining entries are ordinary suspended managers
captured = []
def scenario():
    root = sys._getframe(0)
    def observer(*exc): captured.append(stackscope.extract_since(root))
    with contextlib.ExitStack() as stack:
        a = gcm(); stack.enter_context(a)
        b = delegating(); stack.enter_context(b)
        stack.push(observer)
    return a, b
a, b = scenario()
leg.case("exiting-stack", True)
st = captured[0]
ctxs = [c for f in st.frames for c in f.contexts if type(c.obj).__name__ == "ExitStack"]
if not ctxs or not ctxs[0].is_exiting:
    leg.violation("exiting-stack", "the exit stack itself is not reported as exiting")
else:
    check_children("exiting-stack", ctxs[0], [("enter_gcm", a, False, "enter_context", lambda c, o: c.obj is o),
                                              ("enter_delegating", b, False, "enter_context", lambda c, o: c.obj is o)], "stack")
# a generator-based manager that is itself exiting: its frames are in the main series, no inner_stack
@contextlib.contextmanager
def slow_exit():
    try:
        yield
    finally:
        captured.append(stackscope.extract_since(ROOT[0]))
ROOT = [None]
def scen2():
    ROOT[0] = sys._getframe(0)
    with slow_exit():
        pass
del captured[:]
scen2()
leg.case("gcm-exiting", True)
st = captured[0]
c = st.frames[0].contexts[-1]
if not c.is_exiting or c.inner_stack is not None or "slow_exit" not in [f.funcname for f in st.frames]:
    leg.violation("gcm-exiting", f"exiting generator-based manager: is_exiting={c.is_exiting} inner_stack={c.inner_stack} frames={[f.funcname for f in st.frames]}")
# the SAME function observed first while its manager is exiting, then (a later call) while it is suspended in the body, then
# exiting again: what one observation found must not colour the next one of the same code
def same_code(stop_in_body):
    ROOT[0] = sys._getframe(0)
    with slow_exit():
        if stop_in_body:
            captured.append(stackscope.extract_since(ROOT[0]))
for rnd_, in_body in enumerate([False, True, False, True]):
    del captured[:]
    same_code(in_body)
    key = ("gcm-same-code-exit-then-body", rnd_)
    leg.case(key, True)
    stb = captured[0]
    cb = stb.frames[0].contexts[-1]
    if in_body:
        ok = (not cb.is_exiting and cb.inner_stack is not None and [f.funcname for f in cb.inner_stack.frames] == ["slow_exit"]
              and "slow_exit" not in [f.funcname for f in stb.frames])
    else:
        ok = cb.is_exiting and cb.inner_stack is None and "slow_exit" in [f.funcname for f in stb.frames]
    if not ok or stb.error is not None:
        leg.violation(key, f"call {rnd_} of the same function ({'in the body' if in_body else 'exiting'}): is_exiting={cb.is_exiting} "
                           f"inner_stack={cb.inner_stack!r} frames={[f.funcname for f in stb.frames]} error={stb.error!r}")
# a registration made WHILE the children are being described (a callback argument whose repr() registers on the same stack - a lazy
# proxy; the same happens when another thread registers): one child per callback that was registered when the description
# started, in order, and no error
class Registers:
    def __init__(s, es): s.es, s.fired = es, 0
    def __repr__(s):
        s.fired += 1
        s.es.callback(fn, "late")
        return "<Registers>"
def g_live():
    with contextlib.ExitStack() as es:
        es.callback(fn, 1)
        es.callback(fn, Registers(es))
        es.callback(fn, 3)
        yield
gl = g_live(); next(gl)
leg.case("registration-during-description", True)
stl = stackscope.extract(gl)
cl = stl.frames[0].contexts[0]
descs = [ch.description for ch in cl.children]
if stl.error is not None or len(cl.children) < 3 or not all(isinstance(ch, stackscope.Context) for ch in cl.children[:3]) or \
        [("1" in d0 or "Registers" in d0 or "3" in d0) for d0 in (descs[:3] or [""])] != [True, True, True]:
    leg.violation("registration-during-description", f"callback registered while the stack's children were being described: {len(cl.children)} children "
                                                     f"{descs}, error={stl.error!r}")
gl.close()
# pushed function carrying __wrapped__ and a closure is still a plain push
def make_wrapped():
    def release(*a): pass
    token = object()
    @functools.wraps(release)
    def wrapped_release(*a): return release(token, *a)      # has __wrapped__ AND a closure (release, token)
    return wrapped_release
wrapped_release = make_wrapped()
def g2():
    with contextlib.ExitStack() as stack:
        stack.push(wrapped_release)
        yield
it = g2(); next(it)
leg.case("wrapped-push", True)
ch = stackscope.extract(it).frames[0].contexts[0].children[0]
if "stack.push(" not in ch.description or ch.obj is not wrapped_release:
    leg.violation("wrapped-push", f"push(functools.wraps-decorated function) described as {ch.description!r}")
# a generator-based manager that DELEGATES with `yield from`: it unfolds into all its frames and each of them carries its own
# contexts (an ExitStack with two registrations and a plain manager inside the sub-generator); both inspection modes
from stackscope.lowlevel import set_trickery_enabled
def deleg_helper():
    with contextlib.ExitStack() as es:
        es.enter_context(CM(1))
        es.callback(fn, 1)
        with CM(2):
            yield
@contextlib.contextmanager
def deleg_direct():
    yield from deleg_helper()
def deleg_user():
    with deleg_direct():
        yield
for mode in (None, False):
    set_trickery_enabled(mode)
    try:
        it = deleg_user(); next(it)
        key = ("delegating-gcm", "trickery" if mode is None else "referents")
        leg.case(key, True)
        st_ = stackscope.extract(it)
        ctx = st_.frames[0].contexts[0]
        inner = ctx.inner_stack
        names = [f.funcname for f in inner.frames] if inner is not None else None
        if names != ["deleg_direct", "deleg_helper"] or st_.error is not None or inner.error is not None:
            leg.violation(key, f"inner stack of a delegating manager: {names}, error={st_.error!r}")
        else:
            hc = inner.frames[1].contexts
            objs = [type(c.obj).__name__ for c in hc]
            kids = [c.description for c in hc[0].children] if hc else None
            if objs != ["ExitStack", "CM"] or not kids or len(kids) != 2:
                leg.violation(key, f"contexts of the delegated sub-generator frame: {objs}, exit-stack entries {kids}")
        it.close()
    finally:
        set_trickery_enabled(None)
# an async generator-based manager in both inspection modes: its generator frame keeps its contexts (the async generator object,
# not the frame, owns the references on 3.11+, so the frame needs its origin)
@contextlib.asynccontextmanager
async def outer_async():
    with contextlib.ExitStack() as es:
        es.enter_context(CM(7))
        with CM(8):
            yield
async def auser():
    async with outer_async():
        await ay()
for mode in (None, False):
    set_trickery_enabled(mode)
    try:
        co = auser(); co.send(None)
        key = ("async-gcm-contexts", "trickery" if mode is None else "referents")
        leg.case(key, True)
        st_ = stackscope.extract(co)
        ctx = st_.frames[0].contexts[0] if st_.frames and st_.frames[0].contexts else None
        inner = ctx.inner_stack if ctx is not None else None
        objs = [type(c.obj).__name__ for c in inner.frames[0].contexts] if inner is not None and inner.frames else None
        if objs != ["ExitStack", "CM"] or st_.error is not None:
            leg.violation(key, f"contexts inside an @asynccontextmanager generator frame: {objs}, error={st_.error!r}")
        co.close()
    finally:
        set_trickery_enabled(None)
# a failing hook on ONE context of a frame must not cost the OTHER contexts of that frame their unfolding
class BadRepr:
    def __repr__(s): raise ValueError("repr fails")
def two_contexts():
    with contextlib.ExitStack() as es:
        es.callback(fn, BadRepr())
        with gcm():
            yield
it = two_contexts(); next(it)
leg.case("fault-on-one-context-spares-the-others", True)
st_ = stackscope.extract(it)
cs = st_.frames[0].contexts
if len(cs) != 2 or cs[1].inner_stack is None or [f.funcname for f in cs[1].inner_stack.frames] != ["gcm"] or st_.error is None:
    leg.violation("fault-on-one-context-spares-the-others", f"second context of the frame lost its inner stack after the first one's hook failed: "
                  f"inner={getattr(cs[1], 'inner_stack', None) if len(cs) > 1 else None} error={st_.error!r}")
it.close()
leg.finish(exhaustive=THOROUGH)
