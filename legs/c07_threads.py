"""C07 bounded native leg: thread stacks.
 blocked: a thread parked at a fixed point (depth 1..6 x manager nesting 0..2): extract(thread) == its f_back chain outermost
   first, exact contexts, no warning; no frames before start / after finish.
 racing (sampled, NOT exhaustive): a target thread keeps calling/returning through with-blocks while the main thread extracts
   it repeatedly with a shortened switch interval: the call never raises, every reported frame belongs to that thread (its
   f_back chain ends in the thread's bootstrap), and lowlevel.inspect_frame either returns or raises only the documented
   RuntimeError.  Interpreter crashes would kill the leg (reported by the driver as a crash)."""
import sys, os, threading, contextlib, warnings, time
sys.path.insert(0, os.path.dirname(__file__))
from _leg import Leg, THOROUGH
import stackscope
leg = Leg("c07_threads", "blocked thread: depth 1..6 x nesting 0..2 (exhaustive); racing thread: %d extractions with switch interval 1e-5 (sampled); "
                         "non-trivial = every case" % (3000 if THOROUGH else 600))
class S:
    def __init__(s,n): s.n=n
    def __enter__(s): return s
    def __exit__(s,*e): pass
def run(depth, nest):
    ev=threading.Event(); ready=threading.Event(); frames=[]; mgrs={}
    def body(d):
        frames.append(sys._getframe(0))
        with contextlib.ExitStack() as es:
            ms=[es.enter_context(S((d,k))) for k in range(0)]
            # real nested withs:
            if nest==0: inner(d)
            elif nest==1:
                with S((d,0)) as a:
                    mgrs[d]=[a]; inner(d)
            else:
                with S((d,0)) as a:
                    with S((d,1)) as b:
                        mgrs[d]=[a,b]; inner(d)
    def inner(d):
        if d>1: body(d-1)
        else:
            ready.set(); ev.wait()
    t=threading.Thread(target=lambda: body(depth)); 
    # not started
    if stackscope.extract(t).frames != []: leg.violation(('not-started', depth, nest), 'a thread that has not started yields frames')
    t.start(); ready.wait()
    with warnings.catch_warnings(record=True) as w:
        warnings.simplefilter("always")
        st=stackscope.extract(t)
    vis=[f for f in st.frames if not f.hide]
    # expected visible: <lambda>, then per level body, inner ... then Event.wait internals (threading.py frames)
    got=[f.pyframe for f in st.frames]
    # truth via f_back from sys._current_frames
    cur=sys._current_frames()[t.ident]; T=[]
    while cur: T.append(cur); cur=cur.f_back
    T=T[::-1]
    ok = got==T and st.error is None and not w
    for f in st.frames:
        if f.funcname=='body':
            d=f.pyframe.f_locals['d']
            exp=[('es',False)] + [(m,False) for m in mgrs.get(d,[])]
            gotc=[(c.obj if c.varname!='es' else 'es', c.is_exiting) for c in f.contexts]
            if gotc!=exp: ok=False
    leg.case(('blocked', depth, nest), True, sample=dict(depth=depth, nesting=nest) if depth == 3 else None)
    if not ok:
        leg.violation(('blocked', depth, nest), f'blocked thread: frames/contexts differ from the f_back truth, error={st.error!r}, warnings={[str(x.message)[:60] for x in w]}')
    ev.set(); t.join()
    if stackscope.extract(t).frames != []: leg.violation(('finished', depth, nest), 'a finished thread yields frames')

for depth in range(1, 7):
    for nest in range(3):
        run(depth, nest)

# a thread blocked INSIDE A C CALL made directly by one of its own instructions (no Python frame below it): `with lock:` on a held
# lock (the C __enter__ is called by the instruction that opens the with, which can be the last one of the enclosing block's
# protected range), lock.acquire(), a C-level membership test; 0..2 enclosing with blocks
def run_c_blocked(kind, nest):
    lock = threading.Lock(); lock.acquire()
    ready = threading.Event(); box = {}
    def body():
        box["frame"] = sys._getframe(0)
        if nest == 0:
            box["m"] = []; ready.set()
            if kind == "with-lock":
                with lock: pass
            else:
                lock.acquire(); lock.release()
        elif nest == 1:
            with S("a") as a:
                box["m"] = [a]; ready.set()
                if kind == "with-lock":
                    with lock: pass
                else:
                    lock.acquire(); lock.release()
        else:
            with S("a") as a:
                with S("b") as b:
                    box["m"] = [a, b]; ready.set()
                    if kind == "with-lock":
                        with lock: pass
                    else:
                        lock.acquire(); lock.release()
    t = threading.Thread(target=body); t.start(); ready.wait()
    # wait until the thread sits still at one instruction of body()
    last = None; still = 0
    for _ in range(400):
        cur = sys._current_frames().get(t.ident)
        pos = (id(cur), cur.f_lasti) if cur is not None else None
        still = still + 1 if (pos == last and cur is box["frame"]) else 0
        last = pos
        if still >= 3: break
        time.sleep(0.005)
    with warnings.catch_warnings(record=True) as w:
        warnings.simplefilter("always")
        st = stackscope.extract(t)
    key = ("blocked-in-c-call", kind, nest)
    leg.case(key, True)
    fr = [f for f in st.frames if f.pyframe is box["frame"]]
    if st.error is not None or w or len(fr) != 1 or st.frames[-1].pyframe is not box["frame"] or \
            [c.obj for c in fr[0].contexts] != box["m"] or any(c.is_exiting for c in fr[0].contexts):
        leg.violation(key, f"thread blocked in a C call ({kind}, {nest} enclosing with blocks): contexts "
                           f"{[c.obj for c in fr[0].contexts] if fr else None} expected {box['m']}; error={st.error!r} "
                           f"warnings={[str(x.message)[:80] for x in w]}")
    lock.release(); t.join()


for kind in ("with-lock", "acquire"):
    for nest in range(3):
        run_c_blocked(kind, nest)

# a FINISHED thread yields no frames - also when its ident has meanwhile been recycled to the very thread that asks
def finished_then_recycled():
    a = threading.Thread(target=lambda: None); a.start(); a.join()
    out = {}
    for _ in range(50):
        def ask():
            if threading.get_ident() == a.ident:
                out["st"] = stackscope.extract(a)
        b = threading.Thread(target=ask); b.start(); b.join()
        if "st" in out:
            break
    return out.get("st")
st_r = finished_then_recycled()
leg.case(("finished-thread-ident-recycled",), st_r is not None)
if st_r is not None and (st_r.frames or st_r.error is not None):
    leg.violation(("finished-thread-ident-recycled",), f"a finished thread whose ident was recycled to the asking thread: frames "
                                                       f"{[f.funcname for f in st_r.frames]}, error {st_r.error!r} (expected none)")

# racing thread
stop = False
def worker():
    def rec(d):
        with contextlib.ExitStack() as es:
            es.enter_context(S(d))
            with S((d, 1)):
                if d: rec(d - 1)
    while not stop:
        rec(6)
old = sys.getswitchinterval(); sys.setswitchinterval(1e-5)
t = threading.Thread(target=worker, name="racer"); t.start()
N = 3000 if THOROUGH else 600
bad = 0
try:
    for i in range(N):
        leg.case(("racing", i), False)
        try:
            with warnings.catch_warnings(record=True):
                warnings.simplefilter("always")
                st = stackscope.extract(t)
        except BaseException as e:
            leg.violation(("racing", "raised"), f"extract(running thread) raised {e!r}"); break
        for f in st.frames:
            g = f.pyframe; seen = 0
            while g.f_back is not None and seen < 200: g = g.f_back; seen += 1
            if g.f_code.co_name not in ("_bootstrap", "_bootstrap_inner", "run", "worker", "rec") or g.f_code.co_filename != threading.__file__ and g.f_code.co_name not in ("worker", "rec"):
                leg.violation(("racing", "foreign-frame"), f"frame {f.funcname} reported for the thread roots at {g.f_code.co_name} in {g.f_code.co_filename}"); bad += 1; break
        if bad: break
finally:
    stop = True; t.join(); sys.setswitchinterval(old)
leg.distinct.add("racing")
leg.finish()
