"""C07 bounded native leg: deterministic preemption inside the frame-snapshot code (no hooks in /repo: a sys.settrace 'line' hook
on the INSPECTING thread is the preemption point).  A target thread is parked directly in a C call (lock.acquire) made by
its own function, so its frame is executing (no saved stack top).  For every start position k, every amount of progress
a in {1, 2} (the target moves to position k+a and parks again) and EVERY line of inspect_frame executed while it looks at
the target's frame (the n-th 'line' event, all n), the snapshot returned must be consistent with ONE of the positions the
target was at (k or k+a): the right number of active with-blocks, a captured value stack deep enough for each of them and
holding exactly those managers; contexts_active_in_frame then reports exactly the managers of the FINAL position, no
InspectionWarning, no exception other than the documented RuntimeError."""
import sys, os, threading, time, warnings, dis
sys.path.insert(0, os.path.dirname(__file__))
from _leg import Leg, THOROUGH
import stackscope
from stackscope import _lowlevel, lowlevel

leg = Leg("c07_preempt", "start position k in 1..4 x progress a in {1,2} x every line event of inspect_frame as preemption point; "
                         "non-trivial = a preemption that actually fired; distinct by (k, a, n)")
_lowlevel.inspect_frame(sys._getframe(0))
impl_code = _lowlevel.inspect_frame.__code__


class Mgr:
    def __init__(s, n): s.n = n
    def __enter__(s): return s
    def __exit__(s, *e): return False
    def __repr__(s): return f"Mgr{s.n}"


M1, M2 = Mgr(1), Mgr(2)
DEPTH = {1: [], 2: [M1], 3: [M1, M2], 4: [M1], 5: []}


def make_target():
    gates = {i: threading.Lock() for i in range(1, 6)}
    for g in gates.values(): g.acquire()
    def target_fn():
        gates[1].acquire()            # P1
        with M1 as m:
            gates[2].acquire()        # P2
            with M2 as n:
                gates[3].acquire()    # P3
            gates[4].acquire()        # P4
        gates[5].acquire()            # P5
    return target_fn, gates


def park_offsets(fn):
    """offset of the CALL instruction of each `gates[i].acquire()`, in source order: while the target sits in (or is entering)
    that C call its f_lasti is exactly this offset - a load-independent test for 'the target is at position i'"""
    offs = []
    want = False
    for ins in dis.get_instructions(fn):
        if ins.argval == "acquire":
            want = True
        elif want and ins.opname in ("CALL", "CALL_METHOD", "CALL_FUNCTION"):
            offs.append(ins.offset)
            want = False
    assert len(offs) == 5, offs
    return offs


def current_pos(thread, fn, calls):
    top = sys._current_frames().get(thread.ident)
    if top is None or top.f_code is not fn.__code__:
        return None
    return top.f_lasti


def run_trial(k, a, n):
    fn, gates = make_target()
    th = threading.Thread(target=fn); th.start()
    offs = park_offsets(fn)
    def wait_parked_at(pos_count):
        # the target is at position p when its innermost frame is fn's and f_lasti is the CALL of the p-th acquire (gates p.. are
        # still held by the harness, so it cannot get past it); no timing assumption
        deadline = time.monotonic() + 60
        while time.monotonic() < deadline:
            top = sys._current_frames().get(th.ident)
            if top is not None and top.f_code is fn.__code__ and top.f_lasti == offs[pos_count - 1]:
                return top
            time.sleep(0.0002)
        raise RuntimeError("harness: target did not park")
    released = 0
    def advance(to):
        nonlocal released
        while released < to - 1:
            released += 1; gates[released].release()
        return wait_parked_at(to)
    frame = advance(k)
    state = dict(lines=0, fired=False)
    def local_trace(fr, event, arg):
        if event == "line" and fr.f_locals.get("frame") is frame:
            state["lines"] += 1
            if state["lines"] == n and not state["fired"]:
                state["fired"] = True
                advance(k + a)
        return local_trace
    def global_trace(fr, event, arg):
        return local_trace if fr.f_code is impl_code else None
    out = dict(fired=False, total_lines=0)
    try:
        with warnings.catch_warnings(record=True) as w:
            warnings.simplefilter("always")
            sys.settrace(global_trace)
            try:
                try:
                    details = lowlevel.inspect_frame(frame)
                    err = None
                except RuntimeError as e:
                    details, err = None, e
                except BaseException as e:
                    details, err = None, e
            finally:
                sys.settrace(None)
            final = k + a if state["fired"] else k
            ctxs = None; cerr = None
            try:
                ctxs = lowlevel.contexts_active_in_frame(frame)
            except BaseException as e:
                cerr = e
        out.update(fired=state["fired"], total_lines=state["lines"])
        key = (k, a, n)
        if isinstance(err, BaseException) and not isinstance(err, RuntimeError):
            leg.violation(key, f"inspect_frame raised {err!r} under preemption")
        if details is not None:
            info = lowlevel.analyze_with_blocks(fn.__code__)
            wb = [b for b in details.blocks if b.handler in info]
            ok_any = False
            for pos in ({k, final}):
                mg = DEPTH[pos]
                if len(wb) == len(mg) and len(details.stack) == len(mg) and all(b.level <= len(details.stack) and getattr(details.stack[b.level - 1], "__self__", None) is m_ for b, m_ in zip(wb, mg)):
                    ok_any = True
            if not ok_any:
                leg.violation(key, f"accepted snapshot is consistent with neither position {k} nor {final}: {len(wb)} with-blocks at levels {[b.level for b in wb]}, "
                                   f"{len(details.stack)} stack slots captured; expected managers {DEPTH[k]} or {DEPTH[final]}")
        if cerr is not None:
            leg.violation(key, f"contexts_active_in_frame raised {cerr!r}")
        elif [c.obj for c in ctxs] != DEPTH[final] or any(issubclass(x.category, stackscope.InspectionWarning) for x in w):
            leg.violation(key, f"after the target settled at position {final}: contexts {[c.obj for c in ctxs]} != {DEPTH[final]}; warnings={[str(x.message)[:80] for x in w]}")
    finally:
        for i in range(released + 1, 6): gates[i].release()
        th.join()
    return out


# positions after the with blocks: an executing frame on an instruction no handler covers must yield an EMPTY stack
for k in (1, 5):
    leg.case(("static", k), True)
    run_trial(k, 0, 10 ** 6)
# how many line events does one un-preempted inspection execute?  (upper bound for n)
probe = run_trial(1, 1, 10 ** 6)
NLINES = probe["total_lines"] + 12           # a retried attempt executes more lines
for k in (1, 2, 3, 4):
    for a in ((1, 2) if k <= 3 else (1,)):
        n = 1
        while n <= NLINES:
            r = run_trial(k, a, n)
            leg.case((k, a, n), r["fired"], sample=dict(start=k, progress=a, preempt_at_line_event=n) if n == 7 and a == 1 else None)
            if not r["fired"] and n > r["total_lines"]:
                break
            n += 1 if THOROUGH or NLINES < 80 else 2
leg.finish(exhaustive=True)
