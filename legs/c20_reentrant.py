"""C01 / C02 / C20 bounded native leg: ONE manager object entered several times in the same frame (a re-entrant lock, a tracing
span): `with r: with r: ...`, `with r, r:`, `with r: with p: with r:` - sync (generator) and async (coroutine) - observed at every
suspension point (bodies, inside every __exit__ / __aexit__ on the normal and on the exception path, between the blocks), through
extract() (so the exiting entry's obj comes from the next inner frame), in the default analysis and in referents mode (referents
mode: suspended frames only - running frames are outside C20's quantifier).  Oracle:
a shadow stack kept by the managers (entered-and-not-yet-exited, by identity, duplicates kept).  Added after seed
C20-reentrant-manager-dedup."""
import sys, os, types, warnings, itertools
sys.path.insert(0, os.path.dirname(__file__))
from _leg import Leg
import stackscope

leg = Leg("c20_reentrant", "one manager object entered 2..3 times in one frame (3 shapes x sync / async x normal / raising body), plus an async manager whose protocol methods are plain functions returning awaitables, x every suspension "
                           "point x {default analysis, referents mode}; non-trivial = every case")
SHADOW = []          # (manager, state) entries, outermost first; state "in" or "exiting"


@types.coroutine
def trap(v):
    return (yield v)


class R:
    def __init__(s, name): s.name = name
    def __repr__(s): return f"<R {s.name}>"
    def __enter__(s):
        SHADOW.append([s, "in"]); return s
    def __exit__(s, *a):
        SHADOW[-1][1] = "exiting"
        PROBE[0](("exit", s.name))
        SHADOW.pop(); return False
    async def __aenter__(s):
        SHADOW.append([s, "in"]); return s
    async def __aexit__(s, *a):
        SHADOW[-1][1] = "exiting"
        await trap(("exit", s.name))
        SHADOW.pop(); return False


class W(R):
    """async protocol written as PLAIN functions that return the awaitable of another method (a functools.wraps-style delegating
       wrapper): `async with` accepts it; is_async is a property of the with statement, not of how __aexit__ is defined"""
    def __aenter__(s): return R.__aenter__(s)
    def __aexit__(s, *a): return R.__aexit__(s, *a)


PROBE = [None]
r, p, w_ = R("r"), R("p"), W("w")


async def a_nested(boom):
    async with r:
        async with r:
            await trap("body")
            if boom: raise ValueError("boom")
        await trap("between")


async def a_items(boom):
    async with r, r:
        await trap("body")
        if boom: raise ValueError("boom")


async def a_sandwich(boom):
    async with r:
        async with p:
            async with r:
                await trap("body")
                if boom: raise ValueError("boom")
            await trap("between")


async def a_plain_def_protocol(boom):
    async with r:
        async with w_:
            await trap("body")
            if boom: raise ValueError("boom")
        await trap("between")


def s_nested(boom):
    with r:
        with r:
            yield "body"
            if boom: raise ValueError("boom")
        yield "between"


def s_items(boom):
    with r, r:
        yield "body"
        if boom: raise ValueError("boom")


def s_sandwich(boom):
    with r:
        with p:
            with r:
                yield "body"
                if boom: raise ValueError("boom")
            yield "between"


def observe(key, item, frame_of):
    is_async = key[1].startswith("a_")
    want = [(m, st == "exiting", is_async) for m, st in SHADOW]
    with warnings.catch_warnings(record=True) as w:
        warnings.simplefilter("always")
        st = stackscope.extract(item)
    fr = [f for f in st.frames if f.pyframe is frame_of(item)]
    got = [(c.obj, c.is_exiting, c.is_async) for c in fr[0].contexts] if fr else None
    leg.case(key, True, sample=dict(point=str(key)) if len(leg.samples) < 3 else None)
    # referents mode may add the manager being entered / exited once more (C20's over-approximation clause); nothing is entered at
    # a suspension point of this family, so the only tolerated extra is a second, non-exiting entry for the exiting manager
    ok = got == want
    if not ok and key[0] == "referents" and got is not None and want and want[-1][1]:
        ok = got == want[:-1] + [(want[-1][0], False, is_async), want[-1]]
    if not ok or st.error is not None or (w and key[0] == "default"):
        leg.violation(key, f"{key}: contexts {got!r}, shadow stack {want!r}, warnings {[str(x.message)[:60] for x in w]}, error {st.error!r}")


for mode in ("default", "referents"):
    stackscope.lowlevel.set_trickery_enabled(False if mode == "referents" else None)
    try:
        for fn, boom in itertools.product((a_nested, a_items, a_sandwich, a_plain_def_protocol), (False, True)):
            del SHADOW[:]
            c = fn(boom); n = 0
            try:
                while True:
                    v = c.send(None); n += 1
                    observe((mode, fn.__name__, boom, n, str(v)), c, lambda x: x.cr_frame)
            except (StopIteration, ValueError):
                pass
        for fn, boom in itertools.product((s_nested, s_items, s_sandwich), (False, True)):
            del SHADOW[:]
            g = fn(boom); n = [0]
            def probe(v, g=g, fn=fn, boom=boom, n=n):
                n[0] += 1
                if mode == "referents":
                    return      # a RUNNING frame: outside C20's quantifier (suspended frames); C02 speaks about the default analysis only
                observe((mode, fn.__name__, boom, n[0], str(v)), stackscope.StackSlice(outer=g.gi_frame), lambda x: g.gi_frame)
            PROBE[0] = probe
            try:
                while True:
                    v = next(g); n[0] += 1
                    observe((mode, fn.__name__, boom, n[0], str(v)), g, lambda x: x.gi_frame)
            except (StopIteration, ValueError):
                pass
    finally:
        stackscope.lowlevel.set_trickery_enabled(None)
leg.finish(exhaustive=True)
