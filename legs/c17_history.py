"""C17 bounded native leg: glue call log vs history.  Histories = all sequences of length <= 4 (thorough 5) over
{add m, remove m, fresh m (= a NEW module object carrying its own glue function is put under that name, present or not:
re-insertion / reload), extract} on three fake modules (module glue / built-in glue / both / raising glue), each followed by a final
extract; contract after every extract: for every module currently in sys.modules its glue (module-provided if it has one,
else built-in) has run exactly once so far, never both kinds, never twice; a raising glue gives one warning, the rest is
still installed.  Plus a two-thread schedule: a second extraction that starts while the first is installing glue returns
only after the glue has run.  Violations at an extraction where len(sys.modules) equals its value at the previous
extraction although the contents changed (another name, or a new module object under an old name) are keyed
'same-cardinality-change' (known finding F4)."""
import sys, os, types, itertools, threading, time, warnings
sys.path.insert(0, os.path.dirname(__file__))
from _leg import Leg, THOROUGH
import stackscope
from stackscope import _glue

leg = Leg("c17_history", "all op sequences of length<=%d over {add,remove} x 3 fake modules + {fresh object under an old name} x 2 + extract; 4 module kinds; "
                         "non-trivial = history with >=1 add before an extract" % (5 if THOROUGH else 4))


def gen():
    yield


G = gen(); next(G)
LOG = []          # (module name, kind, generation of the module object whose glue ran)
GEN = {}
KEEP = []        # every module object ever made stays alive, so that id() identifies it for the whole history
KINDS = {"zz_m": "module", "zz_b": "builtin", "zz_x": "both"}
MODS = {}


def fresh_world():
    for n in list(KINDS) + ["zz_r"]:
        sys.modules.pop(n, None)
        _glue.builtin_glue_pending.pop(n, None)
    del LOG[:]
    del KEEP[:-8]
    MODS.clear()
    GEN.clear()
    for n, k in list(KINDS.items()) + [("zz_r", "raising")]:
        GEN[n] = 0
        m = types.ModuleType(n)
        if k in ("module", "both"):
            m._stackscope_install_glue_ = (lambda n=n: LOG.append((n, "module", 0)))
        if k == "raising":
            def boom(n=n):
                LOG.append((n, "module", 0)); raise ValueError("glue failed")
            m._stackscope_install_glue_ = boom
        if k in ("builtin", "both"):
            _glue.builtin_glue(n)(lambda n=n: LOG.append((n, "builtin", GEN[n])))
        MODS[n] = m
        KEEP.append(m)
    stackscope.extract(G)      # settle: everything imported so far is scanned


def fresh_module(n):
    """a new module object under an old name, with its own module glue (what a reload / re-import produces)"""
    GEN[n] += 1
    m = types.ModuleType(n)
    m._stackscope_install_glue_ = (lambda n=n, g=GEN[n]: LOG.append((n, "module", g)))
    MODS[n] = m
    KEEP.append(m)
    return m


def expected_kind(n):
    return "builtin" if KINDS.get(n) == "builtin" else "module"


ENTRY = {"extract": lambda: stackscope.extract(G), "extract_outermost": lambda: stackscope.extract_outermost(G),
         "extract_since": lambda: stackscope.extract_since(None), "extract_until": lambda: stackscope.extract_until(sys._getframe(0), limit=1)}


def run_history(ops, entry="extract"):
    fresh_world()
    prev_len = len(sys.modules); prev_set = {k: id(v) for k, v in sys.modules.items()}
    ever_present_at_extract = set()
    for step, op in enumerate(list(ops) + [("extract",)]):
        if op[0] == "add":
            sys.modules[op[1]] = MODS[op[1]]
        elif op[0] == "remove":
            sys.modules.pop(op[1], None)
        elif op[0] == "fresh":
            sys.modules[op[1]] = fresh_module(op[1])
        else:
            with warnings.catch_warnings(record=True) as w:
                warnings.simplefilter("always")
                try:
                    ENTRY[entry]()
                except BaseException as e:
                    return ("extraction-raised" + ("" if entry == "extract" else ":" + entry), f"after {ops[:step]} {entry} raised {e!r}")
            now_set = {k: id(v) for k, v in sys.modules.items()}
            # the count is what it was at the previous extraction although the contents changed (another name, or another
            # module OBJECT under an old name): the len() fast path cannot see it - known finding F4
            same_card = len(sys.modules) == prev_len and now_set != prev_set
            prev_len = len(sys.modules); prev_set = now_set
            for n in MODS:
                allruns = [(k, g) for (m, k, g) in LOG if m == n]
                if n in sys.modules:
                    ever_present_at_extract.add(n)
                if len(set(allruns)) != len(allruns) or len({k for k, g in allruns}) > 1:
                    return ("twice-or-both", f"glue of {n} ran {allruns} (kind, module generation): one object's glue twice, or both kinds")
                # the module object now under that name: its own glue if it has (had) one, else the built-in glue of the name
                runs = [k for (k, g) in allruns if g == GEN[n] or k == "builtin"]
                if n in sys.modules and runs != [expected_kind(n)]:
                    return ("same-cardinality-change" if same_card else "not-installed-in-time" + ("" if entry == "extract" else ":" + entry),
                            f"after {ops[:step]} {entry}: glue of {n} ran {runs}, expected [{expected_kind(n)!r}]")
                if n not in ever_present_at_extract and n not in sys.modules and runs:
                    pass
    return None


MODE = sys.argv[1] if len(sys.argv) > 1 else "all"        # "faults-only": just the glue-function fault scenarios (used by C05's check)
names = list(KINDS) + ["zz_r"]
alphabet = [("add", n) for n in names[:3]] + [("remove", n) for n in names[:3]] + [("fresh", "zz_m"), ("fresh", "zz_x")] + [("extract",)]
maxlen = 5 if THOROUGH else 4
seen_known = False
for L in (range(1, maxlen + 1) if MODE == "all" else ()):
    for ops in itertools.product(alphabet, repeat=L):
        nontrivial = any(o[0] in ("add", "fresh") for o in ops)
        leg.case(ops, nontrivial, sample=[list(o) for o in ops] if L == 3 and len(leg.samples) < 3 and nontrivial else None)
        r = run_history(ops)
        if r:
            key, desc = r
            if key == "same-cardinality-change":
                if not seen_known:
                    leg.violation(key, desc); seen_known = True
            else:
                leg.violation(f"{key}:{ops}", desc)
# other entry points (each drives the extraction machinery on its own): all histories of length <= 2
for entry in (("extract_outermost", "extract_since", "extract_until") if MODE == "all" else ()):
    for L in (1, 2):
        for ops in itertools.product(alphabet, repeat=L):
            leg.case((entry,) + ops, any(o[0] == "add" for o in ops))
            r = run_history(ops, entry)
            if r and r[0] != "same-cardinality-change":
                leg.violation(f"{r[0]}:{ops}", r[1])
# raising glue: one warning, remaining modules still installed
fresh_world()
sys.modules["zz_r"] = MODS["zz_r"]; sys.modules["zz_m"] = MODS["zz_m"]
with warnings.catch_warnings(record=True) as w:
    warnings.simplefilter("always")
    try:
        st = stackscope.extract(G); raised = None
    except BaseException as e:
        st = None; raised = e
leg.case("raising-glue", True)
rw = [x for x in w if issubclass(x.category, RuntimeWarning) and "zz_r" in str(x.message)]
if raised is not None or len(rw) != 1 or ("zz_m", "module", 0) not in LOG or st.error is not None:
    leg.violation("raising-glue", f"a glue function that raises must cost one warning and nothing else: raised={raised!r} warnings={len(rw)} log={LOG} "
                                  f"error={getattr(st, 'error', None)!r}")
# ... also when the exception the glue function raises cannot even be printed (its __str__ / __repr__ raise too)
class Unprintable(Exception):
    def __str__(s): raise IndexError("str() of the glue's exception fails")
    def __repr__(s): raise IndexError("repr() of the glue's exception fails")
fresh_world()
def bad_glue():
    LOG.append(("zz_u", "module", 0)); raise Unprintable()
mu = types.ModuleType("zz_u"); mu._stackscope_install_glue_ = bad_glue
sys.modules["zz_u"] = mu; sys.modules["zz_m"] = MODS["zz_m"]
with warnings.catch_warnings(record=True) as w:
    warnings.simplefilter("always")
    try:
        st = stackscope.extract(G); raised = None
    except BaseException as e:
        st = None; raised = e
sys.modules.pop("zz_u", None)
leg.case("raising-glue-unprintable", True)
rw = [x for x in w if issubclass(x.category, RuntimeWarning) and "zz_u" in str(x.message)]
if raised is not None or len(rw) != 1 or ("zz_m", "module", 0) not in LOG or st.error is not None:
    leg.violation("raising-glue-unprintable", f"a glue function raising an exception that cannot be printed must still cost one warning and nothing "
                                              f"else: raised={type(raised).__name__ if raised else None} warnings={len(rw)} log={LOG}")
# a glue function that IMPORTS something (puts further modules into sys.modules while the installation pass is walking it): the
# extraction returns normally; the module imported on the way has its own glue installed by the next extraction at the latest
fresh_world()
def importing_glue():
    LOG.append(("zz_i", "module", 0))
    for q in range(40):                                   # enough new entries to resize the dict
        sys.modules["zz_lazy%d" % q] = types.ModuleType("zz_lazy%d" % q)
    late = types.ModuleType("zz_late"); late._stackscope_install_glue_ = lambda: LOG.append(("zz_late", "module", 0))
    sys.modules["zz_late"] = late
mi = types.ModuleType("zz_i"); mi._stackscope_install_glue_ = importing_glue
sys.modules["zz_i"] = mi
leg.case("glue-that-imports", True)
try:
    with warnings.catch_warnings(record=True) as w:
        warnings.simplefilter("always")
        st1 = stackscope.extract(G); st2 = stackscope.extract(G)
    raised = None
except BaseException as e:
    raised = e
if raised is not None or st1.error is not None or LOG.count(("zz_i", "module", 0)) != 1 or LOG.count(("zz_late", "module", 0)) != 1:
    leg.violation("glue-that-imports", f"a glue function that imports modules: raised={raised!r} log={LOG} "
                                       f"(expected its own glue once, the late module's glue once after the second extraction)")
for q in range(40): sys.modules.pop("zz_lazy%d" % q, None)
sys.modules.pop("zz_late", None); sys.modules.pop("zz_i", None)
# two threads: B starts extracting while A is inside a (slow) glue function
fresh_world()
started, done = threading.Event(), []
def slow():
    started.set(); time.sleep(0.15); done.append(1)
m = types.ModuleType("zz_slow"); m._stackscope_install_glue_ = slow
sys.modules["zz_slow"] = m
res = {}
ta = threading.Thread(target=lambda: stackscope.extract(G))
def b():
    # (bounded wait: if the first extraction never calls the module's glue at all, that is the violation - not a hang)
    res["glue_was_called"] = started.wait(10); stackscope.extract(G); res["installed_when_B_returned"] = bool(done)
tb = threading.Thread(target=b)
ta.start(); tb.start(); ta.join(); tb.join()
sys.modules.pop("zz_slow", None)
leg.case("two-threads", True)
if not res.get("glue_was_called") or not res.get("installed_when_B_returned") or len(done) != 1:
    leg.violation("two-threads", f"second extraction returned before glue was installed / glue ran {len(done)} times: {res}")
for n in names: sys.modules.pop(n, None)
leg.finish(exhaustive=True)
