"""C18 / C19 bounded native leg over generated Stack trees built from real frames.
C18: format() returns newline-terminated single lines; reading the box-drawing text back (decoder below) recovers the nesting
     of frames / contexts / inner stacks / child contexts / child task stacks / leaf / error; str(x) == "".join(format());
     ascii_only output is the image of the Unicode output under the fixed marker map; hidden frames and contexts are printed
     iff show_hidden_frames; show_contexts=False prints exactly the frame series.
C19: as_stdlib_summary == the structural projection (spec below) for all flag combinations incl. capture_locals; the summary
     pickles; format_flat == header + StackSummary.format() + leaf + error lines (also for recursion with repeated entries).
Bounds: pseudo-random trees of depth <= 3, width <= 3 (VERIF_SEED), 600 trees quick / 3000 thorough x 8 option sets."""
import sys, os, random, itertools, pickle, traceback
sys.path.insert(0, os.path.dirname(__file__))
from _leg import Leg, THOROUGH, SEED
import stackscope
from stackscope import Stack, Frame, Context
PROP = sys.argv[1] if len(sys.argv) > 1 else "C18"
leg = Leg("trees_" + PROP, "random Stack trees depth<=3 x 8 option sets; non-trivial = tree with >=1 context; distinct by shape")
random.seed(77 + SEED)
def real_frames(n):
    out=[]
    def rec(k):
        out.append(sys._getframe(0))
        if k: rec(k-1)
    rec(n-1); return out
FR = real_frames(6)
class _Base:
    def meth(self): return sys._getframe(0)
    @classmethod
    def cmeth(cls): return sys._getframe(0)
class _SubA(_Base): pass
class _SubB(_Base): pass
FR += [_SubA().meth(), _SubB().meth(), _Base().meth(), _SubA.cmeth(), _SubB.cmeth()]
def frame_label(f):
    """how a frame is identified in the text: Class.function when the class is known, else the function name"""
    return f"{f.clsname}.{f.funcname}" if f.clsname is not None else f.funcname
class Obj:
    def __init__(s,t): s.t=t
    def __repr__(s): return f"<Obj {s.t}>"
class FalsyObj(Obj):
    """a manager / root / leaf that answers False to bool() (container-like, empty)"""
    def __len__(s): return 0
    def __repr__(s): return f"<FalsyObj {s.t}>"
def mk_error(kind=None):
    """raised (has a traceback, multi-line message) | never raised (no traceback at all) | chained (raise ... from ...)"""
    kind = kind or random.choice(["raised", "raised", "never-raised", "chained"])
    def boom(): raise ValueError("boom\nsecond line of message")
    if kind == "never-raised":
        return RuntimeError("made, never raised")
    if kind == "chained":
        try:
            try: boom()
            except ValueError as e: raise KeyError("outer") from e
        except KeyError as e2: return e2
    try: boom()
    except ValueError as e: return e
def rnd_stack(depth, as_child=False):
    nfr = random.choice([0,1,2]) if depth>0 else random.choice([0,1])
    frames=[rnd_frame(depth) for _ in range(nfr)]
    return Stack(root=random.choice([None,Obj('root'),Obj('root'),FalsyObj('root'),0,""]), frames=frames,
                 leaf=random.choice([None,None,Obj('leaf'),FalsyObj('leaf')]), error=random.choice([None,None,None,mk_error()]))
def rnd_frame(depth):
    f=Frame(pyframe=random.choice(FR), hide=random.random()<0.2, hide_line=random.random()<0.2)
    nctx = random.choice([0,0,1,2]) if depth>0 else 0
    f.contexts=[rnd_ctx(depth-1) for _ in range(nctx)]
    if f.contexts and random.random()<0.3: f.contexts[-1].is_exiting=True
    return f
def rnd_ctx(depth):
    c=Context(obj=random.choice([None,Obj('mgr'),Obj('mgr'),FalsyObj('mgr')]), is_async=random.random()<0.5,
              varname=random.choice([None,'x','a.b[0]']), start_line=random.choice([None, 5, 12]),
              description=random.choice([None,'desc(...)']), hide=random.random()<0.15)
    if depth>0:
        if random.random()<0.4: c.inner_stack=rnd_stack(depth-1)
        ch=[]
        for _ in range(random.choice([0,0,1,2,3])):
            ch.append(rnd_ctx(depth-1) if random.random()<0.5 else rnd_stack(depth-1, True))
        c.children=ch
    return c

# ---- expected shape (marker-level tree)
def shape_stack_body(s, o):
    out=[]
    for f in s.frames:
        if f.hide and not o['show_hidden_frames']: continue
        out.append(shape_frame(f,o))
    if s.leaf is not None: out.append(('leaf',))
    if s.error is not None: out.append(('error',))
    return out
def shape_frame(f,o):
    kids=[]
    if o['show_contexts']:
        for c in f.contexts:
            sc=shape_ctx(c,o)
            if sc is not None: kids.append(sc)
    has_code = not (f.contexts and f.contexts[-1].is_exiting) and bool(f.linetext)
    return ('frame', tuple(kids), has_code)
def shape_ctx(c,o):
    if c.hide and not o['show_hidden_frames']: return None
    inner = tuple(shape_stack_body(c.inner_stack,o)) if c.inner_stack is not None else ()
    kids=[]
    for ch in c.children:
        if isinstance(ch,Context):
            sc=shape_ctx(ch,o)
            if sc is not None: kids.append(('child',)+sc[1:])
        else:
            kids.append(('child', tuple(shape_stack_body(ch,o)), (), None))
    # what the first line says about the manager: "<varname or _>: <type name>" iff there is an obj, the bare varname iff there
    # is none but a name, nothing otherwise (so with / without obj can be told apart when reading the text back)
    info = (f"{c.varname or '_'}: {type(c.obj).__name__}" if c.obj is not None else (c.varname if c.varname is not None else ""))
    return ('ctx', inner, tuple(kids), info)

# ---- decoder
M = dict(sf="╠ ", cf="║ ", leaf="╚ ", sc="├ ", cc="│ ", scc="├─", ind="─ ", code="└ ")
def parse_stack_body(lines):
    """lines: body lines of a stack (header removed), each still carrying its 2-char stack marker"""
    out=[]; i=0
    while i<len(lines):
        l=lines[i]
        if l.startswith(M['sf']):
            blk=[l[2:]]; i+=1
            while i<len(lines) and lines[i].startswith(M['cf']): blk.append(lines[i][2:]); i+=1
            out.append(parse_frame(blk))
        elif l.startswith(M['leaf']): out.append(('leaf',)); i+=1
        elif l.startswith("  Error while extracting stack:"):
            # the error block is the last thing a stack prints: everything up to the end of this body belongs to it
            # (a chained error contains blank separator lines), each line indented by two spaces
            i+=1
            while i<len(lines):
                if not lines[i].startswith("  "): raise ValueError(("error block line without indent", lines[i]))
                i+=1
            out.append(('error',))
        else: raise ValueError(("stack body?", l))
    return out
def parse_frame(blk):
    kids=[]; has_code=False; i=1
    while i<len(blk):
        l=blk[i]
        if l.startswith(M['code']): has_code=True; i+=1
        elif l.startswith(M['sc']):
            cl=[l[2:]]; i+=1
            while i<len(blk) and (blk[i].startswith(M['cc']) or blk[i].startswith(M['scc'])):
                cl.append(blk[i][2:]); i+=1
            kids.append(parse_ctx(cl))
        else: raise ValueError(("frame?", l))
    return ('frame', tuple(kids), has_code)
def parse_ctx(cl):
    # cl[0] own line; then inner-stack body lines until first child indicator; then children
    i=1; inner=[]
    while i<len(cl) and not cl[i].startswith(M['ind']):
        inner.append(cl[i]); i+=1
    # a blank line directly before the first child is the separator in front of a child task stack, not part of the inner stack
    # (blank lines INSIDE the inner stack's error block - chained errors - are followed by more error text, not by a child)
    while inner and inner[-1].strip()=="" and i<len(cl): inner.pop()
    kids=[]
    while i<len(cl):
        l=cl[i]
        if l.strip()=="": i+=1; continue
        if not l.startswith(M['ind']): raise ValueError(('child indicator expected', l))
        sub=[l[2:]]; i+=1
        while i<len(cl) and not cl[i].startswith(M['ind']):
            if not cl[i].startswith("  "): raise ValueError(('child continuation expected', cl[i]))
            sub.append(cl[i][2:]); i+=1
        # a child is either a context (ctx-level lines) or a stack (body lines): same marker grammar
        while sub and sub[-1].strip()=="": sub.pop()
        k=parse_ctx(sub)
        kids.append(('child',)+k[1:])
    return ('ctx', tuple(parse_stack_body(inner)), tuple(kids), parse_info(cl[0]))


# ---- expected shape (marker-level tree)
def shape_stack_body(s, o):
    out=[]
    for f in s.frames:
        if f.hide and not o['show_hidden_frames']: continue
        out.append(shape_frame(f,o))
    if s.leaf is not None: out.append(('leaf',))
    if s.error is not None: out.append(('error',))
    return out
def shape_frame(f,o):
    kids=[]
    if o['show_contexts']:
        for c in f.contexts:
            sc=shape_ctx(c,o)
            if sc is not None: kids.append(sc)
    has_code = not (f.contexts and f.contexts[-1].is_exiting) and bool(f.linetext)
    return ('frame', tuple(kids), has_code, frame_label(f))
def shape_ctx(c,o):
    if c.hide and not o['show_hidden_frames']: return None
    inner = tuple(shape_stack_body(c.inner_stack,o)) if c.inner_stack is not None else ()
    kids=[]
    for ch in c.children:
        if isinstance(ch,Context):
            sc=shape_ctx(ch,o)
            if sc is not None: kids.append(('child',)+sc[1:])
        else:
            kids.append(('child', tuple(shape_stack_body(ch,o)), (), None))
    # what the first line says about the manager: "<varname or _>: <type name>" iff there is an obj, the bare varname iff there
    # is none but a name, nothing otherwise (so with / without obj can be told apart when reading the text back)
    info = (f"{c.varname or '_'}: {type(c.obj).__name__}" if c.obj is not None else (c.varname if c.varname is not None else ""))
    return ('ctx', inner, tuple(kids), info)

# ---- decoder
M = dict(sf="╠ ", cf="║ ", leaf="╚ ", sc="├ ", cc="│ ", scc="├─", ind="─ ", code="└ ")
def parse_stack_body(lines):
    """lines: body lines of a stack (header removed), each still carrying its 2-char stack marker"""
    out=[]; i=0
    while i<len(lines):
        l=lines[i]
        if l.startswith(M['sf']):
            blk=[l[2:]]; i+=1
            while i<len(lines) and lines[i].startswith(M['cf']): blk.append(lines[i][2:]); i+=1
            out.append(parse_frame(blk))
        elif l.startswith(M['leaf']): out.append(('leaf',)); i+=1
        elif l.startswith("  Error while extracting stack:"):
            # the error block is the last thing a stack prints: everything up to the end of this body belongs to it
            # (a chained error contains blank separator lines), each line indented by two spaces
            i+=1
            while i<len(lines):
                if not lines[i].startswith("  "): raise ValueError(("error block line without indent", lines[i]))
                i+=1
            out.append(('error',))
        else: raise ValueError(("stack body?", l))
    return out
def parse_frame(blk):
    kids=[]; has_code=False; i=1
    while i<len(blk):
        l=blk[i]
        if l.startswith(M['code']): has_code=True; i+=1
        elif l.startswith(M['sc']):
            cl=[l[2:]]; i+=1
            while i<len(blk) and (blk[i].startswith(M['cc']) or blk[i].startswith(M['scc'])):
                cl.append(blk[i][2:]); i+=1
            kids.append(parse_ctx(cl))
        else: raise ValueError(("frame?", l))
    return ('frame', tuple(kids), has_code, blk[0].split(' in ', 1)[0])
def parse_ctx(cl):
    # cl[0] own line; then inner-stack body lines until first child indicator; then children
    i=1; inner=[]
    while i<len(cl) and not cl[i].startswith(M['ind']):
        inner.append(cl[i]); i+=1
    # a blank line directly before the first child is the separator in front of a child task stack, not part of the inner stack
    # (blank lines INSIDE the inner stack's error block - chained errors - are followed by more error text, not by a child)
    while inner and inner[-1].strip()=="" and i<len(cl): inner.pop()
    kids=[]
    while i<len(cl):
        l=cl[i]
        if l.strip()=="": i+=1; continue
        if not l.startswith(M['ind']): raise ValueError(('child indicator expected', l))
        sub=[l[2:]]; i+=1
        while i<len(cl) and not cl[i].startswith(M['ind']):
            if not cl[i].startswith("  "): raise ValueError(('child continuation expected', cl[i]))
            sub.append(cl[i][2:]); i+=1
        # a child is either a context (ctx-level lines) or a stack (body lines): same marker grammar
        while sub and sub[-1].strip()=="": sub.pop()
        k=parse_ctx(sub)
        kids.append(('child',)+k[1:])
    return ('ctx', tuple(parse_stack_body(inner)), tuple(kids), parse_info(cl[0]))


import re as _re
def parse_info(first_line):
    """the '<name>: <Type>' / '<name>' part of a context's first line (None for a child task stack's root line)"""
    if "  # " not in first_line:
        return "" if ("with " in first_line or "desc(" in first_line or ":" in first_line) else None
    comment = first_line.rsplit("  # ", 1)[1].rstrip("\n")
    return _re.sub(r"\s*\(line \d+\)$", "", comment).strip()


def norm_shape(x):
    """child task stacks carry no manager info: compare them with info None on both sides"""
    if isinstance(x, tuple) and x and x[0] == 'child' and len(x) == 4 and x[3] is None:
        return ('child', norm_shape(x[1]), x[2], None)
    if isinstance(x, tuple):
        return tuple(norm_shape(y) for y in x)
    return x


def has_ctx(s):
    return any(f.contexts for f in s.frames)

UNI2ASC = {"╠ ": "+ ", "║ ": "| ", "╚ ": "+ ", "├ ": ". ", "│ ": "  ", "├─": "  ", "─ ": ". ", "└ ": "` ", "  ": "  "}
def to_ascii(line):
    out = ""; rest = line
    while rest[:2] in UNI2ASC and not (rest[:2] == "  " and not any(m in rest for m in "╠║╚├│─└")):
        out += UNI2ASC[rest[:2]]; rest = rest[2:]
    return out + rest

def visible_tags(s, o, acc):
    for f in s.frames:
        if f.hide and not o["show_hidden_frames"]: continue
        acc.append(("frame", id(f)))
        if o["show_contexts"]:
            for c in f.contexts: ctx_tags(c, o, acc)
def ctx_tags(c, o, acc):
    if c.hide and not o["show_hidden_frames"]: return
    acc.append(("ctx", id(c)))
    if c.inner_stack is not None: visible_tags(c.inner_stack, o, acc)
    for ch in c.children:
        if isinstance(ch, Context): ctx_tags(ch, o, acc)
        else: visible_tags(ch, o, acc)

def exp_header(s):
    return f"stackscope.Stack of {s.root!r} (most recent call last):\n" if s.root is not None else "stackscope.Stack (most recent call last):\n"
def exp_error_lines(err):
    """every line of the error's rendering by the traceback module, minus its 'Traceback (most recent call last):' banners, indented"""
    out = ["  Error while extracting stack:\n"]
    for chunk in traceback.format_exception(type(err), err, err.__traceback__):
        if chunk == "Traceback (most recent call last):\n": continue
        out += ["  " + l for l in chunk.splitlines(True)]
    return out
def info_of(c):
    if c.obj is not None: return f"{c.varname or '_'}: {type(c.obj).__name__}"
    return c.varname if c.varname is not None else ""
def summ_stack(s, show_contexts, show_hidden, cl):
    out = []
    for f in s.frames:
        if f.hide and not show_hidden: continue
        if show_contexts: out += summ_frame_ctx(f, show_hidden, cl)
        else: out.append((f.filename, f.lineno, f.funcname, cl))
    return out
def summ_frame_ctx(f, show_hidden, cl):
    out = []
    for c in f.contexts: out += summ_ctx(c, f, show_hidden, cl)
    if not (f.contexts and f.contexts[-1].is_exiting): out.append((f.filename, f.lineno, f.funcname, cl))
    return out
def summ_ctx(c, parent, show_hidden, cl):
    if c.hide and not show_hidden: return []
    info = info_of(c)
    out = [(parent.filename, c.start_line or parent.lineno, parent.funcname + (f" ({info})" if info else ""), cl)]
    if c.inner_stack is not None: out += summ_stack(c.inner_stack, True, show_hidden, cl)
    for ch in c.children:
        if isinstance(ch, Context): out += summ_ctx(ch, parent, show_hidden, cl)
    return out

N = 3000 if THOROUGH else 600
for t in range(N):
    s = rnd_stack(3)
    shape_key = repr(shape_stack_body(s, dict(show_hidden_frames=True, show_contexts=True)))
    for a, sc, sh in itertools.product([False, True], repeat=3):
        leg.case((shape_key, a, sc, sh), has_ctx(s), sample=dict(tree=shape_key[:160], opts=[a, sc, sh]) if len(leg.samples) < 3 and has_ctx(s) and len(shape_key) < 200 else None)
        key = f"tree#{t}:{a}{sc}{sh}"
        try:
            s.format(ascii_only=a, show_contexts=sc, show_hidden_frames=sh); str(s)
            s.as_stdlib_summary(show_contexts=sc, show_hidden_frames=sh, capture_locals=a); s.format_flat(show_contexts=sc)
        except Exception as e:
            leg.violation(key, f"formatting / summarising a Stack raised {e!r} (error kind: {type(s.error).__name__ if s.error else None})"); continue
        if PROP == "C18":
            o = dict(ascii_only=a, show_contexts=sc, show_hidden_frames=sh)
            lines = s.format(**o)
            if not all(l.endswith("\n") and l.count("\n") == 1 for l in lines):
                leg.violation(key, "format() returned an element that is not a single newline-terminated line"); continue
            if "".join(s.format()) != str(s):
                leg.violation(key, "str(x) != ''.join(x.format())"); continue
            u = s.format(ascii_only=False, show_contexts=sc, show_hidden_frames=sh)
            if a:
                if [to_ascii(l) for l in u] != lines:
                    leg.violation(key, "ascii_only output is not the image of the Unicode output under the fixed marker map")
                continue
            try:
                got = parse_stack_body(lines[1:]); exp = shape_stack_body(s, o); ok = got == exp
            except Exception as e:
                ok = False; got = repr(e); exp = None
            if not ok:
                leg.violation(key, f"decoded shape differs from the Stack's structure: {str(got)[:200]} vs {str(exp)[:200]}")
            # the text names the root, and the error block at the end is the recorded error as the traceback module renders it
            # (every chunk, every banner-less line, chained causes included)
            if lines[0] != exp_header(s):
                leg.violation(key, f"first line {lines[0]!r} is not the header of this Stack ({exp_header(s)!r})")
            if s.error is not None:
                ee = exp_error_lines(s.error)
                if lines[-len(ee):] != ee:
                    leg.violation(key, f"the error block at the end of format() is not the recorded error's rendering: {lines[-len(ee):][-3:]!r} vs {ee[-3:]!r}")
        else:
            cl = a
            summ = s.as_stdlib_summary(show_contexts=sc, show_hidden_frames=sh, capture_locals=cl)
            got = [(x.filename, x.lineno, x.name, x.locals is not None) for x in summ]
            exp = summ_stack(s, sc, sh, cl)
            if got != exp:
                leg.violation(key, f"summary differs from the structural projection (show_contexts={sc}, show_hidden_frames={sh}, capture_locals={cl})")
            try:
                pickle.loads(pickle.dumps(summ))
            except Exception as e:
                leg.violation(key, f"summary does not pickle: {e!r}")
            # process-wide settings of the traceback machinery (sys.tracebacklimit) are none of the summary's business: it projects
            # the Stack, whatever limit the host program runs with
            if t % 7 == 0:
                for lim in (0, 1):
                    sys.tracebacklimit = lim
                    try:
                        limited = [(x.filename, x.lineno, x.name, x.locals is not None)
                                   for x in s.as_stdlib_summary(show_contexts=sc, show_hidden_frames=sh, capture_locals=cl)]
                        flat_l = s.format_flat(show_contexts=sc)
                    finally:
                        del sys.tracebacklimit
                    if limited != exp or (s.error is None and flat_l != s.format_flat(show_contexts=sc)):   # (an error block is the traceback module's own rendering)
                        leg.violation(key, f"with sys.tracebacklimit = {lim} the summary / flat format changes ({len(limited)} entries, {len(exp)} expected)")
            flat = s.format_flat(show_contexts=sc)
            expf = [exp_header(s)]
            if s.frames: expf += s.as_stdlib_summary(show_contexts=sc).format()
            if s.leaf is not None: expf.append(f"  Target of innermost frame: {s.leaf!r}\n")
            if s.error is not None: expf += exp_error_lines(s.error)
            if flat != expf:
                leg.violation(key, "format_flat != header + StackSummary.format() + leaf + error")
if PROP == "C19":
    # recursion: >= 4 consecutive identical entries must be collapsed exactly as traceback does
    rs = Stack(root=None, frames=[Frame(pyframe=FR[0]) for _ in range(7)])
    leg.case("recursion", True)
    if rs.format_flat() != [exp_header(rs)] + rs.as_stdlib_summary().format():
        leg.violation("recursion", "format_flat of a recursive stack is not header + StackSummary.format()")
    if not any("Previous line repeated" in l for l in rs.format_flat()):
        leg.violation("recursion", "format_flat lost traceback's repeated-line collapsing")
if PROP == "C18":
    # hidden child context inside another context's children
    hc = Context(obj=Obj("HIDDEN_CHILD"), is_async=False, description="HIDDEN_CHILD", hide=True,
                 children=[Context(obj=Obj("g"), is_async=False, description="HIDDEN_GRANDCHILD")])
    par = Context(obj=Obj("p"), is_async=False, description="PARENT", children=[hc, Context(obj=Obj("v"), is_async=False, description="VISIBLE")])
    st = Stack(root=None, frames=[Frame(pyframe=FR[0], contexts=[par])])
    for sh in (False, True):
        leg.case(("hidden-child", sh), True)
        txt = "".join(st.format(show_hidden_frames=sh))
        if ("HIDDEN_CHILD" in txt) != sh or ("HIDDEN_GRANDCHILD" in txt) != sh or "VISIBLE" not in txt:
            leg.violation(("hidden-child", sh), "hidden child context printed iff show_hidden_frames is violated")
    # error with a real multi-line traceback nested as inner stack and as child task stack
    inner = Stack(root=Obj("task"), frames=[Frame(pyframe=FR[1])], error=mk_error())
    c1 = Context(obj=Obj("m"), is_async=True, description="nursery", inner_stack=inner, children=[Stack(root=Obj("child"), frames=[Frame(pyframe=FR[2])], error=mk_error())])
    st = Stack(root=None, frames=[Frame(pyframe=FR[0], contexts=[c1])], error=mk_error())
    leg.case("nested-errors", True)
    try:
        lines = st.format()
    except Exception as e:
        leg.violation("nested-errors", f"format() of a Stack with nested errors raised {e!r}"); lines = []
    if not all(l.endswith("\n") and l.count("\n") == 1 for l in lines):
        leg.violation("nested-errors", "an error block inside a nested stack yields multi-line elements")
    o = dict(ascii_only=False, show_contexts=True, show_hidden_frames=False)
    try:
        if parse_stack_body(lines[1:]) != shape_stack_body(st, o):
            leg.violation("nested-errors", "nested error blocks break the decodable structure")
    except Exception as e:
        leg.violation("nested-errors", f"decoder failed on nested error blocks: {e!r}")
leg.finish()
