"""C11 bounded native leg: fill_context's steady-state loop, observed through probe hooks.
Manager types T0..T3 with registered elaborate_context / unwrap_context hooks whose behaviour is drawn from small tables:
every unwrap table of length <= 3 over {next manager, None, PRUNE}, run inside and outside an extraction; a cycle
(> 100 steps); an elaborate hook that replaces context.obj; generator-based managers with a registered
unwrap_context_generator (suspended and exiting, with and without a more specific elaborate hook that leaves inner_stack
unset, with a failing context inside the generator, with an elaborate hook that calls extract_child after the unwrap).
Contract: elaborate runs on the current manager before each unwrap and again after each successful unwrap; a returned
manager replaces obj and inner_stack / children are reset BEFORE the re-elaboration; PRUNE hides and stops; None stops; the
cycle ends in an error; the result outside an extraction equals the result inside one."""
import sys, os, itertools, contextlib
sys.path.insert(0, os.path.dirname(__file__))
from _leg import Leg
import stackscope
from stackscope import _extract as E, Context, PRUNE

leg = Leg("c11_contexts", "all unwrap tables of length <= 3 over {next, None, PRUNE} x inside/outside an extraction; cycle; obj-replacing "
                          "elaborate hook; generator-based managers x {suspended, exiting} x 4 hook configurations; non-trivial = >= 1 unwrap step")
LOG = []
TABLE = {}


class T:
    def __init__(s, i): s.i = i
    def __enter__(s): return s
    def __exit__(s, *a): return False
    def __repr__(s): return f"T{s.i}"


@stackscope.elaborate_context.register(T)
def _elab(mgr, ctx):
    LOG.append(("elaborate", mgr.i, ctx.obj is mgr, ctx.inner_stack, tuple(ctx.children)))
    ctx.inner_stack = stackscope.Stack(root=("inner-of", mgr.i), frames=[])      # something the next step must reset
    ctx.children = [Context(obj=("child-of", mgr.i), is_async=False)]


@stackscope.unwrap_context.register(T)
def _unwrap(mgr, ctx):
    LOG.append(("unwrap", mgr.i, ctx.obj is mgr))
    return TABLE.get(mgr.i)


def run_fill(first, inside):
    c = Context(obj=first, is_async=False)
    del LOG[:]
    err = None
    if inside:
        def gen():
            yield
        g = gen(); next(g)
        res = {}
        @stackscope.elaborate_frame.register(gen)
        def _h(frame, nxt):
            try: E.fill_context(c)
            except Exception as e: res["err"] = e
        stackscope.extract(g)
        err = res.get("err")
        g.close()
    else:
        try: E.fill_context(c)
        except Exception as e: err = e
    return c, list(LOG), err


MGRS = [T(0), T(1), T(2), T(3)]
OUTCOMES = ["next", None, "PRUNE", "()"]        # "()": a literal empty tuple, documented as equivalent to PRUNE
for L in (1, 2, 3):
    for table in itertools.product(OUTCOMES, repeat=L):
        if any(o != "next" for o in table[:-1]):
            continue                      # the chain stops at the first None / PRUNE
        TABLE.clear()
        for i, o in enumerate(table):
            TABLE[i] = MGRS[i + 1] if o == "next" else (PRUNE if o == "PRUNE" else (tuple([]) if o == "()" else None))
        TABLE[L] = None if table[-1] == "next" else TABLE.get(L)
        results = []
        for inside in (False, True):
            key = (table, "inside" if inside else "outside")
            leg.case(key, "next" in table)
            c, log, err = run_fill(MGRS[0], inside)
            steps = sum(1 for o in table if o == "next")
            final = MGRS[steps]
            exp_log = []
            for i in range(steps + 1):
                exp_log.append(("elaborate", i, True, None, ()))        # sees itself as obj, and a RESET inner_stack / children
                exp_log.append(("unwrap", i, True))
            last = table[-1] if steps < L else None
            ok = (err is None and c.obj is final and log == exp_log and c.hide == (last in ("PRUNE", "()"))
                  and c.inner_stack is not None and c.inner_stack.root == ("inner-of", steps) and [x.obj for x in c.children] == [("child-of", steps)])
            if not ok:
                leg.violation(key, f"table {table}: obj={c.obj!r} (expected {final!r}) hide={c.hide} err={err!r} log={log} expected log={exp_log} "
                                   f"inner={getattr(c.inner_stack, 'root', None)}")
            results.append((repr(c.obj), c.hide, log))
        if results[0] != results[1]:
            leg.violation((table, "same"), f"fill_context outside an extraction differs from inside one: {results}")

# managers made ON THE FLY by the unwrap hook, nobody else holding them (each step's predecessor dies, its address is free for the
# next one): a finite chain of n steps ends at the last manager with no error, for n up to 40
class Fresh:
    def __init__(s, n): s.n = n
    def __enter__(s): return s
    def __exit__(s, *a): return False


@stackscope.unwrap_context.register(Fresh)
def _uw_fresh(mgr, ctx):
    return Fresh(mgr.n - 1) if mgr.n > 0 else None


for n in (1, 2, 3, 4, 5, 8, 13, 40):
    for inside in (False, True):
        key = ("fresh-managers", n, inside)
        leg.case(key, True)
        cfr = Context(obj=Fresh(n), is_async=False)
        errf = None
        try:
            if inside:
                with E.current_options.push(with_contexts=True, recurse_child_tasks=False):
                    E.fill_context(cfr)
            else:
                E.fill_context(cfr)
        except Exception as e:
            errf = e
        if errf is not None or not isinstance(cfr.obj, Fresh) or cfr.obj.n != 0 or cfr.hide:
            leg.violation(key, f"chain of {n} managers made on the fly: obj={getattr(cfr.obj, 'n', cfr.obj)!r} hide={cfr.hide} error={errf!r}")

# cycle: more than 100 unwrap steps end in an error, not a hang
TABLE.clear(); TABLE[0] = MGRS[1]; TABLE[1] = MGRS[0]
for inside in (False, True):
    key = ("cycle", inside)
    leg.case(key, True)
    c, log, err = run_fill(MGRS[0], inside)
    if not isinstance(err, RuntimeError) or sum(1 for x in log if x[0] == "unwrap") > 110:
        leg.violation(key, f"a cyclic unwrap must end in RuntimeError after ~100 steps: err={err!r}, unwrap calls={sum(1 for x in log if x[0] == 'unwrap')}")


# an elaborate hook that REPLACES context.obj (as the nursery glue does): unwrap must be dispatched on the replacement
class Outer(T): pass
class Repl(T): pass
REPL = Repl(7)
@stackscope.elaborate_context.register(Outer)
def _elab_outer(mgr, ctx):
    ctx.obj = REPL
@stackscope.unwrap_context.register(Repl)
def _unwrap_repl(mgr, ctx):
    LOG.append(("unwrap-repl", ctx.obj is REPL))
    return PRUNE
TABLE.clear()
leg.case("elaborate-replaces-obj", True)
c, log, err = run_fill(Outer(9), False)
if err is not None or c.obj is not REPL or not c.hide or ("unwrap-repl", True) not in log:
    leg.violation("elaborate-replaces-obj", f"after an elaborate hook replaced obj, unwrap must run on the replacement: obj={c.obj!r} hide={c.hide} log={log} err={err!r}")


# generator-based managers with a registered unwrap_context_generator
REAL = T(5)
TABLE.clear()
def make_gcm(failing_inner=False):
    class Boom:
        def __enter__(s): return s
        def __exit__(s, *a): return False
    @contextlib.contextmanager
    def wrapper():
        if failing_inner:
            with Boom():
                yield
        else:
            yield
    @stackscope.unwrap_context_generator.register(wrapper.__wrapped__)
    def _uw(frame, ctx):
        return REAL
    if failing_inner:
        @stackscope.unwrap_context.register(Boom)
        def _boom(mgr, ctx):
            raise ValueError("hook for a manager inside the generator fails")
    return wrapper

def user_suspended(w):
    with w():
        yield

for failing_inner in (False, True):
    for mode in ("suspended", "exiting"):
        key = ("gcm", mode, "failing-inner" if failing_inner else "plain")
        leg.case(key, True)
        w = make_gcm(failing_inner)
        res = {}
        if mode == "suspended":
            g = user_suspended(w); next(g)
            st = stackscope.extract(g)
            ctx = st.frames[0].contexts[0]
            g.close()
        else:
            # observe the frame while the generator-based manager's own __exit__ is running: a nested manager inside the
            # wrapped generator's finally part calls the probe
            class Probe:
                def __enter__(s): return s
                def __exit__(s, *a):
                    res["st"] = stackscope.extract_since(FRAME[0]); return False
            FRAME = [None]
            class Boom2:
                def __enter__(s): return s
                def __exit__(s, *a): return False
            if failing_inner:
                @stackscope.unwrap_context.register(Boom2)
                def _boom2(mgr, ctx):
                    raise ValueError("hook for a manager inside the exiting generator fails")
            @contextlib.contextmanager
            def wrapper2():
                try:
                    yield
                finally:
                    with (Boom2() if failing_inner else contextlib.nullcontext()):
                        with Probe():
                            pass
            @stackscope.unwrap_context_generator.register(wrapper2.__wrapped__)
            def _uw2(frame, ctx):
                return REAL
            def user2():
                FRAME[0] = sys._getframe(0)
                with wrapper2():
                    pass
            user2()
            st = res["st"]
            ctx = st.frames[0].contexts[0]
        errs = []
        def collect(stack):
            if stack.error is not None: errs.append(stack.error)
        collect(st)
        if ctx.obj is not REAL:
            leg.violation(key, f"the manager returned by the registered unwrap_context_generator must replace the generator-based one: obj={ctx.obj!r} "
                               f"is_exiting={ctx.is_exiting} error={st.error!r}")

# a hook that chooses the next manager by looking at the generator frame's OWN active contexts (what the built-in pytest-trio
# glue does): the frame it is given shows them in both lookup paths - through inner_stack (suspended) and through
# extract_outermost (exiting)
class Inner:
    def __init__(s, tag): s.tag = tag
    def __enter__(s): return s
    def __exit__(s, *a): return False
    def __repr__(s): return f"Inner({s.tag})"


def by_contexts(frame, ctx):
    SEEN.append([c.obj for c in frame.contexts])
    return frame.contexts[0].obj if frame.contexts else None


SEEN = []
for mode in ("suspended", "exiting"):
    key = ("gcm-hook-reads-frame-contexts", mode)
    leg.case(key, True)
    del SEEN[:]
    inner = Inner(mode)
    if mode == "suspended":
        @contextlib.contextmanager
        def wrapper5():
            with inner:
                yield
        stackscope.unwrap_context_generator.register(wrapper5.__wrapped__)(by_contexts)
        def user5():
            with wrapper5():
                yield
        g = user5(); next(g)
        st = stackscope.extract(g)
        g.close()
    else:
        res5 = {}; FRAME5 = [None]
        class Probe5:
            def __enter__(s): return s
            def __exit__(s, *a):
                res5["st"] = stackscope.extract_since(FRAME5[0]); return False
        @contextlib.contextmanager
        def wrapper6():
            try:
                yield
            finally:
                with inner:
                    with Probe5():
                        pass
        stackscope.unwrap_context_generator.register(wrapper6.__wrapped__)(by_contexts)
        def user6():
            FRAME5[0] = sys._getframe(0)
            with wrapper6():
                pass
        user6()
        st = res5["st"]
    ctx = st.frames[0].contexts[0]
    if ctx.obj is not inner or not SEEN or not SEEN[0] or SEEN[0][0] is not inner:
        leg.violation(key, f"a registered unwrap_context_generator that reads frame.contexts must see the generator frame's active managers "
                           f"({mode}): hook saw {SEEN!r}, context obj={ctx.obj!r} error={st.error!r}")

# a more specific elaborate_context hook (for a subclass of the generator-based manager type) that leaves inner_stack unset:
# the registered unwrap_context_generator must still be applied
class MyGCM(contextlib._GeneratorContextManager):
    pass
def my_contextmanager(fn):
    import functools
    @functools.wraps(fn)
    def helper(*a, **k):
        return MyGCM(fn, a, k)
    return helper
@stackscope.elaborate_context.register(MyGCM)
def _elab_mygcm(mgr, ctx):
    ctx.description = "custom description, no inner stack"
@my_contextmanager
def wrapper4():
    yield
@stackscope.unwrap_context_generator.register(wrapper4.__wrapped__)
def _uw4(frame, ctx):
    return REAL
leg.case("gcm-specific-elaborate-hook", True)
g4 = user_suspended(wrapper4); next(g4)
st4 = stackscope.extract(g4)
c4 = st4.frames[0].contexts[0]
if c4.obj is not REAL or st4.error is not None:
    leg.violation("gcm-specific-elaborate-hook", f"with a more specific elaborate hook that sets no inner_stack the registered unwrapper is still applied: "
                                                 f"obj={c4.obj!r} error={st4.error!r}")
g4.close()

# exiting generator-based manager + an elaborate hook on the REAL manager that calls extract_child after the unwrap
leg.case("gcm-exiting-then-extract_child", True)
res = {}
class Real2(T): pass
REAL2 = Real2(6)
@stackscope.elaborate_context.register(Real2)
def _elab_real2(mgr, ctx):
    def other():
        yield
    o = other(); next(o)
    try:
        res["child"] = E.extract_child(o, for_task=False)
    except Exception as e:
        res["child_err"] = e
    o.close()
class Probe3:
    def __enter__(s): return s
    def __exit__(s, *a):
        res["st"] = stackscope.extract_since(FRAME3[0]); return False
FRAME3 = [None]
@contextlib.contextmanager
def wrapper3():
    try:
        yield
    finally:
        with Probe3():
            pass
@stackscope.unwrap_context_generator.register(wrapper3.__wrapped__)
def _uw3(frame, ctx):
    return REAL2
def user3():
    FRAME3[0] = sys._getframe(0)
    with wrapper3():
        pass
user3()
st = res.get("st")
if st is None or "child_err" in res or "child" not in res or st.error is not None or st.frames[0].contexts[0].obj is not REAL2:
    leg.violation("gcm-exiting-then-extract_child", f"re-elaboration after unwrapping an EXITING generator-based manager must still run inside the "
                                                    f"extraction: child_err={res.get('child_err')!r} error={getattr(st, 'error', None)!r}")
leg.finish(exhaustive=True)
